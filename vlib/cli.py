"""vcheck: decide one property of /repo's working tree by static analysis.

exit 0 = every obligation discharged (KNOWN-FINDING lines allowed)
exit 1 = at least one unlisted violation (VIOLATION property=<id> replay=<path>)
exit 2 = ANALYSIS-ERROR (the analysis could not decide; never a verdict)
"""
from __future__ import annotations

import argparse
import os
import sys
import traceback

sys.path.insert(0, os.path.dirname(os.path.dirname(os.path.abspath(__file__))))
sys.setrecursionlimit(10000)

from vlib.front import AnalysisError, Program  # noqa: E402
from vlib.report import Report  # noqa: E402


def main(argv=None) -> int:
    ap = argparse.ArgumentParser()
    ap.add_argument("prop")
    ap.add_argument("--tier", default=os.environ.get("VERIF_TIER", "quick"))
    ap.add_argument("--root", default="/repo")
    ap.add_argument("--replay", default=None)
    args = ap.parse_args(argv)
    tier = args.tier if args.tier in ("quick", "thorough") else "quick"
    from vlib import depth
    depth.set_tier(tier)
    from vlib import props

    fn = props.CHECKS.get(args.prop)
    if fn is None:
        print(f"ANALYSIS-ERROR: no check for property {args.prop}")
        return 2
    try:
        prog = Program(args.root)
        if prog.parse_errors:
            raise AnalysisError("source does not parse: " + "; ".join(prog.parse_errors))
        rep = Report(args.prop, tier, args.root)
        fn(rep, prog, tier)
        if tier == "thorough" and os.path.abspath(args.root) == "/repo" and not os.environ.get("VERIF_NO_EVIDENCE") and not os.environ.get("VERIF_NO_SELFTEST"):
            # both-ways self-validation of this check on scratch variants; recorded in the evidence, never part of the verdict
            from vlib import selftest
            try:
                rep.selftest = selftest.for_property(args.prop)
                st = rep.selftest
                print(f"[selftest] {st['fired_as_expected']}/{st['must_fire']} must-fire variants reported, {st['silent_as_expected']}/{st['must_stay_silent']} "
                      f"must-stay-silent variants silent, {st['stale_variants']} stale, {len(st['unexpected'])} unexpected; {st['wall_s']}s")
                for u in st["unexpected"]:
                    print(f"[selftest] unexpected: {u['id']}: {u['verdict']}"[:300])
            except Exception as e:  # noqa: BLE001
                rep.selftest = {"error": repr(e)}
        return rep.finish()
    except AnalysisError as e:
        print(f"ANALYSIS-ERROR: {args.prop}: {e}")
        return 2
    except Exception:  # noqa: BLE001 - a crash of the analysis is never a verdict
        print(f"ANALYSIS-ERROR: {args.prop}: internal error")
        traceback.print_exc()
        return 2


if __name__ == "__main__":
    sys.exit(main())
