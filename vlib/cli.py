"""vcheck: decide one property of /repo's working tree by static analysis.

exit 0 = every obligation discharged (KNOWN-FINDING lines allowed)
exit 1 = at least one unlisted violation (VIOLATION property=<id> replay=<path>)
exit 2 = ANALYSIS-ERROR (the analysis could not decide; never a verdict)
"""
from __future__ import annotations

import argparse
import os
import sys
import traceback

sys.path.insert(0, os.path.dirname(os.path.dirname(os.path.abspath(__file__))))
sys.setrecursionlimit(10000)

from vlib.front import AnalysisError, Program  # noqa: E402
from vlib.report import Report  # noqa: E402


def main(argv=None) -> int:
    ap = argparse.ArgumentParser()
    ap.add_argument("prop")
    ap.add_argument("--tier", default=os.environ.get("VERIF_TIER", "quick"))
    ap.add_argument("--root", default="/repo")
    ap.add_argument("--replay", default=None)
    args = ap.parse_args(argv)
    tier = args.tier if args.tier in ("quick", "thorough") else "quick"
    from vlib import props

    fn = props.CHECKS.get(args.prop)
    if fn is None:
        print(f"ANALYSIS-ERROR: no check for property {args.prop}")
        return 2
    try:
        prog = Program(args.root)
        if prog.parse_errors:
            raise AnalysisError("source does not parse: " + "; ".join(prog.parse_errors))
        rep = Report(args.prop, tier, args.root)
        fn(rep, prog, tier)
        return rep.finish()
    except AnalysisError as e:
        print(f"ANALYSIS-ERROR: {args.prop}: {e}")
        return 2
    except Exception:  # noqa: BLE001 - a crash of the analysis is never a verdict
        print(f"ANALYSIS-ERROR: {args.prop}: internal error")
        traceback.print_exc()
        return 2


if __name__ == "__main__":
    sys.exit(main())
