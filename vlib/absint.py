"""E2 - path-sensitive effect and decision extractor.

An abstract interpreter over the statement tree of repository functions.  Nothing is imported or run:
branch conditions that are not determined become uninterpreted predicates, both arms are taken
(enumeration by re-execution with a decision trail), loops over symbolic families run their body once
with a generic element (all body paths enumerated on clones of the state, merged back as guarded
"for each" effects), ``while`` loops run once from a havocked head, self-recursion is recorded, not
unfolded.  No solver is ever asked whether a path is feasible.
"""
from __future__ import annotations

import ast
from dataclasses import dataclass, field

from . import formula as F
from .absvals import *  # noqa: F401,F403
from .absvals import (Const, Sym, PredV, FormulaV, LinV, Ref, TupleV, ElemV, FuncV, ClassV, ExtV, MethV, NameV,
                      ExcV, LambdaV, HList, HDict, HObj, HSolver, HWcnf, HOpaque, desc, pred_not, pred_and,
                      pred_or, PTRUE, PFALSE, show_pred)
from .front import AnalysisError, FunctionInfo, Program

MAX_PATHS = 4096
MAX_DEPTH = 6


# ----------------------------------------------------------------------------------------------
# control signals
# ----------------------------------------------------------------------------------------------
class ReturnSig(Exception):
    def __init__(self, value):
        self.value = value


class BreakSig(Exception):
    pass


class ContinueSig(Exception):
    pass


class RaiseSig(Exception):
    def __init__(self, exc: ExcV, node=None):
        self.exc = exc
        self.node = node


_MISSING = object()


class _GenStop(Exception):
    """Unwinds a generator whose consuming for statement was left (break / return / exception in the loop body)."""


class PathEnd(Exception):
    """The current path ends here (loop back edge of a while loop, infeasible assumption, ...)."""

    def __init__(self, outcome):
        self.outcome = outcome


# ----------------------------------------------------------------------------------------------
@dataclass
class Ev:
    kind: str
    data: dict
    node: object = None
    fn: str = ""

    def __getattr__(self, k):
        try:
            return self.data[k]
        except KeyError:
            raise AttributeError(k)

    def where(self):
        ln = getattr(self.node, "lineno", "?")
        return f"{self.fn}:{ln}"


@dataclass
class Case:
    guard: list  # [(pred_key, value)] decided locally for the generic element
    events: list
    sig: tuple
    state: object = None
    assume: tuple = ()


class Frame:
    def __init__(self, func, module, cls, env=None, fid=0, closure=None, is_comp=False):
        self.func = func
        self.module = module
        self.cls = cls
        self.env = dict(env or {})
        self.fid = fid
        self.closure = closure  # index of the enclosing frame in state.frames (comprehensions, lambdas)
        self.is_comp = is_comp
        self.current_exc = None
        self.on_yield = None  # set while the frame is the generator of a with statement

    def clone(self):
        f = Frame(self.func, self.module, self.cls, self.env, self.fid, self.closure, self.is_comp)
        f.current_exc = self.current_exc
        f.on_yield = getattr(self, "on_yield", None)
        return f


class State:
    def __init__(self):
        self.heap: dict[int, object] = {}
        self.frames: list[Frame] = []
        self.counters: dict[str, int] = {}
        self.globals_objs: dict[str, object] = {}  # module-level containers that functions change: one object per state
        self.shadow: dict = {}  # (descriptor of an unknown container, descriptor of a key) -> value stored there on this path

    def clone(self):
        s = State()
        s.heap = {k: v.clone() for k, v in self.heap.items()}
        s.frames = [f.clone() for f in self.frames]
        s.counters = dict(self.counters)
        s.globals_objs = dict(self.globals_objs)
        s.shadow = dict(self.shadow)
        return s

    def fresh(self, prefix):
        n = self.counters.get(prefix, 0) + 1
        self.counters[prefix] = n
        return n


class TrailEntry:
    __slots__ = ("key", "options", "idx")

    def __init__(self, key, options):
        self.key = key
        self.options = options
        self.idx = 0


def is_local(x, names, floor) -> bool:
    """Does a predicate key talk about something created inside the current sub-context (the generic
    element, or an id / object / variable allocated after the sub-context was opened)?"""
    if isinstance(x, tuple):
        if x in names:
            return True
        if len(x) == 3 and x[0] == "#" and isinstance(x[2], int):
            return x[2] > floor.get(x[1], 0)
        if len(x) == 2 and x[0] in ("ref", "dict") and isinstance(x[1], int):
            return x[1] > floor.get("oid", 0)
        if len(x) == 3 and x[0] == "carried" and isinstance(x[1], int):
            return x[1] > floor.get("loop", 0)
        if len(x) == 2 and x[0] == "var" and isinstance(x[1], str):
            digits = "".join(ch for ch in x[1] if ch.isdigit())
            return bool(digits) and int(digits) > floor.get("var", 0)
        return any(is_local(i, names, floor) for i in x)
    if isinstance(x, (frozenset, list)):
        return any(is_local(i, names, floor) for i in x)
    return False


class Ctx:
    def __init__(self, parent=None, trail=None, local_names=None, floor=None):
        self.floor = dict(floor or {})
        self.parent = parent
        self.trail = trail if trail is not None else []
        self.pos = 0
        self.decided: dict = {}
        self.order: list = []
        self.events: list = []
        self.local_names = set(local_names or ())
        self.assumed: list = []

    def lookup(self, key):
        c = self
        while c is not None:
            if key in c.decided:
                return True, c.decided[key]
            c = c.parent
        return False, None

    def decide(self, key, options=(True, False)):
        found, v = self.lookup(key)
        if found:
            return v
        if self.parent is not None and not is_local(key, self.local_names, self.floor):
            return self.parent.decide(key, options)
        if self.pos < len(self.trail):
            ent = self.trail[self.pos]
            if ent.key != key:
                raise AnalysisError(f"non-deterministic replay: expected decision {ent.key!r}, got {key!r}")
        else:
            ent = TrailEntry(key, tuple(options))
            self.trail.append(ent)
        self.pos += 1
        val = ent.options[ent.idx]
        self.decided[key] = val
        self.order.append((key, val))
        return val

    def set_fact(self, key, val):
        self.decided[key] = val
        self.order.append((key, val))

    def log(self, ev):
        self.events.append(ev)


def advance(trail) -> bool:
    while trail and trail[-1].idx == len(trail[-1].options) - 1:
        trail.pop()
    if not trail:
        return False
    trail[-1].idx += 1
    return True


@dataclass
class PathResult:
    decisions: list
    events: list
    outcome: tuple
    state: State

    def decided(self, key, default=None):
        for k, v in self.decisions:
            if k == key:
                return v
        return default


def iter_events(events, Q=()):
    """Flatten a hierarchical trace: yields (event, Q) where Q is the tuple of enclosing generic-loop
    contexts (loop event, case)."""
    for ev in events:
        if ev.kind == "loop":
            yield ev, Q
            for case in ev.cases:
                yield from iter_events(case.events, Q + ((ev, case),))
        else:
            yield ev, Q


# ----------------------------------------------------------------------------------------------
class Interp:
    def __init__(self, program: Program, models=None, summaries=None, max_depth=MAX_DEPTH):
        from . import models as M

        self.prog = program
        self.models = dict(M.EXTERNAL)
        if models:
            self.models.update(models)
        self.summaries = dict(summaries or {})  # qualname -> handler(interp, args, kwargs, node)
        self.max_depth = max_depth
        self.state: State = State()
        self.ctx: Ctx = Ctx()
        self.no_inline: set[str] = set()
        self.method_hooks: dict = {}  # (role, method name) -> handler(interp, elem, args, kwargs, node)
        self._carried: dict = {}
        self._counters: dict = {}
        self._carried_containers: dict = {}
        self.unroll_while = 0  # > 0: while loops are executed iteration by iteration, at most this many times
        self.path_count = 0
        self.stats = {"paths": 0, "functions": set(), "unresolved_calls": 0, "resolved_calls": 0, "loops": 0}

    # ------------------------------------------------------------------ exploration
    def explore(self, qualname: str, setup, max_paths=MAX_PATHS) -> list[PathResult]:
        """Enumerate all abstract paths of function ``qualname``.  ``setup(interp)`` must build the
        initial heap and return (args, kwargs) on every call (it is re-run for every path)."""
        fi = self.prog.function(qualname)
        trail: list[TrailEntry] = []
        results: list[PathResult] = []
        while True:
            self.state = State()
            self.ctx = Ctx(trail=trail)
            args, kwargs = setup(self)
            if "staticmethod" in fi.decorators and fi.cls and not fi.node.args.vararg:
                # (the rules hand the object over as first argument; a method that was made static does not take it)
                npos = len(fi.node.args.posonlyargs) + len(fi.node.args.args)
                if len(args) == npos + 1 - sum(1 for k in kwargs if k in [a.arg for a in fi.node.args.args]) or len(args) > npos:
                    args = list(args)[1:]
            try:
                try:
                    v = self.call_function(fi, args, kwargs, None, force_inline=True)
                    outcome = ("return", v)
                except ReturnSig as r:
                    outcome = ("return", r.value)
                except RaiseSig as r:
                    outcome = ("raise", r.exc)
                except PathEnd as p:
                    outcome = p.outcome
                except (BreakSig, ContinueSig):
                    raise AnalysisError(f"{qualname}: break / continue outside a loop (the module does not compile)")
            except RecursionError:
                raise AnalysisError(f"interpreter recursion limit in {qualname}")
            results.append(PathResult(list(self.ctx.order), self.ctx.events, outcome, self.state))
            self.stats["paths"] += 1
            if len(results) > max_paths:
                raise AnalysisError(f"more than {max_paths} abstract paths in {qualname}")
            if not advance(trail):
                break
        return results

    # ------------------------------------------------------------------ helpers
    @property
    def frame(self) -> Frame:
        return self.state.frames[-1]

    def fn_name(self):
        for fr in reversed(self.state.frames):
            if fr.func is not None:
                return fr.func.path + ":" + (fr.func.qualname.split(".", 1)[1] if "." in fr.func.qualname else fr.func.qualname)
        return "?"

    def log(self, kind, node=None, **data):
        ev = Ev(kind, data, node, self.fn_name())
        self.ctx.log(ev)
        return ev

    def err(self, node, msg):
        ln = getattr(node, "lineno", "?")
        raise AnalysisError(f"{self.fn_name()}:{ln}: {msg}")

    def alloc(self, obj) -> Ref:
        oid = self.state.fresh("oid")
        self.state.heap[oid] = obj
        return Ref(oid)

    def deref(self, ref: Ref):
        return self.state.heap[ref.oid]

    def fresh_id(self, kind):
        return ("#", kind, self.state.fresh(kind))

    def fresh_var(self, prefix="e"):
        return ("var", f"{prefix}{self.state.fresh('var')}")

    def new_list(self, values=(), is_set=False) -> Ref:
        return self.alloc(HList([("one", v) for v in values], is_set=is_set))

    def new_dict(self, entries=None) -> Ref:
        return self.alloc(HDict(entries))

    # ------------------------------------------------------------------ truthiness and predicates
    def decide_pred(self, p) -> bool:
        k = p[0]
        if k == "const":
            return p[1]
        if k == "not":
            return not self.decide_pred(p[1])
        if k == "and":
            return all(self.decide_pred(q) for q in p[1])
        if k == "or":
            return any(self.decide_pred(q) for q in p[1])
        if k == "check3":  # ('check3', qid, wanted): three-valued z3 check result
            val = self.ctx.decide(("check", p[1]), ("sat", "unsat", "unknown"))
            return val == p[2]
        return self.ctx.decide(p)

    def pred_of(self, v):
        """Truthiness of a value as a predicate (without deciding)."""
        if isinstance(v, Const):
            return ("const", bool(v.value))
        if isinstance(v, PredV):
            return v.p
        if isinstance(v, Sym):
            lab = v.label
            if isinstance(lab, tuple) and lab[:1] == ("slice",) and len(lab) == 4 and lab[2] is None and isinstance(lab[3], tuple) and lab[3][:1] == ("c",) \
                    and isinstance(lab[3][1], int) and lab[3][1] < 0 and isinstance(lab[1], tuple) and lab[1][:1] == ("elem",) and lab[1][2] == "partition":
                # all but the last n layers of the stored partition: non-empty iff the partition has more than n layers
                from . import models as M

                n_ = M._len(self, [v], {}, None)
                return pred_not(self.compare_pos("Eq", n_, Const(0), None))
            return ("truthy", v.label)
        if isinstance(v, LinV):
            if F.lin_is_const(v.lin):
                return ("const", bool(v.lin[1]))
            if len(v.lin[0]) == 1 and v.lin[1] == 0 and v.lin[0][0][1] in (1, -1) and isinstance(v.lin[0][0][0], tuple) and v.lin[0][0][0][:1] == ("len",):
                return ("not", ("empty", v.lin[0][0][0][1]))  # a length is non-zero iff the thing is not empty
            return ("nonzero", v.lin)
        if isinstance(v, TupleV):
            return ("const", bool(v.items))
        if isinstance(v, Ref):
            o = self.deref(v)
            if isinstance(o, HList):
                if any(s[0] == "one" for s in o.segs):
                    return PTRUE
                if not o.segs:
                    return PFALSE
                return ("not", self.empty_key(o))
            if isinstance(o, HDict):
                if o.entries:
                    return PTRUE
                if not o.each and not o.sym:
                    return PFALSE
                if len(o.each) == 1 and not o.sym and o.each[0][3] == PTRUE and isinstance(o.each[0][2], tuple) and o.each[0][2][:1] == ("members",):
                    # one entry per member of a family: empty exactly when the family is (the key len() of it uses as well)
                    return ("not", ("empty", o.each[0][2][1]))
                return ("not", ("empty", ("dict", v.oid)))
            return PTRUE
        if isinstance(v, ElemV):
            if v.role in ("set", "coll", "layer", "partition-list"):
                return ("not", ("empty", v.var))
            if v.role == "partition":
                # False, or a list of layers - which is falsy as well when it has no layer (the partition of the empty base)
                return ("and", (("not", ("partfalse", v.var)), ("not", ("empty", v.var))))
            if v.role == "optional":
                if v.fam == "list":
                    # None or a list that may be empty: both are falsy, and they are different answers
                    return ("and", (("not", ("isnone", v.var)), ("not", ("empty", v.var))))
                return ("not", ("isnone", v.var))
            return PTRUE
        if isinstance(v, NameV):
            return PTRUE
        if isinstance(v, FormulaV):
            return ("truthy", ("f", v.f))
        if isinstance(v, (FuncV, ClassV, ExtV, MethV, ExcV, LambdaV)):
            return PTRUE
        return ("truthy", desc(v))

    def truth(self, v) -> bool:
        return self.decide_pred(self.pred_of(v))

    def empty_key(self, o: HList):
        if len(o.segs) == 1 and o.segs[0][0] == "each" and o.segs[0][3] == PTRUE and o.segs[0][2][0] == "members":
            return ("empty", o.segs[0][2][1])
        return ("empty", self.list_desc(o))

    def list_desc(self, o: HList):
        """Descriptor of the abstract content of a list (used in emptiness predicates)."""
        out = []
        for s in o.segs:
            if s[0] == "one":
                out.append(("one", desc(s[1])))
            elif s[0] == "each":
                out.append(("each", s[1], s[2], s[3], desc(s[4])))
            else:
                out.append(s)
        return ("list", tuple(out))

    # ------------------------------------------------------------------ name resolution
    def lookup_name(self, name: str, node):
        fr = self.frame
        if name in fr.env:
            return fr.env[name]
        # enclosing lambda/comprehension frames share env through 'closure'
        clo = fr.closure
        while clo is not None:
            cf = self.state.frames[clo]
            if name in cf.env:
                return cf.env[name]
            clo = cf.closure
        # a local of the enclosing function that no path has bound yet: Python raises UnboundLocalError
        owner = fr
        while owner is not None and owner.func is None and owner.closure is not None:
            owner = self.state.frames[owner.closure]
        fnode = getattr(getattr(owner, "func", None), "node", None)
        if fnode is not None and name in self._locals_of(fnode):
            raise RaiseSig(ExcV("UnboundLocalError", ("name", name)), node)
        tgt = self.prog.resolve_name(fr.module, name)
        if tgt is not None:
            return self.global_value(tgt, fr.module, name)
        if name in ("True", "False", "None"):
            return Const({"True": True, "False": False, "None": None}[name])
        import builtins as _b
        if not hasattr(_b, name) and not name.startswith("$") and not (fnode is not None and name in self.__dict__.get("_imported_cache", {}).get(id(fnode), ())):
            raise RaiseSig(ExcV("NameError", ("name", name)), node)
        return ExtV("builtins." + name)

    def _locals_of(self, fnode):
        """Names that are local to a function: its parameters and everything it binds (assignment, for/with/except
        targets, imports, nested definitions), minus what it declares global/nonlocal."""
        key = id(fnode)
        cache = self.__dict__.setdefault("_locals_cache", {})
        if key in cache:
            return cache[key]
        names, outer, imported = set(), set(), set()
        a = fnode.args
        for x in a.posonlyargs + a.args + a.kwonlyargs + ([a.vararg] if a.vararg else []) + ([a.kwarg] if a.kwarg else []):
            names.add(x.arg)

        def walk(n):
            for ch in ast.iter_child_nodes(n):
                if isinstance(ch, (ast.FunctionDef, ast.AsyncFunctionDef, ast.ClassDef)):
                    names.add(ch.name)
                    continue
                if isinstance(ch, ast.Lambda):
                    continue
                if isinstance(ch, (ast.ListComp, ast.SetComp, ast.DictComp, ast.GeneratorExp)):
                    # comprehension targets live in their own scope; the first iterable is evaluated outside
                    walk(ch.generators[0].iter)
                    continue
                if isinstance(ch, ast.Name) and isinstance(ch.ctx, (ast.Store, ast.Del)):
                    names.add(ch.id)
                elif isinstance(ch, (ast.Global, ast.Nonlocal)):
                    outer.update(ch.names)
                elif isinstance(ch, (ast.Import, ast.ImportFrom)):
                    for al in ch.names:
                        imported.add((al.asname or al.name).split(".")[0])
                elif isinstance(ch, ast.ExceptHandler) and ch.name:
                    names.add(ch.name)
                walk(ch)

        walk(fnode)
        # (names bound by a function-level import are resolved like module-level ones by the engine)
        cache[key] = frozenset(names - outer - imported)
        self.__dict__.setdefault("_imported_cache", {})[key] = frozenset(imported)
        return cache[key]

    def _global_mutated(self, mod: str, attr: str) -> bool:
        """Is the module-level name changed in place by some function of its module (item store / delete, a mutating method,
        an augmented assignment)?"""
        cache = self.__dict__.setdefault("_gmut_cache", {})
        key = (mod, attr)
        if key not in cache:
            found = False
            MUT = ("append", "add", "update", "setdefault", "pop", "popitem", "clear", "extend", "insert", "remove", "discard", "sort")
            for fi in self.prog.functions.values():
                if fi.module != mod or found:
                    continue
                for n in ast.walk(fi.node):
                    tgt = None
                    if isinstance(n, ast.Subscript) and isinstance(n.ctx, (ast.Store, ast.Del)):
                        tgt = n.value
                    elif isinstance(n, ast.Call) and isinstance(n.func, ast.Attribute) and n.func.attr in MUT:
                        tgt = n.func.value
                    elif isinstance(n, ast.AugAssign):
                        tgt = n.target
                    if isinstance(tgt, ast.Name) and tgt.id == attr:
                        if self._pure_memo(fi, attr):
                            continue  # the cache of a pure function of its key: reading it is the same as computing anew
                        found = True
                        break
            cache[key] = found
        return cache[key]

    def _constant_expression(self, node, mod, depth=0) -> bool:
        """A module-level initialiser built from constants, other such module-level names and a few pure builtins
        (`len(PREFIX) + 1`, `A + B`, `-N`, `tuple(NAMES)`): evaluated like a constant."""
        if depth > 6:
            return False
        if isinstance(node, ast.Constant):
            return True
        if isinstance(node, ast.Name):
            g = self.prog.modules[mod].globals_.get(node.id)
            return g is not None and not self._global_rebound(mod, node.id) and (isinstance(g, ast.Constant) or self._constant_expression(g, mod, depth + 1))
        if isinstance(node, ast.UnaryOp):
            return self._constant_expression(node.operand, mod, depth + 1)
        if isinstance(node, ast.BinOp):
            return self._constant_expression(node.left, mod, depth + 1) and self._constant_expression(node.right, mod, depth + 1)
        if isinstance(node, (ast.Tuple,)):
            return all(self._constant_expression(e, mod, depth + 1) for e in node.elts)
        if isinstance(node, ast.Call) and isinstance(node.func, ast.Name) and node.func.id in ("len", "int", "str", "float", "bool", "tuple", "frozenset", "abs", "min", "max") \
                and node.func.id not in self.prog.modules[mod].globals_ and not node.keywords:
            return all(self._constant_expression(a, mod, depth + 1) for a in node.args)
        return False

    def _global_rebound(self, mod: str, attr: str) -> bool:
        """Is the module-level name assigned again somewhere (a `global NAME` in a function of the module, or a second
        module-level assignment)?"""
        cache = self.__dict__.setdefault("_grebound_cache", {})
        key = (mod, attr)
        if key not in cache:
            found = False
            for fi in self.prog.functions.values():
                if fi.module == mod and any(isinstance(n, ast.Global) and attr in n.names for n in ast.walk(fi.node)):
                    found = True
                    break
            tree = getattr(self.prog.modules[mod], "tree", None)
            if tree is not None and not found:
                count = 0
                for n in tree.body:
                    tg = n.targets if isinstance(n, ast.Assign) else [n.target] if isinstance(n, (ast.AnnAssign, ast.AugAssign)) else []
                    count += sum(1 for t in tg if isinstance(t, ast.Name) and t.id == attr)
                found = count > 1
            cache[key] = found
        return cache[key]

    def _pure_memo(self, fi, attr) -> bool:
        """Is the module-level mapping ``attr`` nothing but the memo of ``fi``, a function of its key?  Decided by evaluating
        ``fi`` with the mapping unknown: no other function of the module mentions it, ``fi`` takes one parameter k, every
        store into the mapping is  G[k] = <the value the path returns>,  a path that stores nothing returns what it loaded
        from G under k, and the stored value is built from k alone (an external constructor applied to it).  Then G only ever
        maps a key to E(key), and a hit returns what a miss computes - however the function is written."""
        a = fi.node.args
        params = [x.arg for x in a.posonlyargs + a.args]
        if len(params) != 1 or a.vararg or a.kwarg or a.kwonlyargs:
            return False
        for other in self.prog.functions.values():
            if other.module == fi.module and other.qualname != fi.qualname:
                if any(isinstance(n, ast.Name) and n.id == attr for n in ast.walk(other.node)):
                    return False
        sub = Interp(self.prog, summaries=self.summaries, max_depth=self.max_depth)
        sub.__dict__.setdefault("_gmut_cache", {})[(fi.module, attr)] = True
        K = Sym(("memo-key",), "str")
        try:
            paths = sub.explore(fi.qualname, lambda I: ([K], {}), max_paths=64)
        except AnalysisError:
            return False
        dotted = f"{fi.module}.{attr}"
        ok_any = False
        for p in paths:
            if p.outcome[0] != "return":
                return False
            g = p.state.globals_objs.get(dotted)
            goid = g.oid if isinstance(g, Ref) else None
            rv = p.outcome[1]
            sets = [ev for ev, Q in iter_events(p.events) if ev.kind == "dict.set" and isinstance(ev.data.get("obj"), Ref) and ev.obj.oid == goid]
            others = [ev for ev, Q in iter_events(p.events) if ev.kind in ("dict.set", "attr.set", "list.append", "setitem.unknown") and ev not in sets]
            if others:
                return False
            if sets:
                if len(sets) != 1 or desc(sets[0].key) != desc(K) or desc(sets[0].value) != desc(rv):
                    return False
                d = repr(desc(rv))
                if "'dict'" in d or "'ref'" in d or "'global'" in d or "'dictitem'" in d:
                    return False
                ok_any = True
            else:
                d = desc(rv)
                if not (isinstance(d, tuple) and d[:1] == ("dictitem",) and d[1] == ("dict", goid) and d[2] == desc(K)):
                    return False
        return ok_any

    def global_value(self, dotted: str, module: str, name: str):
        if dotted in self.prog.functions:
            return FuncV(dotted)
        if dotted in self.prog.classes:
            return ClassV(dotted)
        if dotted in self.prog.modules:
            return ExtV("module:" + dotted)
        mod, _, attr = dotted.rpartition(".")
        if mod in self.prog.modules and attr in self.prog.modules[mod].globals_:
            gnode = self.prog.modules[mod].globals_[attr]
            if isinstance(gnode, (ast.Dict, ast.List, ast.Set, ast.Call)) and self._global_mutated(mod, attr):
                # a module-level container that functions of the module change: state that outlives every call.  It is one
                # object (what a path stores it reads back) and holds whatever earlier calls left in it.
                if dotted not in self.state.globals_objs:
                    if isinstance(gnode, (ast.List, ast.Set)):
                        self.state.globals_objs[dotted] = self.alloc(HList([("sym", ("global", dotted))], is_set=isinstance(gnode, ast.Set)))
                    else:
                        self.state.globals_objs[dotted] = self.alloc(HDict(sym=("global", dotted)))
                return self.state.globals_objs[dotted]
            # module-level constants and simple aliases are evaluated in a scratch frame of that module
            if isinstance(gnode, (ast.Constant, ast.Name, ast.Attribute, ast.List, ast.Tuple, ast.Dict, ast.Set)) \
                    or (isinstance(gnode, ast.UnaryOp) and isinstance(gnode.operand, ast.Constant)) or self._constant_expression(gnode, mod):
                if isinstance(gnode, (ast.Dict, ast.List, ast.Set)) and dotted in self.state.globals_objs:
                    return self.state.globals_objs[dotted]
                self.state.frames.append(Frame(None, mod, None, fid=self.state.fresh("fid")))
                try:
                    v_ = self.eval(gnode)
                finally:
                    self.state.frames.pop()
                if isinstance(gnode, (ast.Dict, ast.List, ast.Set)):
                    # one object per path (a table read twice is the same table; the memo of a pure function starts empty
                    # and keeps what this path stores in it)
                    self.state.globals_objs[dotted] = v_
                return v_
            if isinstance(gnode, ast.Call) and isinstance(gnode.func, ast.Name) and gnode.func.id == "object" and not gnode.args and not gnode.keywords \
                    and "object" not in self.prog.modules[mod].globals_ and not self._global_rebound(mod, attr):
                return Sym(("sentinel", dotted))
            return Sym(("global", dotted))
        return ExtV(dotted)

    # ------------------------------------------------------------------ expressions
    def eval(self, node):
        m = getattr(self, "eval_" + type(node).__name__, None)
        if m is None:
            self.err(node, f"unsupported expression {type(node).__name__}")
        return m(node)

    def eval_Constant(self, node):
        return Const(node.value)

    def eval_Name(self, node):
        return self.lookup_name(node.id, node)

    def eval_NamedExpr(self, node):
        v = self.eval(node.value)
        self.assign(node.target, v)
        return v

    def eval_JoinedStr(self, node):
        parts = []
        for v in node.values:
            if isinstance(v, ast.Constant):
                parts.append(str(v.value))
            else:
                val = self.eval(v.value)
                if isinstance(val, Const) and isinstance(val.value, (str, int)):
                    parts.append(str(val.value))
                elif isinstance(val, LinV) and F.lin_is_const(val.lin):
                    parts.append(str(val.lin[1]))
                else:
                    parts.append(desc(val))
        if all(isinstance(p, str) for p in parts):
            return Const("".join(parts))
        # merge adjacent strings
        merged = []
        for p in parts:
            if isinstance(p, str) and merged and isinstance(merged[-1], str):
                merged[-1] += p
            else:
                merged.append(p)
        return NameV(tuple(merged))

    def eval_FormattedValue(self, node):
        return self.eval(node.value)

    def eval_Tuple(self, node):
        items = []
        for e in node.elts:
            if isinstance(e, ast.Starred):
                sv = self.eval(e.value)
                segs = self.segments(sv, e)
                if not all(s_[0] == "one" for s_ in segs):
                    # a tuple with a part of unknown length (a stored tuple read back from state the path knows nothing of)
                    return Sym(("tuple-with-unknown-part", tuple(desc(x) for x in items), desc(sv)))
                items.extend(s_[1] for s_ in segs)
            else:
                items.append(self.eval(e))
        return TupleV(tuple(items))

    def eval_List(self, node):
        segs = []
        for e in node.elts:
            if isinstance(e, ast.Starred):
                segs.extend(self.segments(self.eval(e.value), e))
            else:
                segs.append(("one", self.eval(e)))
        return self.alloc(HList(segs))

    def eval_Set(self, node):
        from . import models as M

        return self.alloc(HList(M.dedupe_set_segs([("one", self.eval(e)) for e in node.elts]), is_set=True))

    def eval_Dict(self, node):
        d = HDict()
        for k, v in zip(node.keys, node.values):
            if k is None:
                src = self.eval(v)
                if isinstance(src, Ref) and isinstance(self.deref(src), HDict):
                    o = self.deref(src)
                    d.entries.update(o.entries)
                    d.each.extend(o.each)
                    d.sym = d.sym or o.sym
                else:
                    d.sym = ("spread", desc(src))
                continue
            kv = self.eval(k)
            vv = self.eval(v)
            self.dict_store(d, kv, vv, node)
        return self.alloc(d)

    def eval_Lambda(self, node):
        # the frame the lambda is written in: its free names are looked up there, wherever it is called from
        self.__dict__.setdefault("_lambda_home", {})[(id(node), len(self.state.frames) - 1)] = self.frame.fid
        return LambdaV(node, len(self.state.frames) - 1)

    def eval_IfExp(self, node):
        if self.truth(self.eval(node.test)):
            return self.eval(node.body)
        return self.eval(node.orelse)

    def eval_BoolOp(self, node):
        is_and = isinstance(node.op, ast.And)
        v = None
        for i, e in enumerate(node.values):
            v = self.eval(e)
            if i == len(node.values) - 1:
                return v  # the value of the last operand is the result whatever its truth is: nothing is decided about it
            t = self.truth(v)
            if is_and and not t:
                return v
            if not is_and and t:
                return v
        return v

    def eval_UnaryOp(self, node):
        v = self.eval(node.operand)
        if isinstance(node.op, ast.Not):
            p = self.pred_of(v)
            if p[0] == "const":
                return Const(not p[1])
            return PredV(pred_not(p))
        if isinstance(node.op, ast.USub):
            if isinstance(v, Const) and isinstance(v.value, (int, float)):
                return Const(-v.value)
            if isinstance(v, ElemV) and v.role == "lit":
                if isinstance(v.var, tuple) and v.var[:1] == ("neg",):
                    return ElemV(v.var[1], "lit")
                return ElemV(("neg", v.var), "lit")
            lv = self.as_lin(v)
            if lv is not None:
                return LinV(F.lin_scale(lv.lin, -1), lv.kind)
        if isinstance(node.op, ast.Invert) and isinstance(v, FormulaV):
            return FormulaV(F.mk_not(v.f), v.backend)
        return Sym(("unary", type(node.op).__name__, desc(v)))

    def as_lin(self, v):
        if isinstance(v, LinV):
            return v
        if isinstance(v, Const) and isinstance(v.value, int) and not isinstance(v.value, bool):
            return LinV(F.lin_const(v.value))
        if isinstance(v, Sym) and v.hint == "int":
            return LinV(F.lin_term(v.label))
        if isinstance(v, ElemV) and v.role in ("pos", "int"):
            # the element at position p of range(lo, hi) is lo + p
            if v.role == "pos" and isinstance(v.var, tuple) and len(v.var) == 3 and v.var[0] == "at" and isinstance(v.var[1], tuple) and v.var[1][:1] == ("range",) \
                    and len(v.var[1]) == 3 and isinstance(v.var[2], tuple) and v.var[2][:1] == ("lin",):
                return LinV(F.lin_add(v.var[1][1], v.var[2][1]))
            return LinV(F.lin_term(("elem", v.var, v.role)))
        return None

    def eval_BinOp(self, node):
        a = self.eval(node.left)
        b = self.eval(node.right)
        return self.binop(type(node.op).__name__, a, b, node)

    def binop(self, op, a, b, node):
        if op in ("Div", "FloorDiv", "Mod") and not (isinstance(a, Const) and isinstance(a.value, str)):
            # a divisor that may be zero: the division raises there (a divisor the path has already found non-zero - the
            # length of something it found non-empty - does not)
            zero = None
            if isinstance(b, Const) and isinstance(b.value, (int, float)) and not isinstance(b.value, bool):
                zero = ("const", b.value == 0)
            elif isinstance(b, LinV) or (isinstance(b, Sym) and b.hint in ("int", "float", "")):
                # "is zero" is the negation of the number's truthiness: the key a guard `if n` / `if xs` in front of the
                # division has decided
                zero = pred_not(self.pred_of(b))
            if zero is not None and zero[0] != "formula" and self.truth(PredV(zero) if zero[0] != "const" else Const(zero[1])):
                raise RaiseSig(ExcV("ZeroDivisionError", ("divisor", desc(b))), node)
        if op == "Pow" and isinstance(a, Const) and isinstance(b, LinV) and F.lin_is_const(b.lin):
            b = Const(b.lin[1])  # (2 ** len(xs) for a list of known length)
        if isinstance(a, Const) and isinstance(b, Const):
            try:
                x, y = a.value, b.value
                if op == "Add":
                    return Const(x + y)
                if op == "Sub":
                    return Const(x - y)
                if op == "Mult":
                    return Const(x * y)
                if op == "Div":
                    return Const(x / y)
                if op == "FloorDiv":
                    return Const(x // y)
                if op == "Mod":
                    return Const(x % y)
                if op == "Pow":
                    return Const(x ** y)
            except Exception:
                pass
        if op == "BitAnd":
            # (int(bits, 2) >> k) & 1: bit k of the number = the character at position len(bits)-1-k, as an integer
            for x, y in ((a, b), (b, a)):
                if isinstance(y, Const) and y.value == 1 and isinstance(x, Sym) and isinstance(x.label, tuple) and x.label[:2] == ("binop", "RShift") \
                        and isinstance(x.label[2], tuple) and x.label[2][:1] == ("bits-of",):
                    w = x.label[2][1]
                    kd = x.label[3]
                    if isinstance(kd, tuple) and kd[:1] == ("c",) and isinstance(kd[1], int):
                        kl = F.lin_const(kd[1])
                    elif isinstance(kd, tuple) and kd[:1] == ("lin",):
                        kl = kd[1]
                    elif isinstance(kd, tuple) and len(kd) == 3 and kd[0] == "elem" and kd[2] == "pos" and isinstance(kd[1], tuple) and len(kd[1]) == 3 and kd[1][0] == "at" \
                            and isinstance(kd[1][1], tuple) and kd[1][1][:1] == ("range",) and len(kd[1][1]) == 3 and isinstance(kd[1][2], tuple) and kd[1][2][:1] == ("lin",):
                        kl = F.lin_add(kd[1][1][1], kd[1][2][1])  # the element at position p of range(lo, hi) is lo + p
                    else:
                        kl = F.lin_term(kd)
                    wvar = w[1] if isinstance(w, tuple) and w[:1] == ("elem",) else w
                    pos = F.lin_add(F.lin_add(F.lin_term(("len", wvar)), F.lin_const(-1)), kl, -1)
                    return LinV(F.lin_term(("int", ("elem", ("at", w, ("lin", pos)), "plain"))), "py")
        if op == "Add":
            # list concatenation: a new list holding the elements of both (neither operand is changed)
            def listlike(x):
                if isinstance(x, Ref) and isinstance(self.deref(x), HList) and not self.deref(x).is_set:
                    return True
                return isinstance(x, ElemV) and x.role in ("clause", "coll", "layer", "partition-list")
            if listlike(a) and listlike(b) and (isinstance(a, Ref) or isinstance(b, Ref)):
                r = self.alloc(HList(list(self.segments(a, node)) + list(self.segments(b, node))))
                self.log("list.concat", node, left=a, right=b, dst=r)
                return r
            # string concatenation with symbolic parts builds the same text an f-string would
            def strparts(x):
                if isinstance(x, Const) and isinstance(x.value, str):
                    return (x.value,)
                if isinstance(x, NameV):
                    return x.parts
                if isinstance(x, Sym) and x.hint == "str":
                    return (desc(x),)
                return None
            pa, pb = strparts(a), strparts(b)
            # one side is certainly text: `+` is defined only if the other side is text as well
            if pa is not None and pb is None and isinstance(b, (Sym, ElemV)) and not (isinstance(b, Sym) and b.hint in ("int", "float", "bool")):
                pb = (desc(b),)
            if pb is not None and pa is None and isinstance(a, (Sym, ElemV)) and not (isinstance(a, Sym) and a.hint in ("int", "float", "bool")):
                pa = (desc(a),)
            if pa is not None and pb is not None and (isinstance(a, (NameV, Sym, ElemV)) or isinstance(b, (NameV, Sym, ElemV)) or (isinstance(a, Const) and isinstance(b, Const))):
                merged = []
                for q in pa + pb:
                    if isinstance(q, str) and merged and isinstance(merged[-1], str):
                        merged[-1] += q
                    else:
                        merged.append(q)
                return NameV(tuple(merged)) if not all(isinstance(q, str) for q in merged) else Const("".join(merged))
        if op in ("Add", "Sub"):
            la, lb = self.as_lin(a), self.as_lin(b)
            if la is not None and lb is not None:
                kind = "term" if "term" in (la.kind, lb.kind) else "py"
                return LinV(F.lin_add(la.lin, lb.lin, 1 if op == "Add" else -1), kind)
        if op == "Mult":
            # [c] * n: n copies of one value (a list of constants of symbolic length)
            for x, y in ((a, b), (b, a)):
                if isinstance(x, Ref) and isinstance(self.deref(x), HList) and not self.deref(x).is_set and len(self.deref(x).segs) == 1 and self.deref(x).segs[0][0] == "one":
                    ln = self.as_lin(y)
                    if ln is not None:
                        if F.lin_is_const(ln.lin):
                            return self.alloc(HList([self.deref(x).segs[0]] * max(ln.lin[1], 0)))
                        bq = self.fresh_var("r")
                        return self.alloc(HList([("each", bq, ("members", ("range", F.lin_const(0), ln.lin)), PTRUE, self.deref(x).segs[0][1])]))
            for x, y in ((a, b), (b, a)):
                if isinstance(x, Const) and x.value in (1, -1) and isinstance(y, ElemV) and y.role == "lit":
                    if x.value == 1:
                        return y
                    if isinstance(y.var, tuple) and y.var[:1] == ("neg",):
                        return ElemV(y.var[1], "lit")
                    return ElemV(("neg", y.var), "lit")
            la, lb = self.as_lin(a), self.as_lin(b)
            if la is not None and lb is not None:
                if F.lin_is_const(la.lin):
                    return LinV(F.lin_scale(lb.lin, la.lin[1]), lb.kind)
                if F.lin_is_const(lb.lin):
                    return LinV(F.lin_scale(la.lin, lb.lin[1]), la.kind)
        if op == "Add":
            # list / tuple concatenation
            if isinstance(a, Ref) and isinstance(b, Ref):
                oa, ob = self.deref(a), self.deref(b)
                if isinstance(oa, HList) and isinstance(ob, HList):
                    return self.alloc(HList(oa.segs + ob.segs))
            if isinstance(a, TupleV) and isinstance(b, TupleV):
                return TupleV(a.items + b.items)
            if isinstance(a, (Const, NameV)) and isinstance(b, (Const, NameV)):
                pa = a.parts if isinstance(a, NameV) else (str(a.value),)
                pb = b.parts if isinstance(b, NameV) else (str(b.value),)
                return NameV(pa + pb)
        # set algebra on symbolic collections
        if op in ("BitAnd", "BitOr", "Sub", "BitXor"):
            ca, cb = self.as_coll(a), self.as_coll(b)
            if ca is not None and cb is not None:
                sym = {"BitAnd": "&", "BitOr": "|", "Sub": "-", "BitXor": "^"}[op]
                role = ca.fam if isinstance(ca.fam, str) else (cb.fam if isinstance(cb.fam, str) else "plain")
                return ElemV(("setop", sym, ca.var, cb.var), "set", fam=role, cls=ca.cls or cb.cls)
        if isinstance(a, FormulaV) and isinstance(b, FormulaV):
            if op == "BitAnd":
                return FormulaV(F.mk_and([a.f, b.f]), a.backend)
            if op == "BitOr":
                return FormulaV(F.mk_or([a.f, b.f]), a.backend)
        hint = "int" if op in ("Add", "Sub", "Mult", "FloorDiv", "Mod") and (self.as_lin(a) is not None or self.as_lin(b) is not None) else ""
        return Sym(("binop", op, desc(a), desc(b)), hint)

    def as_coll(self, v):
        """View a value as a symbolic collection descriptor (ElemV role set/coll/layer) if possible."""
        if isinstance(v, ElemV) and v.role in ("set", "coll", "layer"):
            return v
        if isinstance(v, Ref):
            o = self.deref(v)
            if isinstance(o, HList):
                # a list made of a single unguarded 'each' over the members of a collection is that collection
                if len(o.segs) == 1 and o.segs[0][0] == "each":
                    _, b, fam, g, val = o.segs[0]
                    if g == PTRUE and isinstance(val, ElemV) and val.var == b and fam[0] == "members":
                        return ElemV(fam[1], "set", fam=val.role, cls=val.fam if isinstance(val.fam, str) else val.cls)
                return ElemV(self.list_desc(o), "set", fam="plain")
        return None

    def eval_Compare(self, node):
        left = self.eval(node.left)
        result = None
        for op, comp in zip(node.ops, node.comparators):
            right = self.eval(comp)
            r = self.compare(type(op).__name__, left, right, node)
            if len(node.ops) == 1:
                return r
            if not self.truth(r):
                return Const(False)
            result = r
            left = right
        return Const(True) if result is not None else Const(True)

    def compare(self, op, a, b, node):
        neg = op in ("NotEq", "IsNot", "NotIn")
        base = {"NotEq": "Eq", "IsNot": "Is", "NotIn": "In"}.get(op, op)
        p = self.compare_pos(base, a, b, node)
        if p[0] == "formula":
            return FormulaV(F.mk_not(p[1]) if neg else p[1], p[2])
        if neg:
            p = pred_not(p)
        if p[0] == "const":
            return Const(p[1])
        return PredV(p)

    def compare_pos(self, op, a, b, node):
        # --- membership
        if op == "In":
            return self.contains(b, a, node)
        # --- concrete
        if isinstance(a, Const) and isinstance(b, Const):
            x, y = a.value, b.value
            try:
                if op in ("Eq",):
                    return ("const", x == y)
                if op == "Is":
                    return ("const", x is y or (x == y and type(x) is type(y) and isinstance(x, (int, str, bool, type(None)))))
                if op == "Lt":
                    return ("const", x < y)
                if op == "LtE":
                    return ("const", x <= y)
                if op == "Gt":
                    return ("const", x > y)
                if op == "GtE":
                    return ("const", x >= y)
            except TypeError:
                pass
        # --- a module-level sentinel (NAME = object()): identical and equal to itself and to nothing else
        for x, y in ((a, b), (b, a)):
            if op in ("Eq", "Is") and isinstance(x, Sym) and isinstance(x.label, tuple) and x.label[:1] == ("sentinel",):
                return ("const", isinstance(y, Sym) and y.label == x.label)
        # --- an integer against 0 is its truthiness, however it is written (int(bit) / int(bit) != 0 / int(bit) == 1 is not)
        for x, y in ((a, b), (b, a)):
            if op == "Eq" and isinstance(y, Const) and type(y.value) is int and y.value == 0 and isinstance(x, Sym) and isinstance(x.label, tuple) and x.label[:1] == ("int",):
                return ("not", ("truthy", x.label))
        # --- identity of two abstract CNFs / collections: the same object iff the same descriptor
        if op == "Is" and isinstance(a, ElemV) and isinstance(b, ElemV) and a.role == b.role and a.role in ("cnf", "coll", "set", "layer"):
            return ("const", a.var == b.var)
        # --- three-valued z3 check results
        for x, y in ((a, b), (b, a)):
            if isinstance(x, ElemV) and x.role == "check" and isinstance(y, ExtV) and y.name in ("z3.sat", "z3.unsat", "z3.unknown", "z3.z3.sat", "z3.z3.unsat", "z3.z3.unknown"):
                if op in ("Eq", "Is"):
                    return ("check3", x.var[1], y.name.rsplit(".", 1)[1])
        # --- type(partition-or-False) == list
        for x, y in ((a, b), (b, a)):
            if isinstance(x, Sym) and isinstance(x.label, tuple) and x.label[:1] == ("type",) and isinstance(y, ExtV) and y.name == "builtins.list" \
                    and isinstance(x.label[1], tuple) and x.label[1][:1] == ("part",) and op in ("Eq", "Is"):
                return ("not", ("partfalse", x.label[1]))
        # --- partition-or-False
        for x, y in ((a, b), (b, a)):
            if isinstance(x, ElemV) and x.role == "partition" and isinstance(y, Const) and y.value is False and op in ("Eq", "Is"):
                return ("partfalse", x.var)
        # --- None tests
        for x, y in ((a, b), (b, a)):
            if isinstance(y, Const) and y.value is None and op in ("Eq", "Is"):
                if isinstance(x, Sym):
                    return ("isnone", x.label)
                if isinstance(x, ElemV) and x.role == "optional":
                    return ("isnone", x.var)
                if isinstance(x, Const):
                    return ("const", x.value is None)
                return PFALSE
        # --- two symbolic Booleans: equal iff both hold or neither does (a != b is their exclusive or)
        if op in ("Eq", "Is") and isinstance(a, PredV) and isinstance(b, PredV):
            return ("or", (("and", (a.p, b.p)), ("and", (pred_not(a.p), pred_not(b.p)))))
        # --- Boolean constants against symbolic Booleans
        for x, y in ((a, b), (b, a)):
            if isinstance(y, Const) and isinstance(y.value, bool) and op in ("Eq", "Is") and isinstance(x, (Sym, PredV)):
                px = self.pred_of(x)
                return px if y.value else pred_not(px)
            if isinstance(y, Const) and isinstance(y.value, bool) and op == "Eq" and isinstance(x, FormulaV):
                # z3: BoolRef == False builds the formula ¬x ; handled by the caller (formula context)
                return ("formula", x.f if y.value else F.mk_not(x.f), x.backend)
        # --- an object of the heap is never the constant True / False / None (nor equal to it)
        for x, y in ((a, b), (b, a)):
            if op in ("Is", "Eq") and isinstance(x, Ref) and isinstance(y, Const) and (y.value is None or isinstance(y.value, bool)) \
                    and isinstance(self.deref(x), (HList, HDict, HObj, HWcnf, HSolver)):
                return PFALSE
        # --- references: identity / emptiness
        if isinstance(a, Ref) and isinstance(b, Ref):
            oa, ob = self.deref(a), self.deref(b)
            if op == "Is":
                return ("const", a.oid == b.oid)
            if op == "Eq":
                if a.oid == b.oid:
                    return PTRUE
                if isinstance(oa, HList) and isinstance(ob, HList):
                    if not ob.segs:
                        return pred_not(self.pred_of(a))
                    if not oa.segs:
                        return pred_not(self.pred_of(b))
                    if oa.concrete() and ob.concrete() and [desc(x) for x in oa.values()] == [desc(x) for x in ob.values()]:
                        return PTRUE
                    if oa.concrete() and ob.concrete() and all(isinstance(x, Const) for x in list(oa.values()) + list(ob.values())) and oa.is_set == ob.is_set:
                        # two sequences of constants: equal iff the same constants (in order; as sets for sets)
                        va, vb = [x.value for x in oa.values()], [x.value for x in ob.values()]
                        return ("const", (set(va) == set(vb)) if oa.is_set else (va == vb))
                if isinstance(oa, HList) and isinstance(ob, HList):
                    return ("cmp", "==", self.list_desc(oa), self.list_desc(ob))
        for x, y in ((a, b), (b, a)):
            if isinstance(y, Ref) and isinstance(self.deref(y), HList) and not self.deref(y).segs and op == "Eq" and isinstance(x, ElemV):
                return ("empty", x.var)
        # --- linear
        la, lb = self.as_lin(a), self.as_lin(b)
        if la is not None and lb is not None:
            d = F.lin_add(la.lin, lb.lin, -1)
            if F.lin_is_const(d):
                c = d[1]
                return ("const", {"Eq": c == 0, "Is": c == 0, "Lt": c < 0, "LtE": c <= 0, "Gt": c > 0, "GtE": c >= 0}[op])
            if op in ("Eq", "Is"):
                if len(d[0]) == 1 and d[1] == 0 and isinstance(d[0][0][0], tuple) and d[0][0][0][0] == "len":
                    return ("empty", d[0][0][0][1])
                return ("cmp", "==", ("lin", d), ("c", 0))
            # a length against a constant: lengths are ≥ 0, and "no element" has one key however it is written
            if len(d[0]) == 1 and abs(d[0][0][1]) == 1 and isinstance(d[0][0][0], tuple) and d[0][0][0][0] == "len" and op in ("Lt", "LtE", "Gt", "GtE"):
                coef, what = d[0][0][1], d[0][0][0][1]
                rel, c0 = (op, -d[1]) if coef == 1 else ({"Lt": "Gt", "LtE": "GtE", "Gt": "Lt", "GtE": "LtE"}[op], d[1])  # len(x) rel c0
                emp = ("empty", what)
                if rel == "Lt":
                    r = PFALSE if c0 <= 0 else (emp if c0 == 1 else None)
                elif rel == "LtE":
                    r = PFALSE if c0 < 0 else (emp if c0 == 0 else None)
                elif rel == "Gt":
                    r = PTRUE if c0 < 0 else (pred_not(emp) if c0 == 0 else None)
                else:
                    r = PTRUE if c0 <= 0 else (pred_not(emp) if c0 == 1 else None)
                if r is not None:
                    return r
            # canonicalise:  a < b  ->  ('cmp','<',lin(a-b),0) ; a > b -> not (a <= b) ...
            if op == "Lt":
                return ("cmp", "<", ("lin", d), ("c", 0))
            if op == "LtE":
                return pred_not(("cmp", "<", ("lin", F.lin_scale(d, -1)), ("c", 0)))
            if op == "Gt":
                return ("cmp", "<", ("lin", F.lin_scale(d, -1)), ("c", 0))
            if op == "GtE":
                return pred_not(("cmp", "<", ("lin", d), ("c", 0)))
        if op in ("Eq", "Is") and desc(a) == desc(b) and not isinstance(a, Sym):
            return PTRUE
        # inclusion between sets written with comparison operators
        if op in ("LtE", "GtE", "Lt", "Gt") and isinstance(a, ElemV) and isinstance(b, ElemV) and a.role in ("set", "coll") and b.role in ("set", "coll"):
            x, y = (a.var, b.var) if op in ("LtE", "Lt") else (b.var, a.var)
            if op in ("LtE", "GtE"):
                return ("subset", x, y)
            return ("and", (("subset", x, y), ("not", ("subset", y, x))))
        sym = {"Eq": "==", "Is": "is", "Lt": "<", "LtE": "<=", "Gt": ">", "GtE": ">="}[op]
        da, db = desc(a), desc(b)
        if sym in ("==", "is") and repr(da) > repr(db):
            da, db = db, da
        if sym == "is":
            sym = "=="
        # order comparisons of non-linear values: one three-valued predicate family a<b / b<a
        if sym == "<=":
            return pred_not(("cmp", "<", db, da))
        if sym == ">":
            return ("cmp", "<", db, da)
        if sym == ">=":
            return pred_not(("cmp", "<", da, db))
        return ("cmp", sym, da, db)

    def contains(self, container, item, node):
        if isinstance(container, Ref):
            o = self.deref(container)
            if isinstance(o, HObj) and isinstance(item, Const):
                return ("const", item.value in o.attrs)  # attr in obj.__dict__
            if isinstance(o, HDict):
                if isinstance(item, Const) and not o.each and not o.sym:
                    return ("const", item.value in o.entries)
                if isinstance(item, Const) and item.value in o.entries:
                    return PTRUE
                if ("d", desc(item)) in o.entries:
                    return PTRUE
                if not o.each and not o.sym:
                    if not o.entries:
                        return PFALSE
                    # named witnesses ('obj', name) denote pairwise distinct values
                    def named(d):
                        return isinstance(d, tuple) and len(d) == 3 and d[0] == "elem" and isinstance(d[1], tuple) and d[1][:1] == ("obj",)
                    if named(desc(item)) and all((isinstance(k, tuple) and k[:1] == ("d",) and named(k[1])) or not isinstance(k, tuple) for k in o.entries):
                        return PFALSE
                    # built names with constant beginnings neither of which continues the other are different strings
                    def lead(d):
                        return d[1][0] if isinstance(d, tuple) and d[:1] == ("name",) and len(d) > 1 and isinstance(d[1], tuple) and d[1] and isinstance(d[1][0], str) else None
                    li = lead(desc(item))
                    if li is not None and o.entries and all(isinstance(k, tuple) and k[:1] == ("d",) and lead(k[1]) is not None and not lead(k[1]).startswith(li) and not li.startswith(lead(k[1])) for k in o.entries):
                        return PFALSE
                return ("in", desc(item), ("dict", container.oid))
            if isinstance(o, HList):
                if o.concrete():
                    ds = [desc(x) for x in o.values()]
                    if desc(item) in ds:
                        return PTRUE
                    if not ds:
                        return PFALSE  # nothing is a member of an empty collection
                    if isinstance(item, Const) and all(isinstance(x, Const) for x in o.values()):
                        return PFALSE

                    def _const_tuple(x):
                        return isinstance(x, Const) or (isinstance(x, TupleV) and all(_const_tuple(y) for y in x.items))
                    if _const_tuple(item) and all(_const_tuple(x) for x in o.values()):
                        return PFALSE  # (tuples of constants: equal only when their descriptions are)
                    if len(ds) == 1 and isinstance(item, ElemV) and isinstance(o.values()[0], ElemV):
                        # membership in a one-element collection is equality with that element
                        return self.compare_pos("Eq", item, o.values()[0], node)
                coll = self.as_coll(container)
                return ("in", desc(item), coll.var if coll is not None else self.list_desc(o))
        if isinstance(container, TupleV):
            ds = [desc(x) for x in container.items]
            if desc(item) in ds:
                return PTRUE
            if not ds:
                return PFALSE
            if isinstance(item, Const) and all(isinstance(x, Const) for x in container.items):
                return PFALSE
            if len(ds) == 1 and isinstance(item, ElemV) and isinstance(container.items[0], ElemV):
                return self.compare_pos("Eq", item, container.items[0], node)
        if isinstance(container, Const) and isinstance(item, Const):
            try:
                return ("const", item.value in container.value)
            except TypeError:
                pass
        if isinstance(container, ElemV):
            return ("in", desc(item), container.var)
        if isinstance(container, Sym) and (desc(container), desc(item)) in self.state.shadow:
            return PTRUE
        return ("in", desc(item), desc(container))

    def eval_Attribute(self, node):
        v = self.eval(node.value)
        return self.getattr(v, node.attr, node)

    def getattr(self, v, attr, node):
        from . import models as M

        if isinstance(v, Ref):
            o = self.deref(v)
            if isinstance(o, HObj):
                if attr in o.attrs:
                    return o.attrs[attr]
                if attr == "__dict__":
                    return Ref(v.oid)  # viewed as its own attribute dict by the models
                if attr == "__class__":
                    return ClassV(o.cls)
                m = self.prog.lookup_method(o.cls, attr)
                if m is not None:
                    if "property" in m.decorators:
                        return self.call_function(m, [v], {}, node)
                    if "staticmethod" in m.decorators:
                        return FuncV(m.qualname)
                    if "classmethod" in m.decorators:
                        return FuncV(m.qualname, ClassV(o.cls))
                    return FuncV(m.qualname, v)
                ca = self.prog.lookup_class_attr(o.cls, attr)
                if ca is not None:
                    ci, expr = ca
                    self.state.frames.append(Frame(None, ci.module, ci.qualname, fid=self.state.fresh("fid")))
                    try:
                        return self.eval(expr)
                    finally:
                        self.state.frames.pop()
                if self._record_fields(o.cls) is not None and attr in ("_asdict", "_replace", "_fields"):
                    kind = self.__dict__.get("_record_kind", {}).get(o.cls)
                    if kind == "namedtuple":
                        if attr == "_fields":
                            return TupleV(tuple(Const(nm) for nm, _ in self._record_fields(o.cls)))
                        return Sym(("record-method", attr, v.oid), "callable")
                if attr in ("copy", "update", "items", "keys", "values", "get", "pop", "setdefault"):
                    return MethV(v, attr)  # the object seen through its __dict__
                self.log("attr.missing", node, obj=v, attr=attr, cls=o.cls)
                return Sym(("attr", ("ref", v.oid), attr))
            if isinstance(o, HWcnf) and attr in ("hard", "soft") and not getattr(o, attr):
                return self.alloc(HList())  # (a WCNF without such clauses: the attribute is an empty list)
            r = M.obj_getattr(self, v, o, attr, node)
            if r is not None:
                return r
            return MethV(v, attr)
        if isinstance(v, ElemV):
            r = M.elem_getattr(self, v, attr, node)
            if r is not None:
                return r
            return Sym(("attr", desc(v), attr))
        if isinstance(v, ClassV):
            m = self.prog.lookup_method(v.qualname, attr)
            if m is not None:
                if "classmethod" in m.decorators:
                    return FuncV(m.qualname, v)
                return FuncV(m.qualname)
            ca = self.prog.lookup_class_attr(v.qualname, attr)
            if ca is not None:
                ci, expr = ca
                self.state.frames.append(Frame(None, ci.module, ci.qualname, fid=self.state.fresh("fid")))
                try:
                    return self.eval(expr)
                finally:
                    self.state.frames.pop()
            if attr == "__name__":
                return Const(v.qualname.rsplit(".", 1)[1])
            if attr == "_fields" and self._record_fields(v.qualname) is not None and self.__dict__.get("_record_kind", {}).get(v.qualname) == "namedtuple":
                return TupleV(tuple(Const(nm) for nm, _ in self._record_fields(v.qualname)))
            if attr == "_make" and self._record_fields(v.qualname) is not None and self.__dict__.get("_record_kind", {}).get(v.qualname) == "namedtuple":
                return Sym(("record-make", v.qualname), "callable")
            return Sym(("classattr", v.qualname, attr))
        if isinstance(v, ExtV):
            if v.name.startswith("module:"):
                mod = v.name[7:]
                tgt = self.prog.resolve_name(mod, attr)
                if tgt is not None:
                    return self.global_value(tgt, mod, attr)
                return ExtV(mod + "." + attr)
            if v.self_value is not None:
                return ExtV(v.name + "." + attr, v.self_value)
            return ExtV(M.canonical_ext(v.name + "." + attr))
        if isinstance(v, (Const, TupleV, FormulaV, LinV, Sym, PredV, NameV, ExcV)):
            return MethV(v, attr)
        if isinstance(v, FuncV):
            if attr == "__name__":
                return Const(v.qualname.rsplit(".", 1)[1])
        return Sym(("attr", desc(v), attr))

    def eval_Subscript(self, node):
        v = self.eval(node.value)
        if isinstance(node.slice, ast.Slice):
            lo = self.eval(node.slice.lower) if node.slice.lower else None
            hi = self.eval(node.slice.upper) if node.slice.upper else None
            st = self.eval(node.slice.step) if node.slice.step else None
            return self.slice(v, lo, hi, st, node)
        idx = self.eval(node.slice)
        return self.subscript(v, idx, node)

    def slice(self, v, lo, hi, st, node):
        lo, hi, st = [Const(x.lin[1]) if isinstance(x, LinV) and F.lin_is_const(x.lin) else x for x in (lo, hi, st)]
        if isinstance(v, Const) and all(x is None or isinstance(x, Const) for x in (lo, hi, st)):
            try:
                return Const(v.value[slice(lo.value if lo else None, hi.value if hi else None, st.value if st else None)])
            except Exception:
                pass
        if isinstance(v, Ref) and isinstance(self.deref(v), HList):
            o = self.deref(v)
            if lo is None and hi is None and st is None:
                r = self.alloc(HList(o.segs, is_set=o.is_set))
                self.log("copy", node, src=v, dst=r)
                return r
            if o.concrete() and all(x is None or isinstance(x, Const) for x in (lo, hi, st)):
                vals = o.values()[slice(lo.value if lo else None, hi.value if hi else None, st.value if st else None)]
                return self.new_list(vals)
        if isinstance(v, TupleV) and all(x is None or isinstance(x, Const) for x in (lo, hi, st)):
            return TupleV(v.items[slice(lo.value if lo else None, hi.value if hi else None, st.value if st else None)])
        if isinstance(v, ElemV) and lo is None and hi is None and st is None:
            cp = ElemV(("copy", v.var, self.fresh_id("cp")), v.role, v.fam, v.cls)
            self.log("copy", node, src=v, dst=cp)
            return cp
        if isinstance(v, (Sym, NameV, Const)):
            return Sym(("slice", desc(v), desc(lo) if lo else None, desc(hi) if hi else None), "")
        return Sym(("slice", desc(v), desc(lo) if lo else None, desc(hi) if hi else None))

    def subscript(self, v, idx, node):
        from . import models as M

        if isinstance(idx, LinV) and F.lin_is_const(idx.lin) and isinstance(v, (Const, TupleV)):
            idx = Const(idx.lin[1])  # (a position that came out of enumerate / range / arithmetic as a number)
        if isinstance(v, Ref):
            o = self.deref(v)
            if isinstance(o, HDict):
                return self.dict_load(v, o, idx, node)
            if isinstance(o, HList):
                return self.list_index(v, o, idx, node)
            if isinstance(o, HObj):
                if self.__dict__.get("_record_kind", {}).get(o.cls) == "namedtuple" and isinstance(idx, Const) and isinstance(idx.value, int):
                    fields = self._record_fields(o.cls)
                    if -len(fields) <= idx.value < len(fields):
                        return o.attrs[fields[idx.value][0]]
                return Sym(("item", ("ref", v.oid), desc(idx)))
            if isinstance(o, HOpaque):
                r = M.opaque_getitem(self, v, o, idx, node)
                if r is not None:
                    return r
        if isinstance(v, TupleV):
            if isinstance(idx, Const) and isinstance(idx.value, int):
                try:
                    return v.items[idx.value]
                except IndexError:
                    self.err(node, "tuple index out of range")
        if isinstance(v, Const) and isinstance(idx, Const):
            try:
                return Const(v.value[idx.value])
            except Exception:
                pass
        if isinstance(v, ElemV):
            r = M.elem_getitem(self, v, idx, node)
            if r is not None:
                return r
        if isinstance(v, ExtV):
            # typing generics such as frozenset[T], list[int]
            return v
        if isinstance(v, ClassV):
            return v
        if isinstance(v, Sym) and (desc(v), desc(idx)) in self.state.shadow:
            return self.state.shadow[(desc(v), desc(idx))]
        self.log("subscript.unknown", node, obj=v, idx=idx)
        return Sym(("item", desc(v), desc(idx)))

    def inst(self, value, mapping):
        """Instantiate a template value: substitute binders, cloning referenced heap objects that mention them."""
        if not mapping:
            return value
        names = set(mapping)

        def go(v):
            if isinstance(v, Ref):
                o = self.deref(v)
                if self.obj_mentions(o, names):
                    return self.alloc(self.inst_obj(o, mapping))
                return v
            if isinstance(v, ElemV):
                return ElemV(F.subst_any(v.var, mapping) if v.var not in mapping else self._elem_target(mapping[v.var]), v.role, F.subst_any(v.fam, mapping) if isinstance(v.fam, tuple) else v.fam, v.cls)
            if isinstance(v, FormulaV):
                return FormulaV(F.subst_any(v.f, mapping), v.backend)
            if isinstance(v, LinV):
                return LinV(self._subst_lin(v.lin, mapping), v.kind)
            if isinstance(v, TupleV):
                return TupleV(tuple(go(i) for i in v.items))
            if isinstance(v, Sym):
                return Sym(F.subst_any(v.label, mapping), v.hint)
            if isinstance(v, PredV):
                return PredV(F.subst_any(v.p, mapping))
            if isinstance(v, NameV):
                return NameV(F.subst_any(v.parts, mapping))
            return v

        return go(value)

    def _elem_target(self, t):
        return t

    def _subst_lin(self, lin, mapping):
        terms = {}
        const = lin[1]
        for t, c in lin[0]:
            nt = F.subst_any(t, mapping)
            if isinstance(nt, tuple) and nt and nt[0] == "lin":
                sub = nt[1]
                for t2, c2 in sub[0]:
                    terms[t2] = terms.get(t2, 0) + c * c2
                const += c * sub[1]
            else:
                terms[nt] = terms.get(nt, 0) + c
        return F.lin(terms, const)

    def obj_mentions(self, o, names):
        if isinstance(o, HList):
            return any(self.val_mentions(s, names) for s in o.segs)
        if isinstance(o, HDict):
            return any(self.val_mentions(x, names) for x in o.entries.values()) or any(self.val_mentions(x, names) for x in o.each)
        if isinstance(o, HObj):
            return any(self.val_mentions(x, names) for x in o.attrs.values())
        if isinstance(o, HWcnf):
            return any(self.val_mentions(x, names) for x in o.hard) or any(self.val_mentions(x, names) for x in o.soft)
        return False

    def val_mentions(self, v, names):
        if isinstance(v, tuple) and not isinstance(v, (TupleV,)):
            if v in names:
                return True
            return any(self.val_mentions(i, names) for i in v)
        if isinstance(v, Ref):
            return self.obj_mentions(self.deref(v), names)
        if isinstance(v, ElemV):
            return F.mentions(v.var, names) or F.mentions(v.fam, names)
        if isinstance(v, FormulaV):
            return F.mentions(v.f, names)
        if isinstance(v, LinV):
            return F.mentions(v.lin, names)
        if isinstance(v, TupleV):
            return any(self.val_mentions(i, names) for i in v.items)
        if isinstance(v, Sym):
            return F.mentions(v.label, names)
        if isinstance(v, PredV):
            return F.mentions(v.p, names)
        if isinstance(v, NameV):
            return F.mentions(v.parts, names)
        return False

    def inst_obj(self, o, mapping):
        if isinstance(o, HList):
            segs = []
            for s in o.segs:
                if s[0] == "one":
                    segs.append(("one", self.inst(s[1], mapping)))
                elif s[0] == "each":
                    segs.append(("each", s[1], F.subst_any(s[2], mapping), F.subst_any(s[3], mapping), self.inst(s[4], mapping)))
                else:
                    segs.append(F.subst_any(s, mapping))
            return HList(segs, is_set=o.is_set)
        if isinstance(o, HDict):
            d = HDict({k: self.inst(v, mapping) for k, v in o.entries.items()}, None, o.sym)
            for e in o.each:
                d.each.append(("each", e[1], F.subst_any(e[2], mapping), F.subst_any(e[3], mapping), self.inst(e[4], mapping), self.inst(e[5], mapping)))
            return d
        if isinstance(o, HObj):
            return HObj(o.cls, {k: self.inst(v, mapping) for k, v in o.attrs.items()})
        if isinstance(o, HWcnf):
            return HWcnf([F.subst_any(i, mapping) for i in o.hard], [F.subst_any(i, mapping) for i in o.soft])
        return o.clone()

    def list_index(self, ref, o: HList, idx, node):
        if o.concrete():
            vals = o.values()
            if isinstance(idx, Const) and isinstance(idx.value, int):
                try:
                    return vals[idx.value]
                except IndexError:
                    self.log("index.error", node, obj=ref, idx=idx)
                    raise RaiseSig(ExcV("IndexError", ("index", desc(idx))), node)
            li = self.as_lin(idx)
            if li is not None and F.lin_is_const(li.lin):
                try:
                    return vals[li.lin[1]]
                except IndexError:
                    raise RaiseSig(ExcV("IndexError", ("index", desc(idx))), node)
        # the first / last element of a sorted sequence is its minimum / maximum (the value min()/max() would give)
        sb = getattr(o, "sorted_by", None)
        li0 = self.as_lin(idx)
        if sb is not None and sb[0] is None and li0 is not None and F.lin_is_const(li0.lin) and li0.lin[1] in (0, -1) and o.segs and sb[1] in (None, ("c", False), ("c", True)):
            rev = sb[1] == ("c", True)
            name = "min" if (li0.lin[1] == 0) != rev else "max"
            dsegs = []
            for sg in o.segs:
                if sg[0] == "one":
                    dsegs.append(("one", desc(sg[1])))
                elif sg[0] == "each":
                    dsegs.append(("each", sg[1], sg[2], sg[3], desc(sg[4])))
                else:
                    dsegs.append(sg)
            self.log("aggregate", node, how=name, segs=tuple(dsegs), default=None)
            return LinV(F.lin_term((name, tuple(dsegs))))
        # a list that is one unguarded 'each' over an indexable family: element at a symbolic position
        if len(o.segs) == 1 and o.segs[0][0] == "each" and o.segs[0][3] == PTRUE:
            _, b, fam, g, val = o.segs[0]
            li = self.as_lin(idx)
            if li is not None and fam[0] == "members":
                n = F.lin_term(("len", fam[1]))
                pos = li.lin
                if F.lin_is_const(pos) and pos[1] < 0:
                    pos = F.lin_add(n, pos)
                self.log("index", node, obj=ref, fam=fam, pos=pos, raw=li.lin)
                return self.inst(val, {b: ("at", fam[1], ("lin", pos))})
        self.log("subscript.unknown", node, obj=ref, idx=idx)
        return Sym(("item", self.list_desc(o), desc(idx)))

    def dict_key(self, k):
        if isinstance(k, Const) and isinstance(k.value, (str, int, bool, float, type(None))):
            return ("k", k.value)
        if isinstance(k, LinV) and F.lin_is_const(k.lin):
            return ("k", k.lin[1])
        if isinstance(k, TupleV) and all(self.dict_key(i) is not None for i in k.items):
            return ("k", tuple(self.dict_key(i)[1] for i in k.items))
        return None

    def dict_load(self, ref, o: HDict, key, node, default=None, log=True):
        if isinstance(key, (PredV, Sym)) and o.entries and not o.each and not o.sym and set(o.entries) <= {True, False} and (isinstance(key, PredV) or key.hint == "bool"):
            # a table with the two truth values as keys, looked up with a symbolic Boolean: whichever it is
            key = Const(bool(self.truth(key)))
        if isinstance(key, TupleV) and o.entries and not o.each and not o.sym and any(isinstance(x, (PredV,)) or (isinstance(x, Sym) and x.hint == "bool") for x in key.items) \
                and all(isinstance(k_, tuple) and len(k_) == len(key.items) and all(isinstance(b_, bool) for b_ in k_) for k_ in o.entries):
            # a table keyed by tuples of truth values, looked up with symbolic Booleans: whichever they are
            key = TupleV(tuple(Const(bool(self.truth(x))) if isinstance(x, (PredV, Sym)) else x for x in key.items))
        if getattr(o, "default_factory", None) is not None and isinstance(key, (PredV,)) and not o.each and not o.sym and set(o.entries) <= {True, False}:
            key = Const(bool(self.truth(key)))  # (a defaultdict keyed by a verdict: whichever it is)
        ck = self.dict_key(key)
        if ck is not None and ck[1] in o.entries:
            return o.entries[ck[1]]
        if getattr(o, "is_counter", False) and default is None and ck is not None and not o.each and not o.sym:
            return Const(0)  # collections.Counter: a key never counted reads as 0 (and is not stored)
        if getattr(o, "default_factory", None) is not None and default is None and ck is not None and not o.each and not o.sym:
            # collections.defaultdict: a missing key gets the factory's value, which is stored and handed out
            v_new = self.call(o.default_factory, [], {}, node)
            o.entries[ck[1]] = v_new
            self.log("dict.set", node, obj=ref, key=key, value=v_new)
            return v_new
        if getattr(o, "default_factory", None) is not None and default is None and ck is None and ("d", desc(key)) not in o.entries:
            self.err(node, "a defaultdict is looked up under a computed key: whether the entry exists (or is created now) is not known")
        # an entry stored earlier on this path under the same symbolic key overrides the generic content
        if ck is None and ("d", desc(key)) in o.entries:
            return o.entries[("d", desc(key))]
        # generic key: find an 'each' entry whose key template matches
        for e in o.each:
            _, b, fam, g, kt, vt = e
            m = self.match_key(kt, key, b)
            if m is not None:
                if log:
                    self.log("dict.get.generic", node, obj=ref, key=key, fam=fam, guard=g, binder=b, mapping=m)
                return self.inst(vt, m)
        # symbolic keys stored explicitly under their descriptor
        dk = ("d", desc(key))
        if dk in o.entries:
            return o.entries[dk]
        if default is not None:
            return default
        if log:
            self.log("dict.get.unknown", node, obj=ref, key=key, keys=tuple(o.entries), each=tuple((e[2], desc(e[4])) for e in o.each))
        if ck is not None and not o.sym and not o.each:
            raise RaiseSig(ExcV("KeyError", ("key", desc(key))), node)
        return Sym(("dictitem", ("dict", ref.oid), desc(key)))

    def match_key(self, template, key, binder):
        """Match an actual key against the key template of an 'each' dict entry."""
        if isinstance(template, ElemV) and template.var == binder:
            if isinstance(key, ElemV) and key.role == template.role:
                return {binder: key.var}
            return None
        if isinstance(template, TupleV) and isinstance(key, TupleV) and len(template.items) == len(key.items):
            m = {}
            for t, k in zip(template.items, key.items):
                sub = self.match_key(t, k, binder)
                if sub is None:
                    if desc(t) != desc(k):
                        return None
                else:
                    m.update(sub)
            return m or None
        if isinstance(template, LinV) and isinstance(key, LinV):
            # positional templates: pos(binder)+c
            return None
        return None

    def dict_store(self, o: HDict, key, value, node, ref=None):
        ck = self.dict_key(key)
        if ck is not None:
            o.entries[ck[1]] = value
        else:
            o.entries[("d", desc(key))] = value
            if not hasattr(o, "symkeys"):
                o.symkeys = {}
            o.symkeys[("d", desc(key))] = key

    # ------------------------------------------------------------------ comprehensions
    def eval_ListComp(self, node):
        return self.comprehension(node, "list")

    def eval_SetComp(self, node):
        return self.comprehension(node, "set")

    def eval_GeneratorExp(self, node):
        # evaluated where it is written; what it yields can be taken only once (a second loop over it finds nothing)
        r = self.comprehension(node, "list")
        if isinstance(r, Ref) and isinstance(self.deref(r), HList):
            self.deref(r).one_shot = True
        return r

    def eval_DictComp(self, node):
        return self.comprehension(node, "dict")

    def comprehension(self, node, kind):
        if kind == "dict":
            res = self.alloc(HDict())
        else:
            res = self.alloc(HList(is_set=(kind == "set")))
        # run the comprehension as nested loops in a child frame sharing the closure
        fr = Frame(self.frame.func, self.frame.module, self.frame.cls, fid=self.state.fresh("fid"),
                   closure=len(self.state.frames) - 1, is_comp=True)
        self.state.frames.append(fr)
        try:
            self._comp_gen(node, 0, res, kind)
        finally:
            self.state.frames.pop()
        return res

    def _comp_gen(self, node, gi, res, kind):
        if gi == len(node.generators):
            if kind == "dict":
                k = self.eval(node.key)
                v = self.eval(node.value)
                self.dict_store(self.deref(res), k, v, node, res)
                self.log("dict.set", node, obj=res, key=k, value=v)
            else:
                v = self.eval(node.elt)
                if isinstance(v, GenV):
                    # a generator of the repository as the element: what it yields, collected where the element is made
                    v = self.alloc(HList(self.segments(v, node)))
                self.deref(res).segs.append(("one", v))
            return
        gen = node.generators[gi]
        it = self.eval(gen.iter)

        def body():
            for cond in gen.ifs:
                if not self.truth(self.eval(cond)):
                    return
            self._comp_gen(node, gi + 1, res, kind)

        self.run_loop(gen.target, it, body, gen.iter)

    # ------------------------------------------------------------------ iteration
    def segments(self, v, node):
        """Iteration segments of an iterable value: [('one', value) | ('each', binder, fam, guard, value)]"""
        from . import models as M

        if isinstance(v, GenV):
            # a generator of the repository handed to enumerate / list / sorted / a comprehension ...: what it yields is
            # collected here (a yield inside a loop over a family becomes one entry per member, like an append would)
            acc = self.alloc(HList())
            wrap = self._gen_wrapper(v)

            def on_yield(value, acc=acc):
                M.list_method(self, acc, self.deref(acc), "append", [wrap(value)], {}, node)
                return Const(None)

            def on_extend(segs, acc=acc):
                if v.wrap:
                    self.err(node, "yield from a sequence of unknown length inside enumerate()")
                M.list_method(self, acc, self.deref(acc), "extend", [self.alloc(HList(list(segs)))], {}, node)

            on_yield.extend = on_extend
            self.call_function(v.fi, list(v.args), dict(v.kwargs), node, force_inline=True, on_yield=on_yield)
            return list(self.deref(acc).segs)
        if isinstance(v, Ref):
            o = self.deref(v)
            if isinstance(o, HList):
                if o.one_shot:
                    if o.consumed:
                        self.log("generator.exhausted", node, obj=v)
                        return []
                    o.consumed = True
                return list(o.segs)
            if isinstance(o, HDict):
                return M.dict_view(self, v, o, "keys")
            if isinstance(o, HOpaque):
                r = M.opaque_iter(self, v, o, node)
                if r is not None:
                    return r
        if isinstance(v, TupleV):
            return [("one", i) for i in v.items]
        if isinstance(v, Const) and isinstance(v.value, (str, tuple, list)):
            return [("one", Const(c)) for c in v.value]
        if isinstance(v, ElemV):
            r = M.elem_iter(self, v, node)
            if r is not None:
                return r
        if isinstance(v, Sym):
            b = self.fresh_var("x")
            return [("each", b, ("members", v.label), PTRUE, ElemV(b, "plain"))]
        self.err(node, f"cannot iterate over {v!r}")

    def concrete_items(self, v, node):
        segs = self.segments(v, node)
        if not all(s[0] == "one" for s in segs):
            self.err(node, "star-expansion of a symbolic collection")
        return [s[1] for s in segs]

    def run_loop(self, target, iterable, body, node, orelse=None):
        """Run ``body`` (a callable executing the loop body in the current frame) over an iterable."""
        segs = self.segments(iterable, node)
        return self.run_segs(target, segs, body, node)

    def run_segs(self, target, segs, body, node):
        broke = False
        for s in segs:
            if s[0] == "one":
                self.assign(target, s[1])
                try:
                    body()
                except ContinueSig:
                    continue
                except BreakSig:
                    broke = True
                    break
            elif s[0] == "each":
                if self.run_generic(target, s, body, node):
                    broke = True
                    break
            elif s[0] == "sym":
                b = self.fresh_var("x")
                if self.run_generic(target, ("each", b, ("members", s[1]), PTRUE, ElemV(b, "plain")), body, node):
                    broke = True
                    break
            elif s[0] == "each*":
                _, b, fam, g, inner = s

                def nested(b=b, inner=inner):
                    ev = self.frame.env.get("$outer")
                    seg = F.subst_any(inner, {b: ev.var}) if inner[0] != "one" else inner
                    seg = self._inst_seg(inner, {b: ev.var})
                    if self.run_segs(target, [seg], body, node):
                        raise BreakSig()

                if self.run_generic(ast.Name(id="$outer", ctx=ast.Store()), ("each", b, fam, g, ElemV(b, "outer")), nested, node):
                    broke = True
                    break
            else:
                self.err(node, f"unknown segment {s[0]}")
        return broke

    def _inst_seg(self, seg, mapping):
        if seg[0] == "one":
            return ("one", self.inst(seg[1], mapping))
        if seg[0] == "each":
            return ("each", seg[1], F.subst_any(seg[2], mapping), F.subst_any(seg[3], mapping), self.inst(seg[4], mapping))
        if seg[0] == "each*":
            return ("each*", seg[1], F.subst_any(seg[2], mapping), F.subst_any(seg[3], mapping), self._inst_seg(seg[4], mapping))
        return F.subst_any(seg, mapping)

    def run_generic(self, target, seg, body, node) -> bool:
        """Body of a loop over a symbolic family: enumerate all body paths for a generic element on clones
        of the state and merge them back as guarded 'for each' effects.  Returns True when the loop was left
        through ``break``."""
        _, binder, fam, seg_guard, template = seg
        base_state, base_ctx = self.state, self.ctx
        floor = dict(base_state.counters)
        loop_id = base_state.fresh("loop")
        self.stats["loops"] += 1
        evar = ("var", f"e{base_state.fresh('var')}")
        seg_guard_e = F.subst_any(seg_guard, {binder: evar})
        trail: list[TrailEntry] = []
        cases: list[Case] = []
        nframe = len(base_state.frames)
        pre_oid = base_state.counters.get("oid", 0)
        while True:
            st = base_state.clone()
            ctx = Ctx(parent=base_ctx, trail=trail, local_names={evar}, floor=floor)
            ctx.loop_id = loop_id
            ctx.pre_oid = pre_oid
            self.state, self.ctx = st, ctx
            sig = ("next",)
            try:
                for name in self._carried.get(id(node), ()):
                    env = st.frames[-1].env
                    cur = env.get(name)
                    if name in self._counters.get(id(node), ()) and self.as_lin(cur) is not None and not isinstance(cur, Sym) and not (isinstance(cur, Const) and isinstance(cur.value, bool)):
                        # a counter stepped by one at the end of every iteration: its value at an element is the
                        # entry value plus the position of the element
                        env[name] = LinV(F.lin_add(F.lin_term(("pos", evar, fam)), self.as_lin(cur).lin))
                        continue
                    if isinstance(cur, (Const, LinV, Sym, PredV)) and not (isinstance(cur, Const) and isinstance(cur.value, str)):
                        hint = "int" if isinstance(cur, LinV) or (isinstance(cur, Const) and isinstance(cur.value, int) and not isinstance(cur.value, bool)) else (cur.hint if isinstance(cur, Sym) else "")
                        env[name] = Sym(("carried", loop_id, name), hint)
                for name in self._carried_containers.get(id(node), ()):
                    cur = st.frames[-1].env.get(name)
                    if isinstance(cur, Ref) and cur.oid in st.heap:
                        o = st.heap[cur.oid]
                        if isinstance(o, HDict) and not o.sym:
                            o.sym = ("carried", loop_id, name)
                        elif isinstance(o, HList) and not any(sg[0] == "sym" for sg in o.segs):
                            o.segs = [("sym", ("carried", loop_id, name))] + o.segs
                elem = self.inst(template, {binder: evar})
                self.assign(target, elem)
                body()
            except ContinueSig:
                sig = ("next",)
            except BreakSig:
                sig = ("break",)
            except ReturnSig as r:
                sig = ("return", r.value)
            except RaiseSig as r:
                sig = ("raise", r.exc, r.node)
            except PathEnd as p:
                sig = ("pathend", p.outcome)
            finally:
                self.state, self.ctx = base_state, base_ctx
            cases.append(Case(list(ctx.order), ctx.events, sig, st, (seg_guard_e,) if seg_guard_e != PTRUE else ()))
            if len(cases) > 512:
                self.err(node, "more than 512 body paths in a generic loop")
            if not advance(trail):
                break
        ev = self.log("loop", node, id=loop_id, fam=fam, evar=evar, seg_guard=seg_guard_e, cases=cases, binder=binder)
        # --- merge the 'next' cases into the base state
        from .merge import merge_cases

        exits = merge_cases(self, base_state, cases, evar, fam, seg_guard_e, loop_id, nframe, pre_oid, node)
        ev.data["exits"] = exits
        if not exits:
            return False
        # the loop may be left early: decide which exit (or none) is taken on this path
        opts = tuple(range(len(exits))) + ("complete",)
        choice = self.ctx.decide(("loopexit", loop_id), opts)
        ev.data.setdefault("choices", []).append(choice)
        if choice == "complete":
            return False
        case = exits[choice]
        from .merge import apply_exit_case

        apply_exit_case(self, base_state, case, evar, nframe, pre_oid, node)
        sig = case.sig
        if sig[0] == "break":
            return True
        if sig[0] == "return":
            raise ReturnSig(self.import_value(sig[1], case.state, pre_oid))
        if sig[0] == "raise":
            raise RaiseSig(sig[1], sig[2])
        if sig[0] == "pathend":
            raise PathEnd(sig[1])
        return False

    def import_value(self, v, src_state: State, pre_oid: int, memo=None):
        """Bring a value computed in a cloned state into the current state (objects allocated in the clone are
        copied over under fresh oids)."""
        if memo is None:
            memo = {}

        def go(x):
            if isinstance(x, Ref):
                if x.oid <= pre_oid and x.oid in self.state.heap:
                    return x
                if x.oid in memo:
                    return memo[x.oid]
                o = src_state.heap[x.oid].clone()
                r = self.alloc(o)
                memo[x.oid] = r
                self.import_obj(o, go)
                return r
            if isinstance(x, TupleV):
                return TupleV(tuple(go(i) for i in x.items))
            return x

        return go(v)

    def import_obj(self, o, go):
        if isinstance(o, HList):
            o.segs = [(s[0], go(s[1])) if s[0] == "one" else ((s[0], s[1], s[2], s[3], go(s[4])) if s[0] == "each" else s) for s in o.segs]
        elif isinstance(o, HDict):
            o.entries = {k: go(v) for k, v in o.entries.items()}
            o.each = [(e[0], e[1], e[2], e[3], go(e[4]), go(e[5])) for e in o.each]
        elif isinstance(o, HObj):
            o.attrs = {k: go(v) for k, v in o.attrs.items()}
        elif isinstance(o, HOpaque):
            o.attrs = {k: go(v) for k, v in o.attrs.items()}

    def carried_names(self, node):
        """Loop-carried scalars of a `for` body: augmented-assignment targets, and names both assigned and read in
        the body.  A generic element sees them havocked (their value after an unknown number of iterations)."""
        targets = {n.id for n in ast.walk(node.target) if isinstance(n, ast.Name)}
        aug, assigned, loaded = set(), set(), set()
        for st in node.body:
            for n in ast.walk(st):
                if isinstance(n, ast.AugAssign) and isinstance(n.target, ast.Name):
                    aug.add(n.target.id)
                elif isinstance(n, ast.Name):
                    if isinstance(n.ctx, ast.Store):
                        assigned.add(n.id)
                    elif isinstance(n.ctx, ast.Load):
                        loaded.add(n.id)
        # containers that the body both updates and consults: their content after earlier iterations is unknown
        mutated, consulted = set(), set()
        for st in node.body:
            for n in ast.walk(st):
                if isinstance(n, ast.Subscript) and isinstance(n.value, ast.Name):
                    (mutated if isinstance(n.ctx, ast.Store) else consulted).add(n.value.id)
                elif isinstance(n, ast.Call) and isinstance(n.func, ast.Attribute) and isinstance(n.func.value, ast.Name):
                    if n.func.attr in ("append", "add", "update", "setdefault", "pop", "extend", "insert", "remove", "discard"):
                        mutated.add(n.func.value.id)
                        if n.func.attr == "setdefault":
                            consulted.add(n.func.value.id)  # it reads what earlier iterations stored
                    elif n.func.attr in ("get", "keys", "values", "items", "index", "count"):
                        consulted.add(n.func.value.id)
                elif isinstance(n, ast.Compare) and any(isinstance(o, (ast.In, ast.NotIn)) for o in n.ops):
                    for c in n.comparators:
                        if isinstance(c, ast.Name):
                            consulted.add(c.id)
        self._carried_containers[id(node)] = (mutated & consulted) - targets
        return (aug | (assigned & loaded)) - targets

    # ------------------------------------------------------------------ assignment
    def assign(self, target, value, node=None):
        if target is None:
            return
        if isinstance(target, ast.Name):
            fr = self.frame
            # comprehension variables live in the comprehension frame; everything else in the function frame
            self.frame.env[target.id] = value
            return
        if isinstance(target, (ast.Tuple, ast.List)) and sum(isinstance(e, ast.Starred) for e in target.elts) == 1 \
                and not (isinstance(value, TupleV) or (isinstance(value, Ref) and isinstance(self.deref(value), HList) and self.deref(value).concrete())):
            # first, *middle, last = xs  on a sequence of unknown length: positions from both ends and the slice between them
            k = next(i for i, e in enumerate(target.elts) if isinstance(e, ast.Starred))
            after = len(target.elts) - k - 1
            for i, e in enumerate(target.elts):
                if i < k:
                    self.assign(e, self.subscript(value, Const(i), target))
                elif i == k:
                    self.assign(e.value, self.slice(value, Const(k) if k else None, Const(-after) if after else None, None, target))
                else:
                    self.assign(e, self.subscript(value, Const(i - len(target.elts)), target))
            return
        if isinstance(target, (ast.Tuple, ast.List)) and sum(isinstance(e, ast.Starred) for e in target.elts) == 1:
            seq = list(value.items) if isinstance(value, TupleV) else self.deref(value).values()
            k = next(i for i, e in enumerate(target.elts) if isinstance(e, ast.Starred))
            after = len(target.elts) - k - 1
            if len(seq) < k + after:
                self.err(target, "not enough values to unpack")
            for i, e in enumerate(target.elts):
                if i < k:
                    self.assign(e, seq[i])
                elif i == k:
                    self.assign(e.value, self.new_list(seq[k:len(seq) - after]))
                else:
                    self.assign(e, seq[len(seq) - (len(target.elts) - i)])
            return
        if isinstance(target, (ast.Tuple, ast.List)):
            items = self.unpack(value, len(target.elts), target)
            for t, v in zip(target.elts, items):
                self.assign(t, v)
            return
        if isinstance(target, ast.Attribute):
            obj = self.eval(target.value)
            self.setattr(obj, target.attr, value, target)
            return
        if isinstance(target, ast.Subscript):
            obj = self.eval(target.value)
            idx = self.eval(target.slice) if not isinstance(target.slice, ast.Slice) else None
            self.setitem(obj, idx, value, target)
            return
        if isinstance(target, ast.Starred):
            self.assign(target.value, value)
            return
        self.err(target, f"unsupported assignment target {type(target).__name__}")

    def unpack(self, value, n, node):
        if isinstance(value, Ref) and isinstance(self.deref(value), HObj) and self.__dict__.get("_record_kind", {}).get(self.deref(value).cls) == "namedtuple":
            fields = self._record_fields(self.deref(value).cls)
            value = TupleV(tuple(self.deref(value).attrs[nm] for nm, _ in fields))
        if isinstance(value, TupleV):
            if len(value.items) != n:
                self.err(node, f"cannot unpack {len(value.items)} values into {n}")
            return list(value.items)
        if isinstance(value, Ref):
            o = self.deref(value)
            if isinstance(o, HList) and o.concrete() and len(o.segs) == n:
                return o.values()
        from . import models as M

        r = M.unpack_value(self, value, n, node)
        if r is not None:
            return r
        return [Sym(("unpack", desc(value), i)) for i in range(n)]

    def setattr(self, obj, attr, value, node):
        if isinstance(obj, Ref):
            o = self.deref(obj)
            if isinstance(o, (HObj, HOpaque)):
                o.attrs[attr] = value
                self.log("attr.set", node, obj=obj, attr=attr, value=value, cls=getattr(o, "cls", getattr(o, "typ", "")))
                return
        self.log("attr.set", node, obj=obj, attr=attr, value=value, cls="")

    def setitem(self, obj, idx, value, node):
        if isinstance(obj, Ref):
            o = self.deref(obj)
            if isinstance(o, HDict):
                self.dict_store(o, idx, value, node, obj)
                self.log("dict.set", node, obj=obj, key=idx, value=value)
                return
            if isinstance(o, HList):
                if isinstance(idx, LinV) and F.lin_is_const(idx.lin):
                    idx = Const(idx.lin[1])  # (a computed position that is a number: min(side, 1), i + 1)
                if o.concrete() and isinstance(idx, Const) and isinstance(idx.value, int) and not isinstance(idx.value, bool):
                    try:
                        o.segs[idx.value] = ("one", value)
                    except IndexError:
                        raise RaiseSig(ExcV("IndexError"), node)
                elif idx is not None and not isinstance(idx, ast.AST):
                    # a store at a position the analysis does not know: what the list holds afterwards is not known either (the
                    # store used to be dropped, which left the old content standing - an unsound model)
                    o.segs = [("sym", ("setitem", self.list_desc(o), desc(idx), desc(value)))]
                self.log("list.setitem", node, obj=obj, key=idx, value=value)
                return
            if isinstance(o, HOpaque):
                o.log.append(("setitem", idx, value))
                self.log("opaque.setitem", node, obj=obj, key=idx, value=value, typ=o.typ)
                return
        if isinstance(obj, Sym) and idx is not None:
            # a store into a container the path knows nothing else about: what is stored is read back from there
            self.state.shadow[(desc(obj), desc(idx))] = value
        self.log("setitem.unknown", node, obj=obj, key=idx, value=value)

    # ------------------------------------------------------------------ calls
    def eval_Call(self, node):
        if isinstance(node.func, ast.Attribute) and node.func.attr == "isEnabledFor" and isinstance(node.func.value, ast.Name) and "log" in node.func.value.id.lower():
            return Sym(("log-enabled",), "bool")  # (one predicate however often it is asked: the level does not change inside a call)
        fv = self.eval(node.func)
        args = []
        for a in node.args:
            if isinstance(a, ast.Starred):
                sv = self.eval(a.value)
                segs = self.segments(sv, a)
                if all(s[0] == "one" for s in segs):
                    args.extend(s[1] for s in segs)
                else:
                    # handed on as it is: what the callee finds in *args is the content, looking at it here has not used it up
                    if isinstance(sv, Ref) and isinstance(self.deref(sv), HList) and self.deref(sv).one_shot:
                        sv = self.alloc(HList(segs, is_set=False))
                    args.append(("star", sv))
            else:
                args.append(self.eval(a))
        kwargs = {}
        for k in node.keywords:
            if k.arg is None:
                kv = self.eval(k.value)
                if isinstance(kv, Ref) and isinstance(self.deref(kv), HDict) and not self.deref(kv).each:
                    for kk, vv in self.deref(kv).entries.items():
                        kwargs[str(kk)] = vv
                else:
                    kwargs["**"] = kv
            else:
                kwargs[k.arg] = self.eval(k.value)
        return self.call(fv, args, kwargs, node)

    def call(self, fv, args, kwargs, node):
        from . import models as M

        if isinstance(fv, FuncV):
            fi = self.prog.functions.get(fv.qualname)
            if fi is None:
                self.err(node, f"unknown function {fv.qualname}")
            full = ([fv.self_value] if fv.self_value is not None else []) + list(args)
            return self.call_function(fi, full, kwargs, node)
        if isinstance(fv, ClassV):
            return self.instantiate(fv.qualname, args, kwargs, node)
        if isinstance(fv, MethV):
            return M.call_method(self, fv.obj, fv.name, args, kwargs, node)
        if isinstance(fv, ExtV):
            return M.call_external(self, fv, args, kwargs, node)
        if isinstance(fv, LambdaV):
            return self.call_lambda(fv, args, kwargs, node)
        if isinstance(fv, Sym) and isinstance(fv.label, tuple) and fv.label[:1] == ("record-make",) and len(args) == 1 and not kwargs:
            segs = self.segments(args[0], node)
            if all(s_[0] == "one" for s_ in segs):
                return self.instantiate(fv.label[1], [s_[1] for s_ in segs], {}, node)
            self.err(node, "_make of a sequence of unknown length")
        if isinstance(fv, Sym) and isinstance(fv.label, tuple) and fv.label[:1] == ("partial",):
            return self.call(fv.label[1], list(fv.label[2]) + list(args), {**dict(fv.label[3]), **kwargs}, node)
        if isinstance(fv, Sym) and isinstance(fv.label, tuple) and fv.label[:1] == ("record-method",):
            o = self.state.heap[fv.label[2]]
            fields = [nm for nm, _ in self._record_fields(o.cls)]
            if fv.label[1] == "_asdict" and not args and not kwargs:
                return self.alloc(HDict(entries={nm: o.attrs.get(nm, Const(None)) for nm in fields}))
            if fv.label[1] == "_replace" and not args and all(k in fields for k in kwargs):
                return self.alloc(HObj(o.cls, {**o.attrs, **kwargs}))
            self.err(node, f"{fv.label[1]} of a named tuple with these arguments")
        if isinstance(fv, Sym) and isinstance(fv.label, tuple) and fv.label[:1] in (("itemgetter",), ("attrgetter",), ("methodcaller",)) and len(args) == 1:
            return M.call_operator_object(self, fv, args, kwargs, node)
        if isinstance(fv, Sym):
            self.stats["unresolved_calls"] += 1
            self.log("call.unknown", node, func=fv, args=tuple(args), kwargs=dict(kwargs))
            return Sym(("call", fv.label, tuple(desc(a) if not isinstance(a, tuple) else a for a in args)))
        self.err(node, f"cannot call {fv!r}")

    def eval_Yield(self, node):
        h = None
        for fr in reversed(self.state.frames):
            if fr.func is not None and not fr.is_comp:
                h = getattr(fr, "on_yield", None)
                break
        if h is None:
            self.err(node, "unsupported expression Yield")
        return h(self.eval(node.value) if node.value is not None else Const(None))

    def eval_YieldFrom(self, node):
        h = None
        for fr in reversed(self.state.frames):
            if fr.func is not None and not fr.is_comp:
                h = getattr(fr, "on_yield", None)
                break
        if h is None:
            self.err(node, "unsupported expression YieldFrom")
        segs = self.segments(self.eval(node.value), node)
        if all(sg[0] == "one" for sg in segs):
            for sg in segs:
                h(sg[1])
            return Const(None)
        hs = getattr(h, "extend", None)
        if hs is None:
            self.err(node, "yield from a sequence of unknown length where each value is consumed in turn")
        hs(segs)
        return Const(None)

    def call_lambda(self, lv, args, kwargs, node):
        lam = lv.node
        home = len(self.state.frames) - 1
        hid = self.__dict__.get("_lambda_home", {}).get((id(lam), lv.frame_id))
        if hid is not None and 0 <= lv.frame_id < len(self.state.frames) and self.state.frames[lv.frame_id].fid == hid:
            home = lv.frame_id  # called from somewhere below the function that wrote it (a callback handed to a helper)
        elif isinstance(lam, ast.FunctionDef):
            self.err(node, f"the nested function {lam.name} is called after the call that defined it has returned")
        hf = self.state.frames[home]
        if isinstance(lam, ast.FunctionDef) and any(isinstance(n_, (ast.Yield, ast.YieldFrom)) for n_ in self._own_nodes(lam)):
            # a nested generator function: a generator object over the frame it was written in, run where it is consumed
            cache = self.__dict__.setdefault("_nested_fi", {})
            key = (id(lam), hf.fid)
            if key not in cache:
                nfi = FunctionInfo(f"{hf.func.qualname if hf.func else '?'}.<locals>.{lam.name}", hf.module, None, lam, ())
                nfi._closure = (home, hf.fid)
                cache[key] = nfi
            return GenV(cache[key], tuple(args), tuple(sorted(kwargs.items(), key=lambda kv: kv[0])))
        fr = Frame(hf.func, hf.module, hf.cls, fid=self.state.fresh("fid"), closure=home, is_comp=True)
        self.bind_params(lam.args, args, kwargs, fr, node, lam)
        self.state.frames.append(fr)
        depth = len(self.state.frames)
        try:
            if isinstance(lam, ast.FunctionDef):
                self.log("enter", node, func=f"{hf.func.qualname if hf.func else '?'}.<locals>.{lam.name}", args=tuple(args), kwargs=dict(kwargs))
                try:
                    self.exec_block(lam.body)
                    rv = Const(None)
                except ReturnSig as r:
                    rv = r.value
                self.log("leave", node, func=f"{hf.func.qualname if hf.func else '?'}.<locals>.{lam.name}", value=rv)
                return rv
            return self.eval(lam.body)
        finally:
            del self.state.frames[depth - 1:]

    def bind_params(self, a: ast.arguments, args, kwargs, fr: Frame, node, fnode):
        params = [p.arg for p in a.posonlyargs + a.args]
        kwonly = [p.arg for p in a.kwonlyargs]
        defaults = a.defaults
        env = fr.env
        if any(isinstance(x, tuple) and x and x[0] == "star" for x in args):
            # symbolic star args: bind to *args if present
            if a.vararg:
                env[a.vararg.arg] = [x for x in args if isinstance(x, tuple)][0][1]
                args = [x for x in args if not isinstance(x, tuple)]
            else:
                self.err(node, "symbolic *args passed to a function without *args")
        pos = list(args)
        for i, p in enumerate(params):
            if i < len(pos):
                env[p] = pos[i]
            elif p in kwargs:
                env[p] = kwargs[p]
            else:
                di = i - (len(params) - len(defaults))
                if di >= 0:
                    env[p] = ("default", defaults[di])
                else:
                    self.err(node, f"missing argument {p} in call to {getattr(fnode, 'name', 'lambda')}")
        if len(pos) > len(params):
            if a.vararg:
                env[a.vararg.arg] = self.new_list(pos[len(params):])
            else:
                self.err(node, f"too many positional arguments in call to {getattr(fnode, 'name', 'lambda')}")
        elif a.vararg and a.vararg.arg not in env:
            env[a.vararg.arg] = self.new_list([])
        for i, p in enumerate(kwonly):
            if p in kwargs:
                env[p] = kwargs[p]
            elif a.kw_defaults[i] is not None:
                env[p] = ("default", a.kw_defaults[i])
            else:
                self.err(node, f"missing keyword argument {p}")
        extra = {k: v for k, v in kwargs.items() if k not in params and k not in kwonly}
        if a.kwarg:
            env[a.kwarg.arg] = self.alloc(HDict(extra))
        elif extra:
            self.err(node, f"unexpected keyword arguments {sorted(extra)} in call to {getattr(fnode, 'name', 'lambda')}")

    def call_function(self, fi: FunctionInfo, args, kwargs, node, force_inline=False, on_yield=None):
        self.stats["functions"].add(fi.qualname)
        if on_yield is None and "contextmanager" in fi.decorators:
            # a generator-based context manager: nothing runs before the `with` statement enters it
            return CtxGenV(fi, tuple(args), tuple(sorted(kwargs.items(), key=lambda kv: kv[0])))
        if on_yield is None and fi.qualname not in self.summaries and self._is_generator(fi):
            # a generator function: calling it runs nothing; the for statement that consumes it drives it
            return GenV(fi, tuple(args), tuple(sorted(kwargs.items(), key=lambda kv: kv[0])))
        if not force_inline:
            h = self.summaries.get(fi.qualname)
            if h is not None:
                self.stats["resolved_calls"] += 1
                if kwargs:
                    # a summary reads the call by role: arguments given by keyword are also put in their parameter's position
                    # (the keywords stay, so a summary that looks an argument up by name finds it as well)
                    args = list(args)
                    for name_ in [a.arg for a in fi.node.args.posonlyargs + fi.node.args.args][len(args):]:
                        if name_ not in kwargs:
                            break
                        args.append(kwargs[name_])
                if "staticmethod" in fi.decorators and getattr(fi, "cls", None):
                    # (summaries are written for the method form: the place of `self` stays, empty)
                    args = [Const(None)] + list(args)
                return h(self, fi, args, kwargs, node)
            # self recursion (direct or mutual through the current stack): recorded, not unfolded
            for fr in self.state.frames:
                if getattr(self, "unfold_recursion", False):
                    break  # concrete evaluation (a finite tree): the recursion is followed to its end (bounded by max_depth)
                if fr.func is not None and fr.func.qualname == fi.qualname and not fr.is_comp:
                    if kwargs:
                        # keyword arguments in their parameter's position (rules read the recursive call by role)
                        args, kwargs = list(args), dict(kwargs)
                        for name_ in [a.arg for a in fi.node.args.posonlyargs + fi.node.args.args][len(args):]:
                            if name_ not in kwargs:
                                break
                            args.append(kwargs.pop(name_))
                    ev = self.log("recurse", node, func=fi.qualname, args=tuple(args), kwargs=dict(kwargs),
                                  snap=self.snapshot_args(args, kwargs))
                    rid = self.fresh_id("rec")
                    ev.data["rid"] = rid
                    return Sym(("rec", rid, fi.qualname), "bool")
            depth = sum(1 for fr in self.state.frames if fr.func is not None and not fr.is_comp)
            if depth >= self.max_depth or fi.qualname in self.no_inline:
                self.log("call.opaque", node, func=fi.qualname, args=tuple(args), kwargs=dict(kwargs))
                return Sym(("call", fi.qualname, tuple(desc(a) for a in args if not isinstance(a, tuple) or True)))
        self.stats["resolved_calls"] += 1
        clo = getattr(fi, "_closure", None)
        if clo is not None:
            if not (0 <= clo[0] < len(self.state.frames) and self.state.frames[clo[0]].fid == clo[1]):
                self.err(node, f"the nested generator {fi.qualname} runs after the call that defined it has returned")
            fr = Frame(fi, fi.module, fi.cls, fid=self.state.fresh("fid"), closure=clo[0])
        else:
            fr = Frame(fi, fi.module, fi.cls, fid=self.state.fresh("fid"))
        fr.on_yield = on_yield
        self.bind_params(fi.node.args, args, kwargs, fr, node, fi.node)
        self.state.frames.append(fr)
        # defaults are evaluated in the callee's module context
        for k, v in list(fr.env.items()):
            if isinstance(v, tuple) and len(v) == 2 and v[0] == "default":
                fr.env[k] = self.eval(v[1])
        self.log("enter", node, func=fi.qualname, args=tuple(args), kwargs=dict(kwargs))
        try:
            self.exec_block(fi.node.body)
            ret = Const(None)
        except ReturnSig as r:
            ret = r.value
        finally:
            self.state.frames.pop()
        self.log("leave", node, func=fi.qualname, value=ret)
        return ret

    def snapshot_args(self, args, kwargs):
        """Snapshot of the abstract objects passed to a recursive call (solver frames, WCNF contents)."""
        out = []
        for a in list(args) + list(kwargs.values()):
            out.append(self.snapshot(a))
        return tuple(out)

    def snapshot(self, v):
        if isinstance(v, Ref):
            o = self.deref(v)
            if isinstance(o, HSolver):
                return ("solver", v.oid, o.api, tuple(tuple(fr) for fr in o.frames), tuple(tuple(fr) for fr in o.soft))
            if isinstance(o, HWcnf):
                return ("wcnf", v.oid, tuple(o.hard), tuple(o.soft))
            if isinstance(o, HList):
                return ("list", v.oid, tuple(o.segs))
            return ("ref", v.oid, type(o).__name__)
        return ("val", v)

    def instantiate(self, cls: str, args, kwargs, node):
        from . import models as M

        h = self.summaries.get(cls)
        if h is not None:
            return h(self, None, args, kwargs, node)
        if any(c.endswith("Exception") or c.endswith("Error") or c in ("Exception", "builtins.Exception") for c in self.prog.mro(cls)):
            return ExcV(cls, None, tuple(args))
        ref = self.alloc(HObj(cls))
        init = self.prog.lookup_method(cls, "__init__")
        self.log("new", node, cls=cls, obj=ref, args=tuple(args), kwargs=dict(kwargs))
        if init is not None:
            self.call_function(init, [ref] + list(args), kwargs, node)
        elif self._record_fields(cls) is not None:
            self._init_record(cls, ref, args, kwargs, node)
        else:
            ext = M.external_base_init(self, cls, ref, args, kwargs, node)
        return ref

    def _record_fields(self, cls):
        """Fields of a @dataclass / typing.NamedTuple class of the repository, in declaration order: [(name, default node
        or None)]; None for any other class."""
        cache = self.__dict__.setdefault("_record_cache", {})
        if cls in cache:
            return cache[cls]
        ci = self.prog.classes.get(cls)
        out = None
        if ci is not None:
            is_dc = any(ast.unparse(d.func if isinstance(d, ast.Call) else d).rsplit(".", 1)[-1] == "dataclass" for d in ci.node.decorator_list)
            is_nt = any(str(b).rsplit(".", 1)[-1] == "NamedTuple" for b in getattr(ci, "bases", ()))
            node_ = getattr(ci, "node", None)
            if (is_dc or is_nt) and node_ is not None:
                out = []
                for st in node_.body:
                    if isinstance(st, ast.AnnAssign) and isinstance(st.target, ast.Name) and "ClassVar" not in ast.unparse(st.annotation):
                        out.append((st.target.id, st.value))
                ci_kind = "namedtuple" if is_nt else "dataclass"
                self.__dict__.setdefault("_record_kind", {})[cls] = ci_kind
        cache[cls] = out
        return out

    def _init_record(self, cls, ref, args, kwargs, node):
        fields = self._record_fields(cls)
        o = self.deref(ref)
        ci = self.prog.classes[cls]
        if len(args) > len(fields):
            self.err(node, f"{cls}: more arguments than fields")
        for i, (name, dflt) in enumerate(fields):
            if i < len(args):
                o.attrs[name] = args[i]
            elif name in kwargs:
                o.attrs[name] = kwargs[name]
            elif dflt is not None:
                self.state.frames.append(Frame(None, ci.module, ci.qualname, fid=self.state.fresh("fid")))
                try:
                    if isinstance(dflt, ast.Call) and ast.unparse(dflt.func).rsplit(".", 1)[-1] == "field":
                        fac = next((k.value for k in dflt.keywords if k.arg == "default_factory"), None)
                        dv = next((k.value for k in dflt.keywords if k.arg == "default"), None)
                        if fac is not None:
                            o.attrs[name] = self.call(self.eval(fac), [], {}, node)
                        elif dv is not None:
                            o.attrs[name] = self.eval(dv)
                        else:
                            self.err(node, f"{cls}.{name}: field() without a default")
                    else:
                        o.attrs[name] = self.eval(dflt)
                finally:
                    self.state.frames.pop()
            else:
                self.err(node, f"{cls}: field {name} not given")
        post = self.prog.lookup_method(cls, "__post_init__")
        if post is not None:
            self.call_function(post, [ref], {}, node)

    # ------------------------------------------------------------------ statements
    def exec_block(self, stmts):
        for s in stmts:
            self.exec_stmt(s)

    def exec_stmt(self, node):
        m = getattr(self, "exec_" + type(node).__name__, None)
        if m is None:
            self.err(node, f"unsupported statement {type(node).__name__}")
        m(node)

    def exec_Expr(self, node):
        if isinstance(node.value, ast.Constant):
            return
        if self.is_logging(node.value):
            self.audit_logging(node.value)
            return
        if isinstance(node.value, ast.GeneratorExp):
            # a generator expression that nobody consumes runs nothing: its body has no effect
            self.log("generator.discarded", node.value)
            return
        self.eval(node.value)

    def audit_logging(self, call):
        """A log record has no effect on what is analysed, but its arguments are evaluated before the call: a division in
        them raises like anywhere else.  Only divisions are looked at (under the conditional expressions that guard them);
        everything else in the record is skipped."""
        def walk(e):
            if isinstance(e, ast.IfExp):
                try:
                    t = self.truth(self.eval(e.test))
                except AnalysisError:
                    return
                walk(e.body if t else e.orelse)
            elif isinstance(e, ast.BinOp):
                walk(e.left)
                walk(e.right)
                if isinstance(e.op, (ast.Div, ast.FloorDiv, ast.Mod)):
                    try:
                        a, b = self.eval(e.left), self.eval(e.right)
                    except AnalysisError:
                        return
                    if not (isinstance(a, Const) and isinstance(a.value, str)):
                        try:
                            self.binop(type(e.op).__name__, a, b, e)
                        except AnalysisError:
                            return
            elif isinstance(e, ast.Dict):
                for v in e.values:
                    walk(v)
            elif isinstance(e, (ast.List, ast.Tuple, ast.Set)):
                for v in e.elts:
                    walk(v)
            elif isinstance(e, ast.Call):
                for v in e.args:
                    walk(v)
                for k in e.keywords:
                    walk(k.value)
            elif isinstance(e, ast.JoinedStr):
                for v in e.values:
                    if isinstance(v, ast.FormattedValue):
                        walk(v.value)
            elif isinstance(e, ast.Starred):
                walk(e.value)

        for a in call.args:
            walk(a)
        for k in call.keywords:
            walk(k.value)

    def is_logging(self, e):
        """logger.debug/info/... calls are effect free for every property; skip them."""
        if isinstance(e, ast.Call) and isinstance(e.func, ast.Attribute) and isinstance(e.func.value, ast.Name):
            if e.func.value.id in ("logger", "logging", "log", "_logger") and e.func.attr in (
                    "debug", "info", "warning", "error", "critical", "exception", "log"):
                return True
        if isinstance(e, ast.Call) and isinstance(e.func, ast.Name) and e.func.id in ("print",):
            return True
        return False

    def exec_Pass(self, node):
        pass

    def exec_Import(self, node):
        pass

    def exec_ImportFrom(self, node):
        pass

    def exec_Global(self, node):
        pass

    def exec_Nonlocal(self, node):
        pass

    def exec_Assign(self, node):
        # `x = x <op> e` on a name is the expanded spelling of `x <op>= e`: one event kind for both
        if len(node.targets) == 1 and isinstance(node.targets[0], ast.Name) and isinstance(node.value, ast.BinOp):
            n, b = node.targets[0].id, node.value
            left_same = isinstance(b.left, ast.Name) and b.left.id == n
            right_same = isinstance(b.right, ast.Name) and b.right.id == n and isinstance(b.op, (ast.Add, ast.Mult))
            if (left_same or right_same) and n in self.frame.env:
                cur = self.lookup_name(n, node)
                if not isinstance(cur, Ref):
                    other = b.right if left_same else b.left
                    rhs = self.eval(other)
                    v = self.binop(type(b.op).__name__, cur, rhs, node) if left_same else self.binop(type(b.op).__name__, rhs, cur, node)
                    self.log("augassign", node, target=n, op=type(b.op).__name__, cur=cur, rhs=rhs, value=v)
                    self.assign(node.targets[0], v, node)
                    return
        v = self.eval(node.value)
        for t in node.targets:
            self.assign(t, v, node)

    def exec_AnnAssign(self, node):
        if node.value is None:
            return
        v = self.eval(node.value)
        self.assign(node.target, v, node)

    def exec_AugAssign(self, node):
        if isinstance(node.target, ast.Name):
            cur = self.lookup_name(node.target.id, node)
        elif isinstance(node.target, ast.Attribute):
            cur = self.getattr(self.eval(node.target.value), node.target.attr, node)
        elif isinstance(node.target, ast.Subscript):
            cur = self.subscript(self.eval(node.target.value), self.eval(node.target.slice), node)
        else:
            self.err(node, "unsupported augmented assignment target")
        rhs = self.eval(node.value)
        # in-place list extension
        if isinstance(node.op, ast.Add) and isinstance(cur, Ref) and isinstance(self.deref(cur), HList):
            self.deref(cur).segs.extend(self.segments(rhs, node))
            self.log("list.extend", node, obj=cur, value=rhs)
            return
        v = self.binop(type(node.op).__name__, cur, rhs, node)
        self.log("augassign", node, target=ast.unparse(node.target), op=type(node.op).__name__, cur=cur, rhs=rhs, value=v)
        self.assign(node.target, v, node)

    def exec_Delete(self, node):
        for t in node.targets:
            if isinstance(t, ast.Subscript):
                obj = self.eval(t.value)
                idx = self.eval(t.slice)
                if isinstance(obj, Ref) and isinstance(self.deref(obj), HDict):
                    ck = self.dict_key(idx)
                    d = self.deref(obj)
                    if ck is not None:
                        d.entries.pop(ck[1], None)
                    else:
                        d.entries.pop(("d", desc(idx)), None)
                self.log("del.item", node, obj=obj, key=idx)
            elif isinstance(t, ast.Name):
                self.frame.env.pop(t.id, None)
            elif isinstance(t, ast.Attribute):
                obj = self.eval(t.value)
                if isinstance(obj, Ref) and isinstance(self.deref(obj), HObj):
                    self.deref(obj).attrs.pop(t.attr, None)
                self.log("del.attr", node, obj=obj, attr=t.attr)

    def exec_Return(self, node):
        v = self.eval(node.value) if node.value is not None else Const(None)
        self.log("return", node, value=v)
        raise ReturnSig(v)

    def exec_Raise(self, node):
        if node.exc is None:
            cur = None
            for fr in reversed(self.state.frames):
                cur = fr.current_exc
                if cur is not None:
                    break
            exc = cur or ExcV("Exception")
        else:
            v = self.eval(node.exc)
            exc = self.to_exc(v, node)
        self.log("raise", node, exc=exc)
        raise RaiseSig(exc, node)

    def to_exc(self, v, node):
        if isinstance(v, ExcV):
            return v
        if isinstance(v, ExtV):
            from . import models as M

            return ExcV(M.canon_exc_name(v.name))
        if isinstance(v, ClassV):
            return ExcV(v.qualname)
        if isinstance(v, Sym):
            return ExcV("Exception", v.label)
        return ExcV("Exception", desc(v))

    def exec_Assert(self, node):
        t = self.eval(node.test)
        p = self.pred_of(t)
        self.log("assert", node, pred=p)
        if not self.decide_pred(p):
            exc = ExcV("AssertionError", ("assert", p))
            self.log("raise", node, exc=exc)
            raise RaiseSig(exc, node)

    def exec_If(self, node):
        # a test of the logging level whose branches only log (or are empty) has no effect on the analysed state
        if self.is_log_guard(node.test) and self.only_logs(node.body) and self.only_logs(node.orelse):
            return
        # the same with the test bound to a name first (`enabled = logger.isEnabledFor(..)` / `if enabled:`)
        nt_ = node.test
        while isinstance(nt_, ast.UnaryOp) and isinstance(nt_.op, ast.Not):
            nt_ = nt_.operand
        if isinstance(nt_, ast.Name) and self.only_logs(node.body) and self.only_logs(node.orelse):
            try:
                v_ = self.eval(nt_)
            except Exception:  # noqa: BLE001 - an unbound name is reported where it is really read
                v_ = None
            if isinstance(v_, Sym) and v_.label == ("log-enabled",):
                return
        t = self.eval(node.test)
        if self.truth(t):
            self.exec_block(node.body)
        else:
            self.exec_block(node.orelse)

    def is_log_guard(self, test):
        while isinstance(test, ast.UnaryOp) and isinstance(test.op, ast.Not):
            test = test.operand
        return (isinstance(test, ast.Call) and isinstance(test.func, ast.Attribute) and test.func.attr == "isEnabledFor")

    @staticmethod
    def only_logs(block):
        for st in block:
            if isinstance(st, ast.Pass):
                continue
            if isinstance(st, ast.Expr) and isinstance(st.value, ast.Call) and isinstance(st.value.func, ast.Attribute) \
                    and st.value.func.attr in ("debug", "info", "warning", "error", "exception", "critical", "log") \
                    and isinstance(st.value.func.value, ast.Name) and "log" in st.value.func.value.id.lower():
                continue
            return False
        return True

    def _is_generator(self, fi):
        cache = self.__dict__.setdefault("_gen_cache", {})
        if fi.qualname not in cache:
            found = False
            todo = list(fi.node.body)
            while todo and not found:
                n = todo.pop()
                if isinstance(n, (ast.Yield, ast.YieldFrom)):
                    found = True
                elif not isinstance(n, (ast.FunctionDef, ast.AsyncFunctionDef, ast.Lambda, ast.ClassDef)):
                    todo.extend(ast.iter_child_nodes(n))
            cache[fi.qualname] = found
        return cache[fi.qualname]

    def _gen_wrapper(self, gen):
        """What the lazy wrappers around a generator (enumerate) make of the values it yields, one after the other."""
        counters = [0] * len(gen.wrap)

        def wrap(value):
            for i, w in enumerate(gen.wrap):
                if w[0] == "enumerate":
                    sl = self.as_lin(w[1])
                    if self.unroll_while and sl is not None:
                        pos = LinV(F.lin_add(sl.lin, F.lin_const(counters[i])))
                        if F.lin_is_const(pos.lin):
                            pos = Const(pos.lin[1])
                    else:
                        pos = Sym(("position", self.fresh_id("n")), "int")  # (a yield in a loop run once for all rounds)
                    counters[i] += 1
                    value = TupleV((pos, value))
            return value

        return wrap

    def _for_over_generator(self, node, gen):
        """for x in g(...): BODY with g a generator function of the repository: the body runs at every yield (clauses the
        body adds are seen by the generator's next step); break / return / an exception in the body close the generator
        (its finally blocks run, its except clauses do not see them)."""
        caller = self.frame
        pending = []
        wrap = self._gen_wrapper(gen)

        def on_yield(value):
            self.state.frames.append(caller)
            try:
                self.assign(node.target, wrap(value))
                try:
                    self.exec_block(node.body)
                except ContinueSig:
                    pass
                except (BreakSig, ReturnSig, RaiseSig) as sig:
                    pending.append(sig)
                    raise _GenStop()
            finally:
                self.state.frames.pop()
            return Const(None)

        def on_extend(segs):
            # yield from a sequence of unknown length: the loop body runs for its members as it would in a for statement over it
            if gen.wrap:
                self.err(node, "yield from a sequence of unknown length inside enumerate()")
            self.state.frames.append(caller)
            try:
                def body():
                    self.exec_block(node.body)
                if self.run_segs(node.target, list(segs), body, node):
                    pending.append(BreakSig())
                    raise _GenStop()
            except (ReturnSig, RaiseSig) as sig:
                pending.append(sig)
                raise _GenStop()
            finally:
                self.state.frames.pop()

        on_yield.extend = on_extend
        try:
            self.call_function(gen.fi, list(gen.args), dict(gen.kwargs), node.iter, force_inline=True, on_yield=on_yield)
        except _GenStop:
            sig = pending[0]
            if isinstance(sig, BreakSig):
                return
            raise sig
        if node.orelse:
            self.exec_block(node.orelse)

    def exec_For(self, node):
        it = self.eval(node.iter)
        if isinstance(it, GenV):
            return self._for_over_generator(node, it)
        if isinstance(it, Ref) and isinstance(self.deref(it), HOpaque) and self.deref(it).typ == "count":
            # for n in itertools.count(a, s): an endless loop with a counter - run as  while True: n = a, a+s, ...
            c = self.deref(it)
            cache = self.__dict__.setdefault("_count_loops", {})
            if id(node) not in cache:
                hid = f"__count_{node.lineno}_{node.col_offset}"
                step = ast.AugAssign(target=ast.Name(id=hid, ctx=ast.Store()), op=ast.Add(), value=ast.Name(id=hid + "_step", ctx=ast.Load()))
                bind = ast.Assign(targets=[node.target], value=ast.Name(id=hid, ctx=ast.Load()))
                w = ast.While(test=ast.Constant(value=True), body=[step, bind] + list(node.body), orelse=[])
                for n_ in (step, bind, w):
                    ast.copy_location(n_, node)
                    ast.fix_missing_locations(n_)
                cache[id(node)] = (hid, w)
            hid, w = cache[id(node)]
            self.frame.env[hid + "_step"] = c.attrs["step"]
            self.frame.env[hid] = self.binop("Sub", c.attrs["start"], c.attrs["step"], node)
            return self.exec_While(w)

        def body():
            self.exec_block(node.body)

        self._carried[id(node)] = self.carried_names(node)
        self._counters[id(node)] = self.unit_counters(node)
        broke = self.run_loop(node.target, it, body, node)
        if not broke and node.orelse:
            self.exec_block(node.orelse)

    @staticmethod
    def unit_counters(node):
        """Names that the body of this ``for`` loop changes in exactly one place: a top-level ``n += 1`` / ``n = n + 1``,
        with no ``continue`` of this loop anywhere (every iteration that goes on reaches the step)."""
        def has_continue(stmts):
            for st in stmts:
                if isinstance(st, ast.Continue):
                    return True
                if isinstance(st, (ast.For, ast.While, ast.FunctionDef, ast.AsyncFunctionDef, ast.ClassDef)):
                    if isinstance(st, (ast.For, ast.While)) and has_continue(st.orelse):
                        return True
                    continue
                for fld in ("body", "orelse", "finalbody"):
                    if has_continue(getattr(st, fld, []) or []):
                        return True
                for h in getattr(st, "handlers", []) or []:
                    if has_continue(h.body):
                        return True
                for c in getattr(st, "cases", []) or []:
                    if has_continue(c.body):
                        return True
            return False

        if has_continue(node.body):
            return frozenset()
        steps = {}
        for st in node.body:
            nm = None
            if isinstance(st, ast.AugAssign) and isinstance(st.op, ast.Add) and isinstance(st.target, ast.Name) and isinstance(st.value, ast.Constant) and st.value.value == 1 and not isinstance(st.value.value, bool):
                nm = st.target.id
            elif isinstance(st, ast.Assign) and len(st.targets) == 1 and isinstance(st.targets[0], ast.Name) and isinstance(st.value, ast.BinOp) and isinstance(st.value.op, ast.Add):
                l, r = st.value.left, st.value.right
                t = st.targets[0].id
                one = lambda x: isinstance(x, ast.Constant) and x.value == 1 and not isinstance(x.value, bool)  # noqa: E731
                if (isinstance(l, ast.Name) and l.id == t and one(r)) or (isinstance(r, ast.Name) and r.id == t and one(l)):
                    nm = t
            if nm:
                steps[nm] = steps.get(nm, 0) + 1
        out = set()
        for nm, k in steps.items():
            if k != 1:
                continue
            stores = [n for n in ast.walk(node) if isinstance(n, ast.Name) and n.id == nm and isinstance(n.ctx, (ast.Store, ast.Del))]
            tgt = [n for n in ast.walk(node.target) if isinstance(n, ast.Name) and n.id == nm]
            if len(stores) == 1 and not tgt:
                out.add(nm)
        return frozenset(out)

    def exec_While(self, node):
        """``while`` loops run once from a havocked head; the back edge ends the path."""
        from .merge import havoc_loop_head

        loop_id = self.state.fresh("loop")
        if self.unroll_while:
            # bounded concrete unrolling (rules that evaluate a loop against a model of what it calls): iteration by iteration
            # from the actual state; a path that is still in the loop after the bound ends there as ("unroll-limit", ...)
            self.log("while.enter", node, id=loop_id, entry=None, oid_mark=self.state.counters.get("oid", 0))
            done = 0
            while True:
                if done >= self.unroll_while:
                    raise PathEnd(("unroll-limit", loop_id, done))
                if not (isinstance(node.test, ast.Constant) and bool(node.test.value)):
                    if not self.truth(self.eval(node.test)):
                        break
                self.log("while.iteration", node, id=loop_id, n=done, oid_mark=self.state.counters.get("oid", 0))
                try:
                    self.exec_block(node.body)
                except BreakSig:
                    self.log("while.break", node, id=loop_id)
                    return
                except ContinueSig:
                    pass
                done += 1
            self.log("while.exit", node, id=loop_id)
            if node.orelse:
                self.exec_block(node.orelse)
            return
        entry = havoc_loop_head(self, node, loop_id)
        self.log("while.enter", node, id=loop_id, entry=entry, oid_mark=self.state.counters.get("oid", 0))
        try:
            const_true = isinstance(node.test, ast.Constant) and bool(node.test.value)
            if not const_true:
                t = self.eval(node.test)
                if not self.truth(t):
                    raise BreakSig()
            self.exec_block(node.body)
        except BreakSig:
            self.log("while.break", node, id=loop_id)
            return
        except ContinueSig:
            pass
        from .merge import loop_back_snapshot

        if not const_true and not any(isinstance(x, (ast.Call, ast.Await, ast.NamedExpr)) for x in ast.walk(node.test)):
            # a loop test that the values carried back already decide (a flag set in this iteration): the loop is left
            # here rather than at the havocked head of a next iteration (only tests without calls: evaluating them twice
            # must not have effects)
            back_test = self.pred_of(self.eval(node.test))
            if back_test == PFALSE:
                self.log("while.exit", node, id=loop_id)
                if node.orelse:
                    self.exec_block(node.orelse)
                return
        snap = loop_back_snapshot(self, node, entry)
        self.log("while.back", node, id=loop_id, snap=snap)
        raise PathEnd(("loopback", loop_id, snap))

    def exec_Match(self, node):
        """match/case for the pattern kinds a clean-up uses: literals, None/True/False, captures and wildcards, `|`,
        sequences of fixed length, and class patterns over repository records (dataclass / NamedTuple) and tuples."""
        subject = self.eval(node.subject)
        for case in node.cases:
            binds = {}
            if self._match(case.pattern, subject, binds, node):
                saved = {k: self.frame.env.get(k, _MISSING) for k in binds}
                self.frame.env.update(binds)
                if case.guard is None or self.truth(self.eval(case.guard)):
                    self.exec_block(case.body)
                    return
                for k, v in saved.items():
                    if v is _MISSING:
                        self.frame.env.pop(k, None)
                    else:
                        self.frame.env[k] = v

    def _match(self, pat, v, binds, node) -> bool:
        if isinstance(pat, ast.MatchAs):
            if pat.pattern is not None and not self._match(pat.pattern, v, binds, node):
                return False
            if pat.name is not None:
                binds[pat.name] = v
            return True
        if isinstance(pat, ast.MatchOr):
            for alt in pat.patterns:
                b2 = {}
                if self._match(alt, v, b2, node):
                    binds.update(b2)
                    return True
            return False
        if isinstance(pat, ast.MatchValue):
            return bool(self.truth(self.compare("Eq", v, self.eval(pat.value), node)))
        if isinstance(pat, ast.MatchSingleton):
            if pat.value is None:
                return bool(self.truth(self.compare("Is", v, Const(None), node)))
            # True / False: identity with the constant, i.e. the subject is that Boolean
            t = self.truth(v)
            return t if pat.value is True else (not t)
        if isinstance(pat, ast.MatchSequence):
            items = None
            if isinstance(v, TupleV):
                items = list(v.items)
            elif isinstance(v, Ref) and isinstance(self.deref(v), HList) and self.deref(v).concrete() and not self.deref(v).is_set:
                items = self.deref(v).values()
            elif isinstance(v, Ref) and isinstance(self.deref(v), HObj) and self._record_fields(self.deref(v).cls) is not None \
                    and self.__dict__.get("_record_kind", {}).get(self.deref(v).cls) == "namedtuple":
                items = [self.deref(v).attrs.get(nm, Const(None)) for nm, _ in self._record_fields(self.deref(v).cls)]
            if items is None:
                self.err(node, "sequence pattern on a value that is not a concrete sequence")
            if any(isinstance(p_, ast.MatchStar) for p_ in pat.patterns):
                self.err(node, "starred sequence pattern")
            return len(items) == len(pat.patterns) and all(self._match(p_, x, binds, node) for p_, x in zip(pat.patterns, items))
        if isinstance(pat, ast.MatchClass):
            o = self.deref(v) if isinstance(v, Ref) else None
            # builtin containers as class patterns without sub-patterns: dict() / list() / set() / tuple() / str() / int()
            if isinstance(pat.cls, ast.Name) and pat.cls.id in ("dict", "list", "set", "tuple", "str", "int", "bool") and not pat.patterns and not pat.kwd_attrs \
                    and (o is not None or isinstance(v, (TupleV, Const))):
                kind = pat.cls.id
                if isinstance(o, HObj):
                    return False  # (an object of the repository is none of the builtin containers; subclasses of them are not modelled as HObj)
                if isinstance(o, HDict):
                    return kind == "dict"
                if isinstance(o, HList):
                    return kind == ("set" if o.is_set else "list")
                if isinstance(v, TupleV):
                    return kind == "tuple"
                if isinstance(v, Const):
                    return {"str": str, "int": int, "bool": bool}.get(kind, ()) != () and isinstance(v.value, {"str": str, "int": int, "bool": bool}[kind]) if kind in ("str", "int", "bool") else False
            cv = self.eval(pat.cls)
            if not (isinstance(cv, ClassV) and isinstance(o, HObj)):
                self.err(node, f"class pattern {ast.unparse(pat.cls)} on {v!r}")
            if cv.qualname not in self.prog.mro(o.cls):
                return False
            fields = self._record_fields(cv.qualname) or []
            if len(pat.patterns) > len(fields):
                self.err(node, "more positional sub-patterns than fields")
            for (name, _), sub in zip(fields, pat.patterns):
                if not self._match(sub, o.attrs.get(name, Const(None)), binds, node):
                    return False
            for name, sub in zip(pat.kwd_attrs, pat.kwd_patterns):
                if not self._match(sub, self.getattr(v, name, node), binds, node):
                    return False
            return True
        self.err(node, f"unsupported pattern {type(pat).__name__}")

    def exec_Break(self, node):
        raise BreakSig()

    def exec_Continue(self, node):
        raise ContinueSig()

    def exec_With(self, node):
        self._with_items(list(node.items), node.body)

    def _with_items(self, items, body):
        from . import models as M

        if not items:
            self.exec_block(body)
            return
        item = items[0]
        cm = self.eval(item.context_expr)
        if isinstance(cm, CtxGenV):
            # @contextmanager generator: its body runs up to the yield, the with-body runs *at* the yield (an exception of the
            # body is raised there, so the generator's try/except/finally see it), the rest runs afterwards.  return / break /
            # continue of the body do not unwind the generator as exceptions: they are delivered after it has finished.
            caller = self.frame
            pending = []
            yielded = []

            def on_yield(value):
                yielded.append(1)
                if len(yielded) > 1:
                    self.err(item.context_expr, "generator-based context manager yields more than once")
                self.state.frames.append(caller)
                try:
                    if item.optional_vars is not None:
                        self.assign(item.optional_vars, value)
                    try:
                        self._with_items(items[1:], body)
                    except (ReturnSig, BreakSig, ContinueSig) as sig:
                        pending.append(sig)
                finally:
                    self.state.frames.pop()
                return Const(None)

            self.call_function(cm.fi, list(cm.args), dict(cm.kwargs), item.context_expr, force_inline=True, on_yield=on_yield)
            if not yielded:
                self.err(item.context_expr, "generator-based context manager finished without yielding")
            if pending:
                raise pending[0]
            return
        entered = M.enter_context(self, cm, item.context_expr)
        if item.optional_vars is not None:
            self.assign(item.optional_vars, entered)
        try:
            self._with_items(items[1:], body)
        finally:
            M.exit_context(self, cm, item.context_expr)

    def exec_Try(self, node):
        try:
            try:
                self.exec_block(node.body)
            except RaiseSig as r:
                handled = False
                for h in node.handlers:
                    if self.handler_matches(h, r.exc):
                        handled = True
                        self.log("except", h, exc=r.exc, handler=ast.unparse(h.type) if h.type is not None else "*")
                        if h.name:
                            self.frame.env[h.name] = r.exc
                        prev = self.frame.current_exc
                        self.frame.current_exc = r.exc
                        try:
                            self.exec_block(h.body)
                        finally:
                            self.frame.current_exc = prev
                        break
                if not handled:
                    raise
            else:
                self.exec_block(node.orelse)
        finally:
            if node.finalbody:
                self.exec_block(node.finalbody)

    def handler_matches(self, h, exc: ExcV) -> bool:
        from . import models as M

        if h.type is None:
            return True
        types = h.type.elts if isinstance(h.type, ast.Tuple) else [h.type]
        for t in types:
            tv = self.eval(t)
            tname = M.canon_exc_name(tv.name) if isinstance(tv, ExtV) else (tv.qualname if isinstance(tv, ClassV) else None)
            if tname is None:
                continue
            if M.exc_isinstance(self, exc.cls, tname):
                return True
        return False

    @staticmethod
    def _own_nodes(fnode):
        """nodes of a function body, not descending into nested definitions"""
        todo = list(fnode.body)
        while todo:
            n = todo.pop()
            yield n
            if not isinstance(n, (ast.FunctionDef, ast.AsyncFunctionDef, ast.Lambda, ast.ClassDef)):
                todo.extend(ast.iter_child_nodes(n))

    def exec_FunctionDef(self, node):
        # a nested function: a closure over the frame it is written in (called like a lambda with statements); generators,
        # decorated ones and ones that rebind outer names stay opaque callables
        plain = not node.decorator_list and all(isinstance(d, ast.Constant) for d in list(node.args.defaults) + [d for d in node.args.kw_defaults if d is not None])
        todo = list(node.body)
        while todo and plain:
            n = todo.pop()
            if isinstance(n, (ast.Nonlocal, ast.Global, ast.Await)):
                plain = False
            elif not isinstance(n, (ast.FunctionDef, ast.AsyncFunctionDef, ast.Lambda, ast.ClassDef)):
                todo.extend(ast.iter_child_nodes(n))
        if not plain:
            self.frame.env[node.name] = Sym(("localfunc", node.name))
            return
        self.__dict__.setdefault("_lambda_home", {})[(id(node), len(self.state.frames) - 1)] = self.frame.fid
        self.frame.env[node.name] = LambdaV(node, len(self.state.frames) - 1)

    def exec_ClassDef(self, node):
        self.frame.env[node.name] = Sym(("localclass", node.name))

    def eval_Starred(self, node):
        return self.eval(node.value)

    def eval_Await(self, node):
        return self.eval(node.value)
