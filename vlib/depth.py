"""Bounds of the finite instantiations, by tier.  quick: the smallest bounds at which every obligation distinguishes
the right code from each wrong variant of the self-test; thorough: one step beyond (larger universes / value ranges),
so that a rule whose extracted predicate agrees with the specification only on the small instances is exposed."""
import os

TIER = {"value": "quick"}


def set_tier(t):
    TIER["value"] = t if t in ("quick", "thorough") else "quick"


def thorough():
    return TIER["value"] == "thorough" or os.environ.get("VERIF_TIER") == "thorough"


def card_range():
    """values of a minimum cardinality / layer index / last-layer size"""
    return range(5) if thorough() else range(3)


def universe():
    """elements of the universe the set families of the subset test are drawn from"""
    return (1, 2, 3) if thorough() else (1, 2)
