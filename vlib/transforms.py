"""Whole-tree behaviour-preserving rewrites used by the self-test (must-stay-silent at scale)."""
import ast
import builtins
import glob
import os

class Ren(ast.NodeTransformer):
    def __init__(self, mapping): self.m=mapping
    def visit_Name(self, n):
        if n.id in self.m: n.id=self.m[n.id]
        return n
    def visit_FunctionDef(self, n): return n   # nested defs handled separately
    visit_AsyncFunctionDef=visit_FunctionDef
    def visit_Lambda(self, n): return self.generic_visit(n)
def locals_of(fn):
    params={a.arg for a in fn.args.posonlyargs+fn.args.args+fn.args.kwonlyargs}
    if fn.args.vararg: params.add(fn.args.vararg.arg)
    if fn.args.kwarg: params.add(fn.args.kwarg.arg)
    assigned=set(); skip=set()
    for node in ast.walk(fn):
        if isinstance(node,(ast.Global,ast.Nonlocal)): skip|=set(node.names)
    def walk(n, top=True):
        for c in ast.iter_child_nodes(n):
            if isinstance(c,(ast.FunctionDef,ast.AsyncFunctionDef,ast.ClassDef)):
                continue
            if isinstance(c,ast.Name) and isinstance(c.ctx,ast.Store): assigned.add(c.id)
            if isinstance(c,(ast.Import,ast.ImportFrom)):
                for a in c.names: skip.add((a.asname or a.name).split('.')[0])
            walk(c,False)
    walk(fn)
    return {x for x in assigned-params-skip if not x.startswith('__') and not hasattr(builtins,x)}
def process(fn):
    loc=locals_of(fn)
    # do not rename names also used by nested functions (closures)
    nested=set()
    for c in ast.walk(fn):
        if c is not fn and isinstance(c,(ast.FunctionDef,ast.AsyncFunctionDef,ast.Lambda)):
            for n in ast.walk(c):
                if isinstance(n,ast.Name): nested.add(n.id)
    loc-=nested
    m={x: x+"_r" for x in loc}
    r=Ren(m)
    fn.body=[r.visit(s) for s in fn.body]
    for s in fn.body:
        for c in ast.walk(s):
            if isinstance(c,(ast.FunctionDef,ast.AsyncFunctionDef)): process(c)


def hand_written_files(root):
    return sorted(glob.glob(os.path.join(root, "inference", "*.py"))) + [os.path.join(root, "parser", "Wrappers.py"), os.path.join(root, "parser", "myVisitor.py")]


def alpha_rename(root):
    """Rename every local variable of every function (x -> x_r): no rule may depend on a local's name."""
    for f in hand_written_files(root):
        t = ast.parse(open(f).read())
        for node in ast.walk(t):
            if isinstance(node, ast.ClassDef):
                for s in node.body:
                    if isinstance(s, (ast.FunctionDef, ast.AsyncFunctionDef)):
                        process(s)
        for s in t.body:
            if isinstance(s, (ast.FunctionDef, ast.AsyncFunctionDef)):
                process(s)
        open(f, "w").write(ast.unparse(t) + "\n")


def ast_roundtrip(root):
    for f in hand_written_files(root):
        text = ast.unparse(ast.parse(open(f).read())) + "\n"
        open(f, "w").write(text)


class _CompStmt(ast.NodeTransformer):
    """`[f(x) for x in xs if c]` used as a statement -> explicit loops."""

    def visit_Expr(self, node):
        v = node.value
        if isinstance(v, ast.ListComp):
            body = [ast.Expr(value=v.elt)]
            for gen in reversed(v.generators):
                for cond in reversed(gen.ifs):
                    body = [ast.If(test=cond, body=body, orelse=[])]
                body = [ast.For(target=gen.target, iter=gen.iter, body=body, orelse=[])]
            return [ast.fix_missing_locations(ast.copy_location(b, node)) for b in body]
        return node


class _SwapBranches(ast.NodeTransformer):
    """`if c: A else: B` (no elif chain) -> `if not c: B else: A`."""

    def visit_If(self, node):
        self.generic_visit(node)
        if node.orelse and not (len(node.orelse) == 1 and isinstance(node.orelse[0], ast.If)):
            return ast.copy_location(ast.If(test=ast.UnaryOp(op=ast.Not(), operand=node.test), body=node.orelse, orelse=node.body), node)
        return node


class _NoneTests(ast.NodeTransformer):
    """`x == None` / `x != None` <-> `x is None` / `x is not None` (both directions flipped)."""

    def visit_Compare(self, node):
        self.generic_visit(node)
        if len(node.ops) == 1 and isinstance(node.comparators[0], ast.Constant) and node.comparators[0].value is None:
            flip = {ast.Eq: ast.Is, ast.NotEq: ast.IsNot, ast.Is: ast.Eq, ast.IsNot: ast.NotEq}
            for k, v in flip.items():
                if isinstance(node.ops[0], k):
                    node.ops = [v()]
                    break
        return node


class _ExpandAug(ast.NodeTransformer):
    """`x += e` on a plain name -> `x = x + e`."""

    def visit_AugAssign(self, node):
        if isinstance(node.target, ast.Name):
            return ast.copy_location(ast.Assign(targets=[ast.Name(id=node.target.id, ctx=ast.Store())],
                                                value=ast.BinOp(left=ast.Name(id=node.target.id, ctx=ast.Load()), op=node.op, right=node.value)), node)
        return node


def _apply(root, transformer):
    for f in hand_written_files(root):
        t = transformer().visit(ast.parse(open(f).read()))
        ast.fix_missing_locations(t)
        text = ast.unparse(t) + "\n"
        open(f, "w").write(text)


def comprehension_statements(root):
    _apply(root, _CompStmt)


def swap_branches(root):
    _apply(root, _SwapBranches)


def none_tests(root):
    _apply(root, _NoneTests)


def expand_augassign(root):
    _apply(root, _ExpandAug)


ALL = {"ast_unparse": ast_roundtrip, "alpha_rename": alpha_rename, "comprehension_statements": comprehension_statements,
       "swap_branches": swap_branches, "none_tests": none_tests, "expand_augassign": expand_augassign}


class _FlipCompare(ast.NodeTransformer):
    """`a < b` -> `b > a` etc. (single-operator order comparisons)."""

    def visit_Compare(self, node):
        self.generic_visit(node)
        flip = {ast.Lt: ast.Gt, ast.Gt: ast.Lt, ast.LtE: ast.GtE, ast.GtE: ast.LtE}
        if len(node.ops) == 1 and type(node.ops[0]) in flip:
            return ast.copy_location(ast.Compare(left=node.comparators[0], ops=[flip[type(node.ops[0])]()], comparators=[node.left]), node)
        return node


class _ElseAfterReturn(ast.NodeTransformer):
    """`if c: ...return` followed by more statements -> the rest moves into an else branch."""

    def _block(self, stmts):
        out = []
        for i, st in enumerate(stmts):
            if isinstance(st, ast.If) and not st.orelse and st.body and isinstance(st.body[-1], (ast.Return, ast.Raise, ast.Continue, ast.Break)) and i + 1 < len(stmts) \
                    and not any(isinstance(x, (ast.FunctionDef, ast.ClassDef)) for x in stmts[i + 1:]):
                st.orelse = self._block(stmts[i + 1:])
                out.append(st)
                return out
            out.append(st)
        return out

    def generic_visit(self, node):
        super().generic_visit(node)
        for field in ("body", "orelse", "finalbody"):
            v = getattr(node, field, None)
            if isinstance(v, list) and v and all(isinstance(x, ast.stmt) for x in v):
                setattr(node, field, self._block(v))
        return node


def flip_comparisons(root):
    _apply(root, _FlipCompare)


def else_after_return(root):
    _apply(root, _ElseAfterReturn)


ALL.update({"flip_comparisons": flip_comparisons, "else_after_return": else_after_return})


class _TempReturn(ast.NodeTransformer):
    """`return <expr>` (not a bare name / constant) -> `_ret = <expr>; return _ret`."""

    def visit_Lambda(self, node):
        return node

    def visit_Return(self, node):
        if node.value is None or isinstance(node.value, (ast.Name, ast.Constant)):
            return node
        if any(isinstance(n, (ast.Yield, ast.YieldFrom, ast.Await)) for n in ast.walk(node.value)):
            return node
        a = ast.copy_location(ast.Assign(targets=[ast.Name(id="_ret", ctx=ast.Store())], value=node.value), node)
        r = ast.copy_location(ast.Return(value=ast.Name(id="_ret", ctx=ast.Load())), node)
        return [a, r]


class _TernaryToIf(ast.NodeTransformer):
    """`x = a if c else b` (single plain-name target) -> `if c: x = a` / `else: x = b`."""

    def visit_Assign(self, node):
        if len(node.targets) == 1 and isinstance(node.targets[0], ast.Name) and isinstance(node.value, ast.IfExp):
            t = node.targets[0].id
            mk = lambda v: ast.copy_location(ast.Assign(targets=[ast.Name(id=t, ctx=ast.Store())], value=v), node)
            return ast.copy_location(ast.If(test=node.value.test, body=[mk(node.value.body)], orelse=[mk(node.value.orelse)]), node)
        return node


class _NameCondition(ast.NodeTransformer):
    """`if <call or comparison>:` (no elif, not inside a loop header) -> `_cond = <test>` / `if _cond:`."""

    def visit_If(self, node):
        self.generic_visit(node)
        if isinstance(node.test, (ast.Compare, ast.Call, ast.BoolOp)) and not any(isinstance(n, (ast.NamedExpr, ast.Yield, ast.Await)) for n in ast.walk(node.test)):
            a = ast.copy_location(ast.Assign(targets=[ast.Name(id="_cond", ctx=ast.Store())], value=node.test), node)
            node.test = ast.copy_location(ast.Name(id="_cond", ctx=ast.Load()), node)
            return [a, node]
        return node


class _ListCompToLoop(ast.NodeTransformer):
    """`x = [e for v in xs if c]` (one generator, plain-name target, target not read by the comprehension) -> explicit loop with append."""

    def visit_Assign(self, node):
        v = node.value
        if len(node.targets) == 1 and isinstance(node.targets[0], ast.Name) and isinstance(v, ast.ListComp) and len(v.generators) == 1 and not v.generators[0].is_async:
            t = node.targets[0].id
            if any(isinstance(n, ast.Name) and n.id == t for n in ast.walk(v)):
                return node
            g = v.generators[0]
            body = ast.Expr(value=ast.Call(func=ast.Attribute(value=ast.Name(id=t, ctx=ast.Load()), attr="append", ctx=ast.Load()), args=[v.elt], keywords=[]))
            for c in reversed(g.ifs):
                body = ast.If(test=c, body=[body], orelse=[])
            init = ast.copy_location(ast.Assign(targets=[ast.Name(id=t, ctx=ast.Store())], value=ast.List(elts=[], ctx=ast.Load())), node)
            loop = ast.copy_location(ast.For(target=g.target, iter=g.iter, body=[body], orelse=[]), node)
            return [init, loop]
        return node


def temp_return(root):
    _apply(root, _TempReturn)


def ternary_to_if(root):
    _apply(root, _TernaryToIf)


def name_condition(root):
    _apply(root, _NameCondition)


def listcomp_to_loop(root):
    _apply(root, _ListCompToLoop)


ALL.update({"temp_return": temp_return, "ternary_to_if": ternary_to_if, "name_condition": name_condition, "listcomp_to_loop": listcomp_to_loop})
