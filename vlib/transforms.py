"""Whole-tree behaviour-preserving rewrites used by the self-test (must-stay-silent at scale)."""
import ast
import builtins
import glob
import os

class Ren(ast.NodeTransformer):
    def __init__(self, mapping): self.m=mapping
    def visit_Name(self, n):
        if n.id in self.m: n.id=self.m[n.id]
        return n
    def visit_FunctionDef(self, n): return n   # nested defs handled separately
    visit_AsyncFunctionDef=visit_FunctionDef
    def visit_Lambda(self, n): return self.generic_visit(n)
def locals_of(fn):
    params={a.arg for a in fn.args.posonlyargs+fn.args.args+fn.args.kwonlyargs}
    if fn.args.vararg: params.add(fn.args.vararg.arg)
    if fn.args.kwarg: params.add(fn.args.kwarg.arg)
    assigned=set(); skip=set()
    for node in ast.walk(fn):
        if isinstance(node,(ast.Global,ast.Nonlocal)): skip|=set(node.names)
    def walk(n, top=True):
        for c in ast.iter_child_nodes(n):
            if isinstance(c,(ast.FunctionDef,ast.AsyncFunctionDef,ast.ClassDef)):
                continue
            if isinstance(c,ast.Name) and isinstance(c.ctx,ast.Store): assigned.add(c.id)
            if isinstance(c,(ast.Import,ast.ImportFrom)):
                for a in c.names: skip.add((a.asname or a.name).split('.')[0])
            walk(c,False)
    walk(fn)
    return {x for x in assigned-params-skip if not x.startswith('__') and not hasattr(builtins,x)}
def process(fn):
    loc=locals_of(fn)
    # do not rename names also used by nested functions (closures)
    nested=set()
    for c in ast.walk(fn):
        if c is not fn and isinstance(c,(ast.FunctionDef,ast.AsyncFunctionDef,ast.Lambda)):
            for n in ast.walk(c):
                if isinstance(n,ast.Name): nested.add(n.id)
    loc-=nested
    m={x: x+"_r" for x in loc}
    r=Ren(m)
    fn.body=[r.visit(s) for s in fn.body]
    for s in fn.body:
        for c in ast.walk(s):
            if isinstance(c,(ast.FunctionDef,ast.AsyncFunctionDef)): process(c)


def hand_written_files(root):
    return sorted(glob.glob(os.path.join(root, "inference", "*.py"))) + [os.path.join(root, "parser", "Wrappers.py"), os.path.join(root, "parser", "myVisitor.py")]


def alpha_rename(root):
    """Rename every local variable of every function (x -> x_r): no rule may depend on a local's name."""
    for f in hand_written_files(root):
        t = ast.parse(open(f).read())
        for node in ast.walk(t):
            if isinstance(node, ast.ClassDef):
                for s in node.body:
                    if isinstance(s, (ast.FunctionDef, ast.AsyncFunctionDef)):
                        process(s)
        for s in t.body:
            if isinstance(s, (ast.FunctionDef, ast.AsyncFunctionDef)):
                process(s)
        open(f, "w").write(ast.unparse(t) + "\n")


def ast_roundtrip(root):
    for f in hand_written_files(root):
        text = ast.unparse(ast.parse(open(f).read())) + "\n"
        open(f, "w").write(text)
