"""Semantics tables for the external APIs the repository calls (the trusted base of E2) and for builtins.

pysmt: And/Or/Not/Implies/Iff/Bool/TRUE/FALSE/Symbol/Int/Plus/GE/GT/LE/LT, Solver.push/pop/add_assertion/solve,
       is_sat/is_unsat, converter.convert (identity on meaning)
z3:    And/Or/Not/BoolVal/Bool/Int, `e == False` on expressions, Solver/Optimize add/add_soft/push/pop/check/model,
       Tactic('tseitin-cnf') preserving satisfiability per assignment of the original atoms
pysat: WCNF.append/copy, RC2.compute/cost/add_clause, IDPool.id
"""
from __future__ import annotations

import ast

from . import formula as F
from .front import AnalysisError
from .absvals import (Const, Sym, PredV, FormulaV, LinV, Ref, TupleV, ElemV, FuncV, ClassV, ExtV, MethV, NameV, ExcV, GenV,
                      LambdaV, HList, HDict, HObj, HSolver, HWcnf, HOpaque, desc, pred_not, pred_and, pred_or, PTRUE,
                      PFALSE)

EXTERNAL = {}

COND_CLASS = "inference.conditional.Conditional"


def canonical_ext(name: str) -> str:
    # `from z3 import z3` then z3.Optimize  ->  z3.z3.Optimize
    while name.startswith("z3.z3."):
        name = "z3." + name[6:]
    if name == "z3.z3":
        return "z3"
    return name


def ext(name):
    def deco(fn):
        EXTERNAL[name] = fn
        return fn

    return deco


EXC_PARENTS = {
    "TimeoutError": "OSError", "OSError": "Exception", "FileNotFoundError": "OSError", "PermissionError": "OSError",
    "KeyError": "LookupError", "IndexError": "LookupError", "LookupError": "Exception", "ValueError": "Exception",
    "TypeError": "Exception", "AttributeError": "Exception", "AssertionError": "Exception",
    "RuntimeError": "Exception", "NotImplementedError": "RuntimeError", "Exception": "BaseException",
    "PicklingError": "PickleError", "PickleError": "Exception", "ZeroDivisionError": "ArithmeticError",
    "ArithmeticError": "Exception", "Z3Exception": "Exception", "StopIteration": "Exception",
    "JSONDecodeError": "ValueError", "UnicodeDecodeError": "ValueError", "RecursionError": "RuntimeError",
    "IOError": "Exception", "EOFError": "Exception", "UnpicklingError": "PickleError",
}


_BUILTIN_ALIAS_MODULES = ("builtins", "asyncio", "asyncio.exceptions", "concurrent.futures", "concurrent.futures._base", "socket")


def canon_exc_name(dotted: str) -> str:
    """Name under which an exception class from outside the repository is compared: the bare name for builtins (and their
    documented aliases), `ext:<dotted>` for a class of another module that merely shares its name with a builtin
    (multiprocessing.TimeoutError is not TimeoutError: a handler for one does not catch the other)."""
    import builtins as _b

    mod, _, name = dotted.rpartition(".")
    if mod and mod not in _BUILTIN_ALIAS_MODULES and isinstance(getattr(_b, name, None), type) and issubclass(getattr(_b, name), BaseException):
        return "ext:" + dotted
    return name


def exc_isinstance(interp, cls: str, handler: str) -> bool:
    c = cls if cls.startswith("ext:") else (cls.rsplit(".", 1)[-1] if cls not in interp.prog.classes else cls)
    h = handler if handler.startswith("ext:") else (handler.rsplit(".", 1)[-1] if handler not in interp.prog.classes else handler)
    if cls in interp.prog.classes:
        for b in interp.prog.mro(cls):
            bn = b.rsplit(".", 1)[-1]
            if b == handler or bn == h:
                return True
            if bn in EXC_PARENTS and exc_isinstance(interp, bn, handler):
                return True
        return h in ("Exception", "BaseException")
    if h == "IOError":
        h = "OSError"
    seen = set()
    while c and c not in seen:
        if c == h:
            return True
        seen.add(c)
        c = EXC_PARENTS.get(c, "Exception" if c not in ("BaseException", "Exception") else ("BaseException" if c == "Exception" else None))
    return False


# ----------------------------------------------------------------------------------------------
# formula helpers
# ----------------------------------------------------------------------------------------------
def as_formula(interp, v, node, backend="?"):
    if isinstance(v, FormulaV):
        return v.f
    if isinstance(v, Const) and isinstance(v.value, bool):
        return ("const", v.value)
    if isinstance(v, PredV) and v.p[0] == "formula":
        return v.p[1]
    if isinstance(v, Sym):
        return ("opaque", v.label)
    if isinstance(v, ElemV):
        return ("opaque", desc(v))
    return ("opaque", desc(v))


def formula_args(interp, args, node):
    """Arguments of an n-ary junction: formulas, or one list of formulas (possibly symbolic)."""
    out = []
    for a in args:
        if isinstance(a, tuple) and a and a[0] == "star":
            a = a[1]
        if isinstance(a, Ref) and isinstance(interp.deref(a), HList):
            for s in interp.deref(a).segs:
                out.append(seg_to_formula(interp, s, node))
        elif isinstance(a, TupleV):
            out.extend(("f", as_formula(interp, i, node)) for i in a.items)
        else:
            out.append(("f", as_formula(interp, a, node)))
    return out


def seg_to_formula(interp, s, node):
    if s[0] == "one":
        return ("f", as_formula(interp, s[1], node))
    if s[0] == "each":
        return ("each", s[1], s[2], s[3], ("f", as_formula(interp, s[4], node)))
    if s[0] == "each*":
        return ("each", s[1], s[2], s[3], seg_to_formula(interp, s[4], node))
    return ("f", ("opaque", s))


def junction(kind, items):
    fs = []
    for it in items:
        fs.append(item_formula(kind, it))
    if len(fs) == 1 and items[0][0] == "f":
        # And([x]) == x
        return fs[0]
    return ("and", tuple(fs)) if kind == "and" else ("or", tuple(fs))


def item_formula(kind, it):
    if it[0] == "f":
        return it[1]
    if it[0] == "each":
        return ("big", kind, it[1], it[2], it[3], item_formula(kind, it[4]))
    return ("opaque", it)


def backend_of(args):
    for a in args:
        if isinstance(a, FormulaV) and a.backend != "?":
            return a.backend
    return "?"


def _mk(kind):
    def h(interp, args, kwargs, node):
        return FormulaV(junction(kind, formula_args(interp, args, node)), kind_backend(h))

    return h


def kind_backend(h):
    return getattr(h, "backend", "?")


for _mod, _be in (("pysmt.shortcuts", "pysmt"), ("z3", "z3")):
    for _name, _kind in (("And", "and"), ("Or", "or")):
        def _h(interp, args, kwargs, node, _kind=_kind, _be=_be):
            return FormulaV(junction(_kind, formula_args(interp, args, node)), _be)

        EXTERNAL[f"{_mod}.{_name}"] = _h

    def _hn(interp, args, kwargs, node, _be=_be):
        return FormulaV(F.mk_not(as_formula(interp, args[0], node)), _be)

    EXTERNAL[f"{_mod}.Not"] = _hn

    def _hi(interp, args, kwargs, node, _be=_be):
        return FormulaV(("implies", as_formula(interp, args[0], node), as_formula(interp, args[1], node)), _be)

    EXTERNAL[f"{_mod}.Implies"] = _hi


@ext("pysmt.shortcuts.Iff")
def _iff(interp, args, kwargs, node):
    return FormulaV(("iff", as_formula(interp, args[0], node), as_formula(interp, args[1], node)), "pysmt")


@ext("pysmt.shortcuts.Bool")
def _bool(interp, args, kwargs, node):
    v = args[0]
    if isinstance(v, Const):
        return FormulaV(("const", bool(v.value)), "pysmt")
    if isinstance(v, PredV):
        # the constant of a test: one constant per outcome of the test (already decided on this path, or decided here)
        return FormulaV(("const", bool(interp.decide_pred(v.p))), "pysmt")
    return FormulaV(("opaque", ("Bool", desc(v))), "pysmt")


@ext("z3.BoolVal")
def _boolval(interp, args, kwargs, node):
    v = args[0]
    if isinstance(v, Const):
        return FormulaV(("const", bool(v.value)), "z3")
    return FormulaV(("opaque", ("BoolVal", desc(v))), "z3")


@ext("pysmt.shortcuts.TRUE")
def _true(interp, args, kwargs, node):
    return FormulaV(F.TRUE, "pysmt")


@ext("pysmt.shortcuts.FALSE")
def _false(interp, args, kwargs, node):
    return FormulaV(F.FALSE, "pysmt")


def name_desc(v):
    if isinstance(v, Const):
        return ("c", v.value)
    if isinstance(v, NameV):
        return ("name", v.parts)
    return desc(v)


@ext("pysmt.shortcuts.Symbol")
def _symbol(interp, args, kwargs, node):
    name = args[0]
    typ = args[1] if len(args) > 1 else kwargs.get("typename")
    is_int = isinstance(typ, ExtV) and typ.name.endswith(".INT")
    if is_int:
        return LinV(F.lin_term(("isym", name_desc(name))), "term")
    return FormulaV(("atom", ("name", name_desc(name)), "v"), "pysmt")


@ext("z3.Bool")
def _z3bool(interp, args, kwargs, node):
    return FormulaV(("atom", ("name", name_desc(args[0])), "v"), "z3")


@ext("z3.Int")
def _z3int(interp, args, kwargs, node):
    return LinV(F.lin_term(("isym", name_desc(args[0]))), "term")


@ext("pysmt.shortcuts.Int")
def _int(interp, args, kwargs, node):
    v = args[0]
    lv = interp.as_lin(v)
    if lv is not None:
        return LinV(lv.lin, "term")
    return LinV(F.lin_term(("int", desc(v))), "term")


@ext("pysmt.shortcuts.Plus")
def _plus(interp, args, kwargs, node):
    total = F.lin_const(0)
    items = []
    for a in args:
        if isinstance(a, Ref) and isinstance(interp.deref(a), HList):
            items.extend(interp.deref(a).segs)
        else:
            items.append(("one", a))
    for s in items:
        if s[0] == "one":
            lv = interp.as_lin(s[1])
            if lv is None:
                lv = LinV(F.lin_term(("int", desc(s[1]))))
            total = F.lin_add(total, lv.lin)
        elif s[0] == "each":
            lv = interp.as_lin(s[4])
            body = lv.lin if lv is not None else F.lin_term(("int", desc(s[4])))
            nb = ("var", "_s")
            total = F.lin_add(total, F.lin_term(("bigsum", nb, F.subst_any(s[2], {s[1]: nb}), F.subst_any(s[3], {s[1]: nb}), F.subst_any(body, {s[1]: nb}))))
        else:
            total = F.lin_add(total, F.lin_term(("sumseg", s)))
    return LinV(total, "term")


@ext("pysmt.shortcuts.Minus")
def _minus(interp, args, kwargs, node):
    return interp.binop("Sub", args[0], args[1], node)


def _rel(op):
    def h(interp, args, kwargs, node):
        a, b = interp.as_lin(args[0]), interp.as_lin(args[1])
        if a is None:
            a = LinV(F.lin_term(("int", desc(args[0]))))
        if b is None:
            b = LinV(F.lin_term(("int", desc(args[1]))))
        return FormulaV(F.rel(a.lin, op, b.lin), "pysmt")

    return h


for _n, _op in (("GE", ">="), ("GT", ">"), ("LE", "<="), ("LT", "<"), ("Equals", "==")):
    EXTERNAL["pysmt.shortcuts." + _n] = _rel(_op)


@ext("pysmt.shortcuts.get_free_variables")
def _fv(interp, args, kwargs, node):
    b = interp.fresh_var("v")
    return interp.alloc(HList([("each", b, ("members", ("freevars", desc(args[0]))), PTRUE, ElemV(b, "fnode"))]))


# ----------------------------------------------------------------------------------------------
# solvers
# ----------------------------------------------------------------------------------------------
@ext("pysmt.shortcuts.Solver")
def _solver(interp, args, kwargs, node):
    r = interp.alloc(HSolver("pysmt"))
    interp.log("solver.new", node, obj=r, api="pysmt", name=kwargs.get("name", args[0] if args else None))
    return r


@ext("z3.Solver")
def _z3solver(interp, args, kwargs, node):
    r = interp.alloc(HSolver("z3.Solver"))
    interp.log("solver.new", node, obj=r, api="z3.Solver")
    return r


@ext("z3.Optimize")
def _z3opt(interp, args, kwargs, node):
    r = interp.alloc(HSolver("z3.Optimize"))
    interp.log("solver.new", node, obj=r, api="z3.Optimize")
    return r


def query(interp, ref, o: HSolver, node, how):
    qid = interp.fresh_id("q")
    snap = tuple(tuple(fr) for fr in o.frames)
    soft = tuple(tuple(fr) for fr in o.soft)
    interp.log("query", node, obj=ref, qid=qid, frames=snap, soft=soft, how=how, api=o.api, depth=len(o.frames),
               options=dict(o.options), objectives=tuple(o.objectives))
    return qid


def oneshot(interp, f, node, how):
    qid = interp.fresh_id("q")
    interp.log("query", node, obj=None, qid=qid, frames=((("f", f),),), soft=((),), how=how, api="pysmt", depth=1,
               options={}, objectives=())
    return qid


@ext("pysmt.shortcuts.is_sat")
def _is_sat(interp, args, kwargs, node):
    qid = oneshot(interp, as_formula(interp, args[0], node), node, "is_sat")
    return PredV(("sat", qid))


@ext("pysmt.shortcuts.is_unsat")
def _is_unsat(interp, args, kwargs, node):
    qid = oneshot(interp, as_formula(interp, args[0], node), node, "is_unsat")
    return PredV(("not", ("sat", qid)))


@ext("pysmt.shortcuts.simplify")
def _simplify(interp, args, kwargs, node):
    """pysmt's simplifier: a formula equivalent to the argument.  What the rules may use of it: if the result *is* the
    constant false (true), the argument is unsatisfiable (valid) - not the other way round (the simplifier is syntactic)."""
    f = as_formula(interp, args[0], node)
    return Sym(("simplified", ("f", f)), "fnode")


@ext("pysmt.shortcuts.is_valid")
def _is_valid(interp, args, kwargs, node):
    qid = oneshot(interp, F.mk_not(as_formula(interp, args[0], node)), node, "is_valid")
    return PredV(("not", ("sat", qid)))


def solver_method(interp, ref, o: HSolver, name, args, kwargs, node):
    if name == "push":
        o.frames.append([])
        o.soft.append([])
        interp.log("solver.push", node, obj=ref, depth=len(o.frames))
        return Const(None)
    if name == "pop":
        if len(o.frames) <= 1:
            interp.log("solver.pop-below", node, obj=ref)
            return Const(None)
        fr = o.frames.pop()
        o.soft.pop()
        interp.log("solver.pop", node, obj=ref, depth=len(o.frames), dropped=tuple(fr))
        return Const(None)
    if name == "add_assertions" and len(args) == 1:
        # pysmt: every formula of one iterable
        for sg in interp.segments(args[0], node):
            it = seg_to_formula(interp, sg, node) if sg[0] in ("one", "each", "each*") else ("each", interp.fresh_var("a"), ("members", sg[1]), PTRUE, ("f", ("opaque", ("member-of", sg[1]))))
            o.frames[-1].append(it)
            interp.log("solver.assert", node, obj=ref, item=it, depth=len(o.frames))
        return Const(None)
    if name in ("add_assertion", "add", "assert_exprs", "append", "insert"):
        for it in formula_args(interp, args, node):
            o.frames[-1].append(it)
            interp.log("solver.assert", node, obj=ref, item=it, depth=len(o.frames))
        return Const(None)
    if name == "add_soft":
        it = ("f", as_formula(interp, args[0], node))
        w = args[1] if len(args) > 1 else kwargs.get("weight", Const(1))
        o.soft[-1].append(("soft", it, desc(w), desc(kwargs.get("id")) if "id" in kwargs else None))
        interp.log("solver.soft", node, obj=ref, item=it, weight=w, id=kwargs.get("id"))
        return Sym(("softhandle", ref.oid))
    if name == "minimize" or name == "maximize":
        o.objectives.append((name, desc(args[0])))
        interp.log("solver.objective", node, obj=ref, how=name, term=args[0])
        return Sym(("objective", ref.oid))
    if name == "set":
        for k, v in kwargs.items():
            o.options[k] = v
        if args:
            o.options[desc(args[0])] = args[1] if len(args) > 1 else None
        interp.log("solver.set", node, obj=ref, options=dict(kwargs), args=tuple(args))
        return Const(None)
    if name == "solve":
        qid = query(interp, ref, o, node, "solve")
        return PredV(("sat", qid))
    if name == "check":
        extra = formula_args(interp, args, node)
        if extra:
            o.frames.append(list(extra))
            qid = query(interp, ref, o, node, "check")
            o.frames.pop()
        else:
            qid = query(interp, ref, o, node, "check")
        return ElemV(("check", qid), "check")
    if name in ("model", "get_model"):
        last = None
        for ev in reversed(interp.ctx.events):
            if ev.kind == "query" and ev.data.get("obj") == ref:
                last = ev.data["qid"]
                break
        interp.log("solver.model", node, obj=ref, qid=last)
        return ElemV(("model", last if last is not None else ("of", ref.oid)), "model")
    if name in ("exit", "__exit__", "delete", "reset"):
        interp.log("solver.close", node, obj=ref)
        return Const(None)
    if name == "assertions":
        return interp.alloc(HList([("sym", ("assertions", ref.oid))]))
    interp.log("solver.other", node, obj=ref, method=name, args=tuple(args))
    return Sym(("solvercall", ref.oid, name))


# ----------------------------------------------------------------------------------------------
# pysat
# ----------------------------------------------------------------------------------------------
@ext("pysat.formula.WCNF")
def _wcnf(interp, args, kwargs, node):
    r = interp.alloc(HWcnf())
    interp.log("wcnf.new", node, obj=r)
    return r


def clause_item(interp, v, node):
    """A clause handed to WCNF.append / RC2.add_clause as an abstract item."""
    if isinstance(v, ElemV) and v.role == "clause":
        return ("clause", v.var)
    if isinstance(v, Ref) and isinstance(interp.deref(v), HList):
        return ("lits", interp.list_desc(interp.deref(v)))
    return ("clause?", desc(v))


def wcnf_method(interp, ref, o: HWcnf, name, args, kwargs, node):
    if name == "append":
        it = clause_item(interp, args[0], node)
        w = args[1] if len(args) > 1 else kwargs.get("weight")
        if w is None or (isinstance(w, Const) and w.value is None):
            o.hard.append(it)
            interp.log("wcnf.hard", node, obj=ref, item=it)
        else:
            o.soft.append(("w", it, desc(w)))
            interp.log("wcnf.soft", node, obj=ref, item=it, weight=w)
        return Const(None)
    if name == "extend":
        ws = args[1] if len(args) > 1 else kwargs.get("weights")
        w = None
        if ws is not None and not (isinstance(ws, Const) and ws.value is None):
            # soft clauses: one weight per clause; read only when all weights are one and the same constant
            wsegs = interp.segments(ws, node)
            wvals = {desc(sg[1]) if sg[0] == "one" else (desc(sg[4]) if sg[0] == "each" else None) for sg in wsegs}
            if len(wvals) != 1 or None in wvals or not (isinstance(next(iter(wvals)), tuple) and next(iter(wvals))[:1] == ("c",)):
                interp.err(node, "WCNF.extend with weights the analysis cannot read as one constant per clause")
            w = next(iter(wvals))
        for s in interp.segments(args[0], node):
            if s[0] == "one":
                it = clause_item(interp, s[1], node)
            elif s[0] == "each":
                it = ("each", s[1], s[2], s[3], clause_item(interp, s[4], node) if w is None else ("w", clause_item(interp, s[4], node), w))
            elif s[0] == "each*" and isinstance(s[4], tuple) and s[4][:1] == ("each",):
                # the clauses of the CNFs of a family (a flattened sequence of sequences): what the nested loops would append
                inner = s[4]
                ci = clause_item(interp, inner[4], node)
                it = ("each", s[1], s[2], s[3], ("each", inner[1], inner[2], inner[3], ci if w is None else ("w", ci, w)))
                if w is None:
                    o.hard.append(it)
                    interp.log("wcnf.hard", node, obj=ref, item=it)
                else:
                    o.soft.append(it)
                    interp.log("wcnf.soft", node, obj=ref, item=it, weight=w)
                continue
            else:
                interp.err(node, "WCNF.extend with a sequence of unknown members")
            if w is None:
                o.hard.append(it)
                interp.log("wcnf.hard", node, obj=ref, item=it)
            else:
                it = it if s[0] == "each" else ("w", it, w)
                o.soft.append(it)
                interp.log("wcnf.soft", node, obj=ref, item=it, weight=w)
        return Const(None)
    if name == "copy":
        r = interp.alloc(HWcnf(o.hard, o.soft))
        interp.log("wcnf.copy", node, src=ref, dst=r)
        return r
    interp.log("wcnf.other", node, obj=ref, method=name)
    return Sym(("wcnfcall", ref.oid, name))


@ext("pysat.examples.rc2.RC2")
def _rc2(interp, args, kwargs, node):
    w = args[0]
    snap = interp.snapshot(w)
    r = interp.alloc(HOpaque("RC2", {"wcnf": w, "solver": kwargs.get("solver", Const("g3"))}))
    interp.log("rc2.new", node, obj=r, wcnf=w, snap=snap, solver=kwargs.get("solver"), kwargs=dict(kwargs))
    return r


@ext("pysat.card.IDPool")
def _idpool(interp, args, kwargs, node):
    r = interp.alloc(HOpaque("IDPool"))
    interp.log("pool.new", node, obj=r)
    return r


# ----------------------------------------------------------------------------------------------
# z3 misc
# ----------------------------------------------------------------------------------------------
@ext("z3.is_true")
def _is_true(interp, args, kwargs, node):
    v = args[0]
    if isinstance(v, ElemV) and v.role == "modelval":
        return PredV(("modeltrue",) + v.var[1:])
    if isinstance(v, FormulaV):
        if v.f == F.TRUE:
            return Const(True)
        if v.f == F.FALSE:
            return Const(False)
        return PredV(("is_true", ("f", v.f)))
    return PredV(("is_true", desc(v)))


@ext("z3.is_false")
def _is_false(interp, args, kwargs, node):
    v = args[0]
    if isinstance(v, ElemV) and v.role == "modelval":
        return PredV(("modelfalse",) + v.var[1:])
    if isinstance(v, FormulaV):
        if v.f == F.FALSE:
            return Const(True)
        if v.f == F.TRUE:
            return Const(False)
        return PredV(("is_false", ("f", v.f)))
    return PredV(("is_false", desc(v)))


@ext("z3.is_not")
def _is_not(interp, args, kwargs, node):
    return PredV(("z3kind", "not", desc(args[0])))


@ext("z3.is_or")
def _is_or(interp, args, kwargs, node):
    return PredV(("z3kind", "or", desc(args[0])))


@ext("z3.is_and")
def _is_and(interp, args, kwargs, node):
    return PredV(("z3kind", "and", desc(args[0])))


@ext("z3.is_int_value")
def _is_int_value(interp, args, kwargs, node):
    return PredV(("z3kind", "intvalue", desc(args[0])))


@ext("z3.Tactic")
def _tactic(interp, args, kwargs, node):
    return ExtV("z3.tactic:" + (str(args[0].value) if isinstance(args[0], Const) else "?"))


@ext("z3.tactic:tseitin-cnf")
def _tseitin(interp, args, kwargs, node):
    f = as_formula(interp, args[0], node)
    interp.log("tactic", node, tactic="tseitin-cnf", formula=f)
    # result: a sequence of goals; [0] is a goal whose clauses are a CNF of f (per assignment of f's atoms)
    return interp.new_list([ElemV(("goal", f), "goal")])


# ----------------------------------------------------------------------------------------------
# typing / builtins
# ----------------------------------------------------------------------------------------------
@ext("typing.cast")
def _cast(interp, args, kwargs, node):
    return args[1]


@ext("builtins.len")
def _len(interp, args, kwargs, node):
    v = args[0]
    if isinstance(v, Ref):
        o = interp.deref(v)
        if isinstance(o, HList):
            total = F.lin_const(0)
            if len(o.segs) == 1 and o.segs[0][0] == "each" and not (o.segs[0][3] == PTRUE and o.segs[0][2][0] == "members"):
                # one guarded family: the same key the emptiness test of this list uses (len(x) == 0 <=> not x)
                return LinV(F.lin_term(("len", interp.list_desc(o))))
            if o.is_set and any(s[0] == "sym" for s in o.segs):
                # a set built from a sequence of unknown content: duplicates may have collapsed
                return LinV(F.lin_term(("len", ("distinct", interp.list_desc(o)))))
            for s in o.segs:
                if s[0] == "one":
                    total = F.lin_add(total, F.lin_const(1))
                elif s[0] == "each" and s[3] == PTRUE and s[2][0] == "members":
                    total = F.lin_add(total, F.lin_term(("len", s[2][1])))
                else:
                    total = F.lin_add(total, F.lin_term(("count", _seg_desc(s))))
            return LinV(total)
        if isinstance(o, HDict):
            total = F.lin_const(len(o.entries))
            for e in o.each:
                if e[3] == PTRUE and e[2][0] == "members":
                    total = F.lin_add(total, F.lin_term(("len", e[2][1])))
                else:
                    total = F.lin_add(total, F.lin_term(("count", (e[1], e[2], e[3]))))
            if o.sym:
                total = F.lin_add(total, F.lin_term(("len", o.sym)))
            return LinV(total)
    if isinstance(v, TupleV):
        return Const(len(v.items))
    if isinstance(v, Const):
        try:
            return Const(len(v.value))
        except TypeError:
            pass
    if isinstance(v, ElemV):
        ov = getattr(interp, "len_override", None)
        if ov and v.var in ov:
            return ov[v.var]
        if isinstance(v.var, tuple) and len(v.var) == 2 and v.var[0] in ("argmin-len", "argmax-len"):
            sg = v.var[1]
            if sg and all(x[0] == "one" for x in sg) and len({x[1] for x in sg}) == 1:
                d = sg[0][1]  # all members have the same size
                if isinstance(d, tuple) and d[:1] == ("c",):
                    return LinV(F.lin_const(d[1]))
                if isinstance(d, tuple) and d[:1] == ("lin",):
                    return LinV(d[1])
                return LinV(F.lin_term(d))
            return LinV(F.lin_term((v.var[0][3:6], v.var[1])))  # the size of a member of least / greatest size
        return LinV(F.lin_term(("len", v.var)))
    if isinstance(v, Sym):
        lab = v.label
        if isinstance(lab, tuple) and lab[:1] == ("slice",) and len(lab) == 4 and lab[2] is None and isinstance(lab[3], tuple) and lab[3][:1] == ("c",) \
                and isinstance(lab[3][1], int) and lab[3][1] < 0 and isinstance(lab[1], tuple) and lab[1][:1] == ("elem",) and lab[1][2] == "partition":
            # all but the last n layers of the stored partition (it has at least one layer wherever an operator reads it)
            return LinV(F.lin_add(F.lin_term(("len", lab[1][1])), F.lin_const(lab[3][1])))
        return LinV(F.lin_term(("len", v.label)))
    return LinV(F.lin_term(("len", desc(v))))


def _seg_desc(s):
    if s[0] in ("each", "each*"):
        return (s[0], s[1], s[2], s[3])
    return s


@ext("builtins.range")
def _range(interp, args, kwargs, node):
    args = [Const(a.lin[1]) if isinstance(a, LinV) and F.lin_is_const(a.lin) else a for a in args]
    if all(isinstance(a, Const) for a in args):
        try:
            return interp.new_list([Const(i) for i in range(*[a.value for a in args])])
        except Exception:
            pass
    lo = interp.as_lin(args[0]) if len(args) > 1 else LinV(F.lin_const(0))
    hi = interp.as_lin(args[1] if len(args) > 1 else args[0])
    b = interp.fresh_var("i")
    rng = ("range", lo.lin if lo else desc(args[0]), hi.lin if hi else desc(args[-1]))
    return interp.alloc(HList([("each", b, ("members", rng), PTRUE, ElemV(b, "pos", fam=rng))]))


@ext("builtins.enumerate")
def _enumerate(interp, args, kwargs, node):
    start = kwargs.get("start", args[1] if len(args) > 1 else Const(0))
    if isinstance(args[0], GenV) and (args[0].wrap or any(isinstance(n, ast.While) or (isinstance(n, ast.For) and isinstance(n.iter, ast.Call) and ast.unparse(n.iter.func).rsplit(".", 1)[-1] == "count") for n in ast.walk(args[0].fi.node))):
        # a generator with an open-ended loop stays lazy: it runs as far as the loop over the pairs asks for (one whose
        # yields sit in loops over collections is read as the sequence it produces)
        return GenV(args[0].fi, args[0].args, args[0].kwargs, args[0].wrap + (("enumerate", start),))
    segs = interp.segments(args[0], node)
    src = interp.deref(args[0]) if isinstance(args[0], Ref) else None
    resorted = getattr(src, "sorted_by", None)
    out = []
    n = 0
    for s in segs:
        if s[0] == "one":
            sl = interp.as_lin(start)
            out.append(("one", TupleV((LinV(F.lin_add(sl.lin, F.lin_const(n))) if sl else Sym(("pos",)), s[1]))))
            n += 1
        elif s[0] == "each":
            sl = interp.as_lin(start)
            # the position of an element in a re-sorted sequence is not its position in the family it came from
            posfam = s[2] if resorted is None else ("sorted", s[2], resorted)
            pos = LinV(F.lin_add(F.lin_term(("pos", s[1], posfam)), F.lin_add(sl.lin, F.lin_const(n)) if sl else F.lin_const(n)))
            out.append(("each", s[1], s[2], s[3], TupleV((pos, s[4]))))
            n = n  # positions after a symbolic segment are relative to it as well
        else:
            b = interp.fresh_var("x")
            sl = interp.as_lin(start)
            pos = F.lin_add(F.lin_term(("pos", b, ("members", s[1]))), F.lin_add(sl.lin, F.lin_const(n)) if sl else F.lin_const(n))
            out.append(("each", b, ("members", s[1]), PTRUE, TupleV((LinV(pos), ElemV(b, "plain")))))
    return interp.alloc(HList(out))


def _one_shot(interp, ref):
    """An iterator object (chain, ...): what it yields can be taken once; membership tests and loops consume it."""
    interp.deref(ref).one_shot = True
    return ref


def _chain_of(interp, parts, node, name):
    out = []
    for part in parts:
        out.extend(interp.segments(part, node))
    return _one_shot(interp, interp.alloc(HList(out)))


@ext("itertools.chain.from_iterable")
def _chain_from_iterable(interp, args, kwargs, node):
    """chain.from_iterable(xss) for a sequence with known members: their elements one after the other."""
    segs = interp.segments(args[0], node)
    if all(sg[0] == "one" for sg in segs):
        return _chain_of(interp, [sg[1] for sg in segs], node, "chain.from_iterable")
    # one inner sequence per member of a family: the members' elements, as a loop extending a list would leave them
    out = []
    ok = True
    for sg in segs:
        if sg[0] == "one":
            out.extend(interp.segments(sg[1], node))
        elif sg[0] == "each" and not (isinstance(sg[4], Ref) and isinstance(interp.deref(sg[4]), HList) and interp.deref(sg[4]).is_set):
            _, evar, fam, g, inner = sg
            for s in interp.segments(inner, node):
                if s[0] == "one":
                    out.append(("each", evar, fam, g, s[1]))
                else:
                    out.append(("each*", evar, fam, g, s))
        else:
            ok = False
            break
    if ok:
        return _one_shot(interp, interp.alloc(HList(out)))
    interp.log("call.unknown", node, func=Sym(("ext", "itertools.chain.from_iterable")), args=tuple(args), kwargs=dict(kwargs))
    return Sym(("call", "itertools.chain.from_iterable", tuple(desc(a) for a in args), interp.fresh_id("c")))


@ext("itertools.chain")
def _chain(interp, args, kwargs, node):
    if any(isinstance(a, tuple) for a in args):
        interp.err(node, "itertools.chain over a symbolic argument list")
    return _chain_of(interp, list(args), node, "chain")


@ext("functools.reduce")
def _reduce(interp, args, kwargs, node):
    """reduce(f, xs[, init]) over a sequence with known members: the fold, step by step."""
    if len(args) not in (2, 3) or kwargs:
        interp.err(node, "functools.reduce with these arguments")
    segs = interp.segments(args[1], node)
    if not all(sg[0] == "one" for sg in segs):
        interp.log("call.unknown", node, func=Sym(("ext", "functools.reduce")), args=tuple(args), kwargs=dict(kwargs))
        return Sym(("call", "functools.reduce", tuple(desc(a) for a in args), interp.fresh_id("c")))
    items = [sg[1] for sg in segs]
    if len(args) == 3:
        acc = args[2]
    elif items:
        acc, items = items[0], items[1:]
    else:
        from .absint import RaiseSig
        raise RaiseSig(ExcV("TypeError", ("reduce", "empty sequence with no initial value")), node)
    for x in items:
        acc = interp.call(args[0], [acc, x], {}, node)
    return acc


@ext("functools.partial")
def _partial(interp, args, kwargs, node):
    if not args:
        interp.err(node, "functools.partial without a function")
    return Sym(("partial", args[0], tuple(args[1:]), tuple(sorted(kwargs.items()))), "callable")


@ext("operator.itemgetter")
def _itemgetter(interp, args, kwargs, node):
    return Sym(("itemgetter", tuple(args)), "callable")


@ext("operator.attrgetter")
def _attrgetter(interp, args, kwargs, node):
    return Sym(("attrgetter", tuple(args)), "callable")


@ext("operator.methodcaller")
def _methodcaller(interp, args, kwargs, node):
    return Sym(("methodcaller", args[0], tuple(args[1:]), tuple(sorted(kwargs.items()))), "callable")


def call_operator_object(interp, fv, args, kwargs, node):
    """Calling what operator.itemgetter / attrgetter / methodcaller returned."""
    kind = fv.label[0]
    x = args[0]
    if kind == "itemgetter":
        vals = [interp.subscript(x, i, node) for i in fv.label[1]]
        return vals[0] if len(vals) == 1 else TupleV(tuple(vals))
    if kind == "attrgetter":
        vals = []
        for a in fv.label[1]:
            if not (isinstance(a, Const) and isinstance(a.value, str)):
                interp.err(node, "attrgetter with a computed name")
            v = x
            for part in a.value.split("."):
                v = interp.getattr(v, part, node)
            vals.append(v)
        return vals[0] if len(vals) == 1 else TupleV(tuple(vals))
    name = fv.label[1]
    if not (isinstance(name, Const) and isinstance(name.value, str)):
        interp.err(node, "methodcaller with a computed name")
    return interp.call(interp.getattr(x, name.value, node), list(fv.label[2]), dict(fv.label[3]), node)


@ext("itertools.count")
def _count(interp, args, kwargs, node):
    start = args[0] if args else kwargs.get("start", Const(0))
    step = args[1] if len(args) > 1 else kwargs.get("step", Const(1))
    return interp.alloc(HOpaque("count", {"start": start, "step": step}))


def _is_opaque(interp, a, typ):
    return isinstance(a, Ref) and isinstance(interp.deref(a), HOpaque) and interp.deref(a).typ == typ


@ext("itertools.repeat")
def _repeat(interp, args, kwargs, node):
    if len(args) != 1 or kwargs:
        interp.err(node, "itertools.repeat with a count")
    return interp.alloc(HOpaque("repeat", {"value": args[0]}))


@ext("itertools.islice")
def _islice(interp, args, kwargs, node):
    """islice(xs, stop) / islice(xs, start, stop[, step]) of a sequence with known members and constant bounds."""
    segs = interp.segments(args[0], node)
    bounds = args[1:]
    if all(sg[0] == "one" for sg in segs) and 1 <= len(bounds) <= 3 and all(isinstance(b, Const) and (b.value is None or (isinstance(b.value, int) and not isinstance(b.value, bool) and b.value >= 0)) for b in bounds):
        import itertools as _it

        try:
            picked = list(_it.islice([sg[1] for sg in segs], *[b.value for b in bounds]))
        except ValueError:
            interp.err(node, "islice with bounds it rejects")
        return interp.new_list(picked)
    interp.log("call.unknown", node, func=Sym(("ext", "itertools.islice")), args=tuple(args), kwargs=dict(kwargs))
    return Sym(("call", "itertools.islice", tuple(desc(a) for a in args), interp.fresh_id("c")))


@ext("itertools.compress")
def _compress(interp, args, kwargs, node):
    """compress(data, selectors): the data whose selector is true - decided selector by selector for concrete sequences
    (an undecided selector forks the path like the `if` of the loop it replaces)."""
    data = interp.segments(args[0], node)
    sel = interp.segments(args[1], node)
    if all(s[0] == "one" for s in data) and all(s[0] == "one" for s in sel):
        return interp.new_list([d[1] for d, c in zip(data, sel) if interp.truth(c[1])])
    if len(data) == 1 and len(sel) == 1 and data[0][0] == "each" and sel[0][0] == "each" and data[0][2] == sel[0][2] and data[0][3] == sel[0][3] == PTRUE:
        # both enumerate one family in step: the members whose selector holds
        b = data[0][1]
        cond = interp.pred_of(interp.inst(sel[0][4], {sel[0][1]: b}))
        if cond[0] != "const":
            return interp.alloc(HList([("each", b, data[0][2], cond, data[0][4])]))
    interp.log("call.unknown", node, func=Sym(("ext", "itertools.compress")), args=tuple(args), kwargs=dict(kwargs))
    return Sym(("call", "itertools.compress", tuple(desc(a) for a in args), interp.fresh_id("c")))


@ext("operator.not_")
def _op_not(interp, args, kwargs, node):
    p = interp.pred_of(args[0])
    return Const(not p[1]) if p[0] == "const" else PredV(pred_not(p))


@ext("operator.truth")
def _op_truth(interp, args, kwargs, node):
    p = interp.pred_of(args[0])
    return Const(p[1]) if p[0] == "const" else PredV(p)


def _op_compare(name, op):
    @ext("operator." + name)
    def f(interp, args, kwargs, node, op=op):
        return interp.compare(op, args[0], args[1], node)
    return f


for _n, _o in (("eq", "Eq"), ("ne", "NotEq"), ("lt", "Lt"), ("le", "LtE"), ("gt", "Gt"), ("ge", "GtE"), ("is_", "Is"), ("is_not", "IsNot")):
    _op_compare(_n, _o)


@ext("operator.contains")
def _op_contains(interp, args, kwargs, node):
    return interp.compare("In", args[1], args[0], node)


def _op_binop(name, op):
    @ext("operator." + name)
    def f(interp, args, kwargs, node, op=op):
        return interp.binop(op, args[0], args[1], node)
    return f


for _n, _o in (("add", "Add"), ("sub", "Sub"), ("mul", "Mult"), ("floordiv", "FloorDiv"), ("truediv", "Div"), ("mod", "Mod")):
    _op_binop(_n, _o)


@ext("operator.getitem")
def _op_getitem(interp, args, kwargs, node):
    return interp.subscript(args[0], args[1], node)


def _is_count(interp, a):
    return isinstance(a, Ref) and isinstance(interp.deref(a), HOpaque) and interp.deref(a).typ == "count"


@ext("builtins.zip")
def _zip(interp, args, kwargs, node):
    if len(args) == 2 and (_is_count(interp, args[0]) != _is_count(interp, args[1])):
        # zip(count(s), xs) is enumerate(xs, s) (and zip(xs, count(s)) the same with the components swapped)
        first = _is_count(interp, args[0])
        c = interp.deref(args[0] if first else args[1])
        if not (isinstance(c.attrs.get("step"), Const) and c.attrs["step"].value == 1):
            interp.err(node, "itertools.count with a step other than 1")
        en = _enumerate(interp, [args[1] if first else args[0], c.attrs["start"]], {}, node)
        if first:
            return en
        out = []
        for sg in interp.deref(en).segs:
            if sg[0] == "one":
                out.append(("one", TupleV((sg[1].items[1], sg[1].items[0]))))
            else:
                out.append(sg[:4] + (TupleV((sg[4].items[1], sg[4].items[0])),))
        return interp.alloc(HList(out))
    lists = [interp.segments(a, node) for a in args]
    if all(all(s[0] == "one" for s in l) for l in lists):
        n = min(len(l) for l in lists) if lists else 0
        return interp.new_list([TupleV(tuple(l[i][1] for l in lists)) for i in range(n)])
    # sequences that enumerate one and the same family in step (a collection and a list built from it element by
    # element): the i-th tuple holds the values all of them have for the i-th element
    if lists and all(len(l) == 1 and l[0][0] == "each" for l in lists) and len({(l[0][2], l[0][3]) for l in lists}) == 1 \
            and not any(getattr(interp.deref(a), "sorted_by", None) for a in args if isinstance(a, Ref)):
        b0 = lists[0][0][1]
        items = [lists[0][0][4]] + [interp.inst(l[0][4], {l[0][1]: b0}) for l in lists[1:]]
        return interp.alloc(HList([("each", b0, lists[0][0][2], lists[0][0][3], TupleV(tuple(items)))]))
    b = interp.fresh_var("z")
    return interp.alloc(HList([("each", b, ("members", ("zip",) + tuple(desc(a) for a in args)), PTRUE, ElemV(b, "plain"))]))


@ext("builtins.map")
def _map(interp, args, kwargs, node):
    """map(f, xs): the sequence of f(x), element by element (evaluated where it is written, like a comprehension)."""
    if len(args) > 2:
        # several sequences: element-wise over concrete ones, an itertools.repeat(x) standing for x at every position
        reps = [a for a in args[1:] if _is_opaque(interp, a, "repeat")]
        lists = [None if _is_opaque(interp, a, "repeat") else interp.segments(a, node) for a in args[1:]]
        known = [l for l in lists if l is not None]
        if known and all(all(s[0] == "one" for s in l) for l in known):
            n = min(len(l) for l in known)
            res = []
            for i in range(n):
                row = [interp.deref(a).attrs["value"] if l is None else l[i][1] for a, l in zip(args[1:], lists)]
                res.append(interp.call(args[0], row, {}, node))
            return interp.new_list(res)
        if len(known) == 1 and reps:
            # one real sequence, the rest constant: map over that sequence with the constants filled in
            pos = [i for i, l in enumerate(lists) if l is not None][0]

            def row_of(x):
                return [x if i == pos else interp.deref(a).attrs["value"] for i, a in enumerate(args[1:])]

            out = []
            for sg in known[0]:
                if sg[0] == "one":
                    out.append(("one", interp.call(args[0], row_of(sg[1]), {}, node)))
                elif sg[0] == "each":
                    out.append(("each", sg[1], sg[2], sg[3], interp.call(args[0], row_of(sg[4]), {}, node)))
                else:
                    b = interp.fresh_var("x")
                    out.append(("each", b, ("members", sg[1]), PTRUE, interp.call(args[0], row_of(ElemV(b, "plain")), {}, node)))
            return interp.alloc(HList(out))
        interp.err(node, "map() with several sequences of unknown length")
    if len(args) != 2:
        interp.err(node, "map() without a sequence")
    fv, out = args[0], []
    for sg in interp.segments(args[1], node):
        if sg[0] == "one":
            out.append(("one", interp.call(fv, [sg[1]], {}, node)))
        elif sg[0] == "each":
            out.append(("each", sg[1], sg[2], sg[3], interp.call(fv, [sg[4]], {}, node)))
        else:
            b = interp.fresh_var("x")
            out.append(("each", b, ("members", sg[1]), PTRUE, interp.call(fv, [ElemV(b, "plain")], {}, node)))
    return interp.alloc(HList(out))


@ext("builtins.next")
def _next(interp, args, kwargs, node):
    """next(iterable[, default]) on a sequence the engine has as a value: the first element, the default for an empty one."""
    has_default = len(args) > 1
    if isinstance(args[0], GenV):
        # a generator of the repository that has not run yet: it runs up to its first yield and no further
        from .absint import _GenStop, RaiseSig
        gen = args[0]
        got = []
        wrap = interp._gen_wrapper(gen)

        def on_yield(value):
            got.append(wrap(value))
            raise _GenStop()

        try:
            interp.call_function(gen.fi, list(gen.args), dict(gen.kwargs), node, force_inline=True, on_yield=on_yield)
        except _GenStop:
            return got[0]
        if has_default:
            return args[1]
        raise RaiseSig(ExcV("StopIteration"), node)
    segs = interp.segments(args[0], node)
    if not segs:
        if has_default:
            return args[1]
        from .absint import RaiseSig
        raise RaiseSig(ExcV("StopIteration"), node)
    if segs[0][0] == "one":
        return segs[0][1]
    if segs[0][0] == "each" and len(segs) == 1:
        # a generic family: empty (default) or its first member - both outcomes are explored
        _, b, fam, g, val = segs[0]
        emp = interp.decide_pred(("empty", interp.list_desc(interp.deref(args[0]))) if isinstance(args[0], Ref) else ("empty", fam))
        if emp:
            if has_default:
                return args[1]
            from .absint import RaiseSig
            raise RaiseSig(ExcV("StopIteration"), node)
        w = interp.fresh_var("first")
        return interp.inst(val, {b: w})
    interp.err(node, "next() of a sequence whose first element the analysis cannot name")


@ext("builtins.sorted")
def _sorted(interp, args, kwargs, node):
    v = args[0]
    segs = interp.segments(v, node)
    key = kwargs.get("key")
    rev = kwargs.get("reverse")
    keyvals = None
    if isinstance(key, LambdaV):
        # what the key function returns for each (generic) element: lets a rule see *by what* the sequence is ordered
        keyvals = []
        for sg in segs:
            el = sg[1] if sg[0] == "one" else (sg[4] if sg[0] == "each" else None)
            if el is None:
                keyvals = None
                break
            try:
                keyvals.append((desc(el), desc(interp.call_lambda(key, [el], {}, node))))
            except Exception:  # noqa: BLE001 - an unreadable key function is recorded as such
                keyvals = None
                break
    interp.log("sorted", node, src=v, key=key, reverse=rev, keyvals=keyvals)
    if all(s[0] == "one" for s in segs) and all(isinstance(s[1], Const) for s in segs) and key is None:
        try:
            vals = sorted((s[1].value for s in segs), reverse=bool(rev.value) if isinstance(rev, Const) else False)
            return interp.new_list([Const(x) for x in vals])
        except TypeError:
            pass
    if key is not None and segs and all(s[0] == "one" for s in segs) and (rev is None or isinstance(rev, Const)):
        # concrete elements and a key function with concrete values: the sorted sequence itself (sorted is stable)
        try:
            kv = [interp.call(key, [s[1]], {}, node) for s in segs]
        except AnalysisError:
            kv = None
        if kv is not None and all(isinstance(k, Const) for k in kv):
            try:
                order = sorted(range(len(segs)), key=lambda i: kv[i].value, reverse=bool(rev.value) if isinstance(rev, Const) else False)
                return interp.alloc(HList([segs[i] for i in order]))
            except TypeError:
                pass
    r = interp.alloc(HList(segs))
    interp.deref(r).sorted_by = (desc(key) if key is not None else None, desc(rev) if rev is not None else None)
    return r


@ext("itertools.groupby")
def _groupby(interp, args, kwargs, node):
    """Runs of consecutive elements with equal keys, for concrete elements; anything else stays an unknown call."""
    key = args[1] if len(args) > 1 else kwargs.get("key")
    segs = interp.segments(args[0], node)
    if all(s[0] == "one" for s in segs):
        kv = [interp.call(key, [s[1]], {}, node) if key is not None else s[1] for s in segs]
        if all(isinstance(k, Const) for k in kv):
            runs = []
            for s, k in zip(segs, kv):
                if runs and runs[-1][0].value == k.value and type(runs[-1][0].value) is type(k.value):
                    runs[-1][1].append(s)
                else:
                    runs.append((k, [s]))
            return interp.alloc(HList([("one", TupleV((k, interp.alloc(HList(list(run)))))) for k, run in runs]))
    interp.log("call.unknown", node, func=Sym(("ext", "itertools.groupby")), args=tuple(args), kwargs=dict(kwargs))
    return Sym(("call", "itertools.groupby", tuple(desc(a) for a in args), interp.fresh_id("c")))


@ext("builtins.reversed")
def _reversed(interp, args, kwargs, node):
    segs = interp.segments(args[0], node)
    interp.log("reversed", node, src=args[0])
    return interp.alloc(HList(list(reversed(segs))))


def _agg(name):
    def h(interp, args, kwargs, node):
        if len(args) > 1:
            vals = [Const(a.lin[1]) if isinstance(a, LinV) and F.lin_is_const(a.lin) else a for a in args]
            if all(isinstance(a, Const) for a in vals):
                return Const((min if name == "min" else max)(a.value for a in vals))
            ls = [interp.as_lin(a) for a in vals]
            return LinV(F.lin_term((name, tuple(desc(a) for a in vals))))
        segs = interp.segments(args[0], node)
        keyf = kwargs.get("key")
        if isinstance(keyf, ExtV) and canonical_ext(keyf.name) == "builtins.len" and segs:
            # min(xs, key=len): some member of least size; all that is known of it is its size, min(len(x) for x in xs)
            dl = []
            for s_ in segs:
                if s_[0] == "one":
                    dl.append(("one", desc(_len(interp, [s_[1]], {}, node))))
                elif s_[0] == "each":
                    dl.append(("each", s_[1], s_[2], s_[3], desc(_len(interp, [s_[4]], {}, node))))
                else:
                    dl = None
                    break
            if dl is not None:
                interp.log("aggregate", node, how=name + "-by-len", segs=tuple(dl), default=kwargs.get("default"))
                return ElemV((f"arg{name}-len", tuple(dl)), "set")
        if all(s[0] == "one" for s in segs) and segs and all(isinstance(s[1], Const) for s in segs):
            return Const((min if name == "min" else max)(s[1].value for s in segs))
        if not segs and "default" in kwargs:
            return kwargs["default"]
        if segs and all(s[0] == "one" for s in segs) and len({desc(s[1]) for s in segs}) == 1:
            return segs[0][1]
        dsegs = []
        for s in segs:
            if s[0] == "one":
                dsegs.append(("one", desc(s[1])))
            elif s[0] == "each":
                dsegs.append(("each", s[1], s[2], s[3], desc(s[4])))
            else:
                dsegs.append(s)
        extra = (("default", desc(kwargs["default"])),) if "default" in kwargs else ()
        interp.log("aggregate", node, how=name, segs=tuple(dsegs), default=kwargs.get("default"))
        return LinV(F.lin_term((name, tuple(dsegs)) + extra))

    return h


EXTERNAL["builtins.min"] = _agg("min")
EXTERNAL["builtins.max"] = _agg("max")


@ext("builtins.sum")
def _sum(interp, args, kwargs, node):
    segs = interp.segments(args[0], node)
    total = F.lin_const(0)
    for s in segs:
        if s[0] == "one":
            lv = interp.as_lin(s[1])
            total = F.lin_add(total, lv.lin if lv else F.lin_term(("int", desc(s[1]))))
        elif s[0] == "each":
            lv = interp.as_lin(s[4])
            total = F.lin_add(total, F.lin_term(("bigsum", s[1], s[2], s[3], lv.lin if lv else desc(s[4]))))
        else:
            total = F.lin_add(total, F.lin_term(("sumseg", s)))
    return LinV(total)


def _quant(kind):
    def h(interp, args, kwargs, node):
        segs = interp.segments(args[0], node)
        ps = []
        for s in segs:
            if s[0] == "one":
                ps.append(interp.pred_of(s[1]))
            elif s[0] == "each":
                ps.append((kind, s[1], s[2], s[3], interp.pred_of(s[4])))
            elif s[0] == "each*":
                ps.append((kind, s[1], s[2], s[3], _quant_seg(interp, kind, s[4])))
            else:
                ps.append(("truthy", s))
        p = pred_and(ps) if kind == "forall" else pred_or(ps)
        if p[0] == "const":
            return Const(p[1])
        return PredV(p)

    return h


def _quant_seg(interp, kind, s):
    if s[0] == "one":
        return interp.pred_of(s[1])
    if s[0] == "each":
        return (kind, s[1], s[2], s[3], interp.pred_of(s[4]))
    if s[0] == "each*":
        return (kind, s[1], s[2], s[3], _quant_seg(interp, kind, s[4]))
    return ("truthy", s)


EXTERNAL["builtins.all"] = _quant("forall")
EXTERNAL["builtins.any"] = _quant("exists")


def _collect(is_set):
    def h(interp, args, kwargs, node):
        if not args:
            return interp.alloc(HList(is_set=is_set))
        v = args[0]
        if isinstance(v, ElemV) and v.role in ("set", "coll", "layer"):
            if is_set:
                return ElemV(v.var, "set", v.fam, v.cls)
        if isinstance(v, ElemV) and v.role in ("clause", "cnf") and not is_set:
            # list(x) of a cached clause / CNF is the same shallow copy as x[:]
            cp = ElemV(("copy", v.var, interp.fresh_id("cp")), v.role, v.fam, v.cls)
            interp.log("copy", node, src=v, dst=cp)
            return cp
        segs = interp.segments(v, node)
        r = interp.alloc(HList(dedupe_set_segs(segs) if is_set else segs, is_set=is_set))
        return r

    return h


EXTERNAL["builtins.list"] = _collect(False)
EXTERNAL["builtins.set"] = _collect(True)
EXTERNAL["builtins.frozenset"] = _collect(True)


@ext("builtins.tuple")
def _tuple(interp, args, kwargs, node):
    if not args:
        return TupleV(())
    segs = interp.segments(args[0], node)
    if all(s[0] == "one" for s in segs):
        return TupleV(tuple(s[1] for s in segs))
    return interp.alloc(HList(segs))


@ext("builtins.vars")
def _vars(interp, args, kwargs, node):
    if len(args) == 1 and isinstance(args[0], Ref) and isinstance(interp.deref(args[0]), HObj):
        return Ref(args[0].oid)  # the object seen as the dict of its attributes (like obj.__dict__)
    interp.err(node, "vars() of something that is not an object of the repository")


@ext("builtins.dict")
def _dict(interp, args, kwargs, node):
    d = HDict()
    if args:
        src = args[0]
        if isinstance(src, Ref) and isinstance(interp.deref(src), HObj) and not kwargs:
            return objdict_method(interp, src, interp.deref(src), "copy", [], {}, node)  # dict(obj.__dict__) / dict(vars(obj))
        if isinstance(src, Ref) and isinstance(interp.deref(src), HDict):
            o = interp.deref(src)
            d = HDict(o.entries, o.each, o.sym)
            if hasattr(o, "symkeys"):
                d.symkeys = dict(o.symkeys)
            d.snapshot_of = src.oid
            r = interp.alloc(d)
            interp.log("copy", node, src=src, dst=r)
            return r
        vo_ = getattr(interp.deref(src), "view_of", None) if isinstance(src, Ref) else None
        if isinstance(vo_, tuple) and len(vo_) == 2 and vo_[1] == "items" and isinstance(interp.state.heap.get(vo_[0]), HDict):
            # dict(m.items()): a copy of m as it is now
            o = interp.state.heap[vo_[0]]
            d = HDict(o.entries, o.each, o.sym)
            if hasattr(o, "symkeys"):
                d.symkeys = dict(o.symkeys)
            d.snapshot_of = vo_[0]
            r = interp.alloc(d)
            interp.log("copy", node, src=Ref(vo_[0]), dst=r)
            return r
        for s in interp.segments(src, node):
            if s[0] == "one" and isinstance(s[1], TupleV) and len(s[1].items) == 2:
                interp.dict_store(d, s[1].items[0], s[1].items[1], node)
            elif s[0] == "each" and isinstance(s[4], TupleV) and len(s[4].items) == 2:
                d.each.append(("each", s[1], s[2], s[3], s[4].items[0], s[4].items[1]))
            else:
                d.sym = ("from", desc(src))
    for k, v in kwargs.items():
        d.entries[k] = v
    return interp.alloc(d)


@ext("contextlib.closing")
def _closing(interp, args, kwargs, node):
    """closing(x): `with closing(x) as y` binds x itself; leaving the block closes it (a generator that is not finished
    is finished there - the engine runs generators where they are consumed, nothing is left open)."""
    return args[0]


@ext("collections.OrderedDict")
def _ordereddict(interp, args, kwargs, node):
    """OrderedDict(): a dict (insertion order is what every dict of the engine keeps)."""
    if args or kwargs:
        interp.err(node, "collections.OrderedDict with initial content")
    return interp.alloc(HDict())


@ext("collections.defaultdict")
def _defaultdict(interp, args, kwargs, node):
    if len(args) > 1 or kwargs:
        interp.err(node, "collections.defaultdict with initial content")
    d = HDict()
    d.default_factory = args[0] if args and not (isinstance(args[0], Const) and args[0].value is None) else None
    return interp.alloc(d)


@ext("collections.Counter")
def _counter(interp, args, kwargs, node):
    """Counter(xs) of concrete constants: how often each occurs, in order of first occurrence (anything else: unknown).
    Counter() is the empty count; a missing key reads as 0 and `update(xs)` counts the constants of xs."""
    if not args and not kwargs:
        d = HDict()
        d.is_counter = True
        return interp.alloc(d)
    if len(args) == 1 and not kwargs:
        segs = interp.segments(args[0], node)
        if all(sg[0] == "one" and isinstance(sg[1], Const) and _surely_same_key(sg[1]) is not None for sg in segs):
            counts = {}
            first = {}
            for sg in segs:
                k = _surely_same_key(sg[1])
                counts[k] = counts.get(k, 0) + 1
                first.setdefault(k, sg[1])
            d = HDict()
            for k, n in counts.items():
                interp.dict_store(d, first[k], Const(n), node)
            d.is_counter = True
            return interp.alloc(d)
    interp.log("call.unknown", node, func=Sym(("ext", "collections.Counter")), args=tuple(args), kwargs=dict(kwargs))
    return Sym(("call", "collections.Counter", tuple(desc(a) for a in args), interp.fresh_id("c")))


@ext("builtins.object")
def _object(interp, args, kwargs, node):
    """object(): a fresh value that is identical and equal to itself and to nothing else (the usual sentinel)."""
    return Sym(("sentinel", ("local", interp.fresh_id("obj"))))


@ext("builtins.str")
def _str(interp, args, kwargs, node):
    if not args:
        return Const("")
    v = args[0]
    if isinstance(v, Const):
        return Const(str(v.value))
    if isinstance(v, NameV):
        return v
    # str(x) of a repository object goes through __str__ when it is defined
    if isinstance(v, ElemV) and v.role == "cond":
        return Sym(("str", v.var), "str")
    if isinstance(v, Ref) and isinstance(interp.deref(v), HObj):
        m = interp.prog.lookup_method(interp.deref(v).cls, "__str__")
        if m is not None:
            return interp.call_function(m, [v], {}, node)
    return Sym(("str", desc(v)), "str")


@ext("builtins.repr")
def _repr(interp, args, kwargs, node):
    return Sym(("repr", desc(args[0])), "str")


@ext("builtins.int")
def _pyint(interp, args, kwargs, node):
    v = args[0] if args else Const(0)
    if isinstance(v, Const):
        try:
            return Const(int(v.value))
        except Exception:
            pass
    base = args[1] if len(args) > 1 else kwargs.get("base")
    if base is not None and base == Const(2) and isinstance(v, ElemV):
        # the number a bit string denotes: its bit k (from the least significant end) is the character at position len-1-k
        return Sym(("bits-of", desc(v)), "int")
    lv = interp.as_lin(v)
    if lv is not None:
        return LinV(lv.lin, "py")
    if isinstance(v, ElemV) and v.role in ("key", "pos"):
        return v
    return Sym(("int", desc(v)), "int")


@ext("builtins.float")
def _float(interp, args, kwargs, node):
    v = args[0] if args else Const(0.0)
    if isinstance(v, Const):
        try:
            return Const(float(v.value))
        except Exception:
            pass
    return Sym(("float", desc(v)), "float")


@ext("builtins.bool")
def _pybool(interp, args, kwargs, node):
    if not args:
        return Const(False)
    p = interp.pred_of(args[0])
    return Const(p[1]) if p[0] == "const" else PredV(p)


@ext("builtins.round")
def _round(interp, args, kwargs, node):
    return Sym(("round", desc(args[0])), "float")


@ext("builtins.abs")
def _abs(interp, args, kwargs, node):
    if isinstance(args[0], Const):
        return Const(abs(args[0].value))
    return Sym(("abs", desc(args[0])), "int")


@ext("builtins.print")
def _print(interp, args, kwargs, node):
    return Const(None)


@ext("builtins.id")
def _id(interp, args, kwargs, node):
    return Sym(("id", desc(args[0])), "int")


@ext("builtins.type")
def _type(interp, args, kwargs, node):
    v = args[0]
    if isinstance(v, Ref):
        o = interp.deref(v)
        if isinstance(o, HList):
            return ExtV("builtins.set" if o.is_set else "builtins.list")
        if isinstance(o, HDict):
            return ExtV("builtins.dict")
        if isinstance(o, HObj):
            return ClassV(o.cls)
    if isinstance(v, ElemV) and v.role in ("partition",):
        return Sym(("type", v.var))
    if isinstance(v, Const):
        return ExtV("builtins." + type(v.value).__name__)
    return Sym(("type", desc(v)))


def class_name_of(v):
    if isinstance(v, ExtV):
        return v.name
    if isinstance(v, ClassV):
        return v.qualname
    return None


@ext("builtins.isinstance")
def _isinstance(interp, args, kwargs, node):
    v, c = args
    names = []
    if isinstance(c, TupleV):
        names = [class_name_of(i) for i in c.items]
    else:
        names = [class_name_of(c)]
    if isinstance(v, Const):
        t = type(v.value).__name__
        py = {"builtins.int": int, "builtins.str": str, "builtins.bool": bool, "builtins.float": float,
              "builtins.dict": dict, "builtins.list": list, "builtins.tuple": tuple}
        ok = False
        for n in names:
            if n in py and isinstance(v.value, py[n]):
                ok = True
        return Const(ok)
    if isinstance(v, Ref):
        o = interp.deref(v)
        if isinstance(o, HList):
            want = "builtins.set" if o.is_set else "builtins.list"
            return Const(any(n in (want, "builtins.frozenset" if o.is_set else want) for n in names))
        if isinstance(o, HDict):
            return Const("builtins.dict" in names)
        if isinstance(o, HObj):
            mro = interp.prog.mro(o.cls)
            return Const(any(n in mro for n in names))
    if isinstance(v, FormulaV):
        return Const(any(n and n.endswith("FNode") for n in names))
    if isinstance(v, ElemV) and v.role == "partition":
        if "builtins.list" in names:
            return PredV(("not", ("partfalse", v.var)))
    return PredV(("isinstance", desc(v), tuple(names)))


@ext("builtins.hasattr")
def _hasattr(interp, args, kwargs, node):
    v, a = args
    if isinstance(v, Ref) and isinstance(a, Const):
        o = interp.deref(v)
        if isinstance(o, HObj):
            if a.value in o.attrs:
                return Const(True)
            if interp.prog.lookup_method(o.cls, a.value) is not None:
                return Const(True)
            ca = interp.prog.lookup_class_attr(o.cls, a.value)
            if ca is not None:
                return Const(True)
            # the abstract object lists every instance attribute it has (annotations without a value are not attributes)
            return Const(False)
    if isinstance(v, ElemV) and v.role == "cond" and isinstance(a, Const) and a.value in ("index", "antecedence", "consequence", "textRepresentation", "weak"):
        return Const(True)
    return PredV(("hasattr", desc(v), desc(a)))


@ext("builtins.getattr")
def _getattr(interp, args, kwargs, node):
    v, a = args[0], args[1]
    if isinstance(a, Const) and isinstance(a.value, str):
        if len(args) > 2 and isinstance(v, Ref) and isinstance(interp.deref(v), HObj):
            o = interp.deref(v)
            if a.value not in o.attrs and interp.prog.lookup_method(o.cls, a.value) is None:
                return args[2]
        return interp.getattr(v, a.value, node)
    # symbolic attribute name: a generic attribute slot of the object
    interp.log("getattr.dynamic", node, obj=v, attr=a)
    return Sym(("attr", desc(v), desc(a)))


@ext("builtins.setattr")
def _setattr(interp, args, kwargs, node):
    v, a, val = args
    if isinstance(a, Const) and isinstance(a.value, str):
        interp.setattr(v, a.value, val, node)
    else:
        interp.log("setattr.dynamic", node, obj=v, attr=a, value=val)
        if isinstance(v, Ref) and isinstance(interp.deref(v), HObj):
            interp.deref(v).attrs[("dyn", desc(a))] = val
    return Const(None)


@ext("builtins.super")
def _super(interp, args, kwargs, node):
    fr = None
    for f in reversed(interp.state.frames):
        if f.func is not None and f.cls is not None:
            fr = f
            break
    if fr is None:
        interp.err(node, "super() outside a method")
    selfname = fr.func.node.args.args[0].arg
    return ElemV(("super", fr.cls), "super", fam=fr.env[selfname])


@ext("builtins.open")
def _open(interp, args, kwargs, node):
    may_raise(interp, node, "OSError", ("open", desc(args[0])))
    r = interp.alloc(HOpaque("file", {"path": args[0], "mode": args[1] if len(args) > 1 else kwargs.get("mode", Const("r"))}))
    interp.log("file.open", node, obj=r, path=args[0], mode=interp.deref(r).attrs["mode"], kwargs=dict(kwargs), nargs=len(args))
    return r


def may_raise(interp, node, exc, what):
    """An external call that may fail: both outcomes are explored."""
    n = interp.fresh_id("mr")
    if interp.ctx.decide(("raises", n, exc, what)):
        interp.log("raise.external", node, exc=exc, what=what)
        from .absint import RaiseSig

        raise RaiseSig(ExcV(exc, what), node)


@ext("time.perf_counter_ns")
def _pcns(interp, args, kwargs, node):
    return Sym(("time", interp.fresh_id("t")), "int")


@ext("time.perf_counter")
def _pc(interp, args, kwargs, node):
    return Sym(("time", interp.fresh_id("t")), "float")


@ext("time.time")
def _time(interp, args, kwargs, node):
    return Sym(("time", interp.fresh_id("t")), "float")


@ext("warnings.warn")
def _warn(interp, args, kwargs, node):
    interp.log("warn", node, args=tuple(args))
    return Const(None)


@ext("copy.deepcopy")
def _deepcopy(interp, args, kwargs, node):
    interp.log("copy", node, src=args[0], dst=args[0])
    return args[0]


@ext("copy.copy")
def _copy(interp, args, kwargs, node):
    interp.log("copy", node, src=args[0], dst=args[0])
    return args[0]


@ext("os.path.isfile")
def _isfile(interp, args, kwargs, node):
    return PredV(("isfile", desc(args[0])))


# ----------------------------------------------------------------------------------------------
# multiprocessing / persistence
# ----------------------------------------------------------------------------------------------
@ext("multiprocessing.Manager")
def _manager(interp, args, kwargs, node):
    r = interp.alloc(HOpaque("Manager"))
    interp.log("mp.manager", node, obj=r)
    return r


@ext("multiprocessing.Process")
def _process(interp, args, kwargs, node):
    r = interp.alloc(HOpaque("Process", {"target": kwargs.get("target"), "args": kwargs.get("args"), "started": Const(False), "joined": Const(False)}))
    interp.log("mp.process", node, obj=r, target=kwargs.get("target"), args=kwargs.get("args"))
    return r


@ext("pathlib.Path")
def _path(interp, args, kwargs, node):
    v = args[0]
    if isinstance(v, Ref) and isinstance(interp.deref(v), HOpaque) and interp.deref(v).typ == "Path":
        return v
    r = interp.alloc(HOpaque("Path", {"of": v}))
    return r


for _n in ("pickle.dump", "json.dump"):
    def _dump(interp, args, kwargs, node, _n=_n):
        o_ = interp.deref(args[0]) if args and isinstance(args[0], Ref) else None
        interp.log("persist.dump", node, how=_n, obj=args[0], fd=args[1] if len(args) > 1 else None, kwargs=dict(kwargs),
                   attrs=dict(o_.attrs) if isinstance(o_, HObj) else None)
        may_raise(interp, node, "TypeError" if _n == "json.dump" else "PicklingError", (_n,))
        if _n == "pickle.dump":
            # pickling runs code of the members (__getstate__, __reduce__): it can fail with any exception
            may_raise(interp, node, "Exception", (_n, "raised by a member"))
        return Const(None)

    EXTERNAL[_n] = _dump

for _n in ("pickle.load", "pickle.loads", "json.load", "json.loads"):
    def _load(interp, args, kwargs, node, _n=_n):
        k = interp.fresh_id("ld")
        interp.log("persist.load", node, how=_n, src=args[0], lid=k)
        # reading a file of the other format fails: both outcomes are explored
        may_raise(interp, node, "JSONDecodeError" if _n.startswith("json") else "UnpicklingError", (_n,))
        if _n.startswith("json"):
            # the bytes of a pickle are in general not UTF-8: json fails on them before it parses anything
            may_raise(interp, node, "UnicodeDecodeError", (_n,))
        interp.log("persist.loaded", node, how=_n, lid=k)
        return Sym(("loaded", _n, k))

    EXTERNAL[_n] = _load


# ----------------------------------------------------------------------------------------------
# external call dispatch
# ----------------------------------------------------------------------------------------------
def call_external(interp, fv: ExtV, args, kwargs, node):
    name = canonical_ext(fv.name)
    if fv.self_value is not None:
        return call_ext_method(interp, fv, args, kwargs, node)
    h = interp.models.get(name)
    if h is not None:
        interp.stats["resolved_calls"] += 1
        return h(interp, args, kwargs, node)
    short = name.rsplit(".", 1)[-1]
    if short in EXC_PARENTS or short.endswith("Error") or short.endswith("Exception"):
        return ExcV(canon_exc_name(name), None, tuple(args))
    interp.stats["unresolved_calls"] += 1
    interp.log("call.external", node, func=name, args=tuple(args), kwargs=dict(kwargs))
    return Sym(("call", name, tuple(desc(a) if not isinstance(a, tuple) else a for a in args), interp.fresh_id("c")))


def call_ext_method(interp, fv: ExtV, args, kwargs, node):
    """Methods reached through an attribute chain on an abstract object, e.g. solver.converter.convert."""
    name = fv.name
    if name.endswith("converter.convert"):
        v = args[0]
        if isinstance(v, FormulaV):
            return FormulaV(v.f, "z3")
        if isinstance(v, LinV):
            return v
        if isinstance(v, ElemV) and v.role == "fnode":
            return v
        return FormulaV(as_formula(interp, v, node), "z3")
    interp.log("call.external", node, func=name, args=tuple(args), kwargs=dict(kwargs), self_value=fv.self_value)
    return Sym(("call", name, tuple(desc(a) for a in args), interp.fresh_id("c")))


def external_base_init(interp, cls, ref, args, kwargs, node):
    return None


# ----------------------------------------------------------------------------------------------
# context managers
# ----------------------------------------------------------------------------------------------
def enter_context(interp, cm, node):
    if isinstance(cm, Ref):
        o = interp.deref(cm)
        if isinstance(o, HOpaque) and o.typ == "Manager":
            return cm
        return cm
    return cm


def exit_context(interp, cm, node):
    if isinstance(cm, Ref):
        o = interp.deref(cm)
        if isinstance(o, HSolver):
            interp.log("solver.close", node, obj=cm)
        elif isinstance(o, HOpaque):
            interp.log("ctx.exit", node, obj=cm, typ=o.typ)


# ----------------------------------------------------------------------------------------------
# methods of abstract objects and values
# ----------------------------------------------------------------------------------------------
def _injective_key(kt, b):
    """Is the key template certainly different for different elements of the family bound by b?  (the element itself, its
    key, its position, a name built from one of these, or a tuple with such a component)"""
    if isinstance(kt, ElemV):
        return kt.var == b or (isinstance(kt.var, tuple) and kt.var[:1] == ("copy",) and kt.var[1] == b)
    if isinstance(kt, LinV):
        return any(isinstance(t, tuple) and t[:2] == ("pos", b) or t == ("elem", b, "key") or t == ("elem", b, "pos") for t, c in kt.lin[0])
    if isinstance(kt, NameV):
        return any(isinstance(x, tuple) and len(x) == 3 and x[0] == "elem" and x[1] == b and x[2] in ("key", "pos", "str", "plain") for x in kt.parts)
    if isinstance(kt, TupleV):
        return any(_injective_key(i, b) for i in kt.items)
    if isinstance(kt, Const):
        return False
    if isinstance(kt, Sym):
        lab = kt.label
        # int(x) / cast of the element's own key
        return isinstance(lab, tuple) and len(lab) == 2 and lab[0] in ("int",) and lab[1] in (("elem", b, "key"), ("elem", b, "pos"))
    return False


def dict_view(interp, ref, o: HDict, which):
    segs = []
    for k, v in o.entries.items():
        kv = getattr(o, "symkeys", {}).get(k) if isinstance(k, tuple) and k and k[0] == "d" else Const(k)
        if kv is None:
            kv = Sym(k)
        segs.append(("one", kv if which == "keys" else (v if which == "values" else TupleV((kv, v)))))
    for e in o.each:
        _, b, fam, g, kt, vt = e
        if not _injective_key(kt, b) and isinstance(fam, tuple) and fam[:1] == ("members",):
            # a mapping filled per element of a family under a key that is a function of the element's content (its text,
            # a hash, an attribute): elements with equal keys collapse, so the mapping may hold fewer entries than the family
            fam = ("members", ("distinct-by", desc(kt), fam[1]))
        segs.append(("each", b, fam, g, kt if which == "keys" else (vt if which == "values" else TupleV((kt, vt)))))
    if o.sym:
        b = interp.fresh_var("k")
        fam = ("members", ("dictsym", o.sym))
        kt, vt = ElemV(b, "key"), ElemV(b, "plain")
        segs.append(("each", b, fam, PTRUE, kt if which == "keys" else (vt if which == "values" else TupleV((kt, vt)))))
    return segs


def call_method(interp, obj, name, args, kwargs, node):
    # the operator protocol called by name (d.__getitem__ handed to map, xs.__contains__ as a predicate, ...)
    if not kwargs and isinstance(obj, (Ref, TupleV, ElemV)):
        if name == "__getitem__" and len(args) == 1:
            return interp.subscript(obj, args[0], node)
        if name == "__contains__" and len(args) == 1:
            return interp.compare("In", args[0], obj, node)
        if name == "__len__" and not args:
            return _len(interp, [obj], {}, node)
    if isinstance(obj, Ref):
        o = interp.deref(obj)
        if isinstance(o, HList):
            return list_method(interp, obj, o, name, args, kwargs, node)
        if isinstance(o, HDict):
            return dict_method(interp, obj, o, name, args, kwargs, node)
        if isinstance(o, HSolver):
            return solver_method(interp, obj, o, name, args, kwargs, node)
        if isinstance(o, HWcnf):
            return wcnf_method(interp, obj, o, name, args, kwargs, node)
        if isinstance(o, HOpaque):
            return opaque_method(interp, obj, o, name, args, kwargs, node)
        if isinstance(o, HObj) and name in ("copy", "update", "items", "keys", "values", "get", "pop", "setdefault"):
            return objdict_method(interp, obj, o, name, args, kwargs, node)
    if isinstance(obj, Const) and isinstance(obj.value, str):
        return str_method(interp, obj, name, args, kwargs, node)
    if isinstance(obj, ElemV):
        return elem_method(interp, obj, name, args, kwargs, node)
    if isinstance(obj, FormulaV):
        return fnode_method(interp, obj, name, args, kwargs, node)
    if isinstance(obj, Sym) and isinstance(obj.label, tuple) and obj.label[:1] == ("simplified",) and name in ("is_false", "is_true") and not args:
        return PredV(("simplifies-" + name[3:], obj.label[1]))
    if isinstance(obj, (Sym, NameV)):
        if name in ("lower", "upper", "strip", "replace", "translate"):
            return Sym((name, desc(obj), tuple(desc(a) for a in args)), "str")
        if name in ("items", "keys", "values"):
            b = interp.fresh_var("k")
            fam = ("members", desc(obj))
            kt, vt = ElemV(b, "key"), ElemV(b, "plain")
            return interp.alloc(HList([("each", b, fam, PTRUE, kt if name == "keys" else (vt if name == "values" else TupleV((kt, vt))))]))
        if name == "get":
            return Sym(("item", desc(obj), desc(args[0])))
        if name == "update":
            interp.log("call.method", node, obj=obj, method=name, args=tuple(args))
            return Const(None)
        if name in ("startswith", "endswith"):
            return PredV((name, desc(obj), desc(args[0])))
        if name == "split":
            return Sym(("split", desc(obj)))
        if name == "copy":
            interp.log("copy", node, src=obj, dst=obj)
            return obj
    if isinstance(obj, LinV) and name == "as_long":
        return obj
    if isinstance(obj, LinV) and name == "is_symbol" and not args:
        # pysmt term: a symbol is exactly one symbolic integer variable; Int(..) constants and sums are not
        terms, c = obj.lin
        return Const(len(terms) == 1 and c == 0 and terms[0][1] == 1 and isinstance(terms[0][0], tuple) and terms[0][0][:1] == ("isym",))
    interp.log("call.method", node, obj=obj, method=name, args=tuple(args), kwargs=dict(kwargs))
    return Sym(("mcall", desc(obj), name, tuple(desc(a) for a in args), interp.fresh_id("c")))


def objdict_method(interp, ref, o: HObj, name, args, kwargs, node):
    """Methods of ``obj.__dict__`` (the object seen as the dict of its attributes; writes go through to the object)."""
    if name == "copy":
        r = interp.alloc(HDict(entries=dict(o.attrs)))
        interp.log("objdict.copy", node, obj=ref, dst=r)
        return r
    if name == "update":
        src = args[0] if args else None
        interp.log("objdict.update", node, obj=ref, src=src, kwargs=dict(kwargs))
        if isinstance(src, Ref):
            d = interp.deref(src)
            if isinstance(d, HDict):
                for k, v in d.entries.items():
                    if isinstance(k, str):
                        o.attrs[k] = v
                        interp.log("attr.set", node, obj=ref, attr=k, value=v)
                if d.each or d.sym:
                    o.attrs["*"] = Sym(("updated-from", desc(src)))
        elif src is not None:
            o.attrs["*"] = Sym(("updated-from", desc(src)))
        for k, v in kwargs.items():
            o.attrs[k] = v
            interp.log("attr.set", node, obj=ref, attr=k, value=v)
        return Const(None)
    if name in ("items", "keys", "values"):
        segs = []
        for k, v in o.attrs.items():
            segs.append(("one", Const(k) if name == "keys" else (v if name == "values" else TupleV((Const(k), v)))))
        return interp.alloc(HList(segs))
    if name == "get" and args:
        k = args[0]
        if isinstance(k, Const):
            return o.attrs.get(k.value, args[1] if len(args) > 1 else Const(None))
        return Sym(("attr-of", ("ref", ref.oid), desc(k)))
    if name in ("get", "pop") and not args:
        interp.err(node, f"{name}() without a key on an object of the repository")
    if name == "pop":
        k = args[0]
        if isinstance(k, Const):
            interp.log("attr.del", node, obj=ref, attr=k.value)
            if k.value in o.attrs:
                return o.attrs.pop(k.value)
            if len(args) > 1:
                return args[1]
            from .absint import RaiseSig
            raise RaiseSig(ExcV("KeyError", ("key", desc(k))), node)
        interp.err(node, "pop of a computed attribute name")
    if name == "setdefault":
        k = args[0]
        if isinstance(k, Const):
            if k.value not in o.attrs:
                o.attrs[k.value] = args[1] if len(args) > 1 else Const(None)
                interp.log("attr.set", node, obj=ref, attr=k.value, value=o.attrs[k.value])
            return o.attrs[k.value]
        interp.err(node, "setdefault of a computed attribute name")
    interp.err(node, f"unsupported method {name} on an object's __dict__")


def _surely_same_key(v):
    """A key under which two values are certainly equal (so a set holds them once); None when nothing is known."""
    if isinstance(v, Const):
        try:
            hash(v.value)
        except TypeError:
            return None
        return ("c", v.value) if not isinstance(v.value, (bool, int, float)) else ("n", v.value)
    if isinstance(v, Ref):
        return ("r", v.oid)
    if isinstance(v, ElemV):
        return ("e", v.var, v.role)
    if isinstance(v, TupleV):
        ks = [_surely_same_key(x) for x in v.items]
        return None if any(k is None for k in ks) else ("t", tuple(ks))
    return None


def dedupe_set_segs(segs):
    """What a set keeps of these entries: a value that is certainly equal to an earlier one is not held twice."""
    seen, out = set(), []
    for sg in segs:
        if sg[0] == "one":
            k = _surely_same_key(sg[1])
            if k is not None:
                if k in seen:
                    continue
                seen.add(k)
        out.append(sg)
    return out


def list_method(interp, ref, o: HList, name, args, kwargs, node):
    if o.is_set and name in ("add", "update"):
        before = list(o.segs)
        if name == "add":
            o.segs.append(("one", args[0]))
        else:
            for a in args:
                o.segs.extend(interp.segments(a, node))
        o.segs = dedupe_set_segs(o.segs)
        interp.log("list.append" if name == "add" else "list.extend", node, obj=ref, value=args[0] if args else None)
        return Const(None)
    if name in ("append", "add"):
        o.segs.append(("one", args[0]))
        interp.log("list.append", node, obj=ref, value=args[0])
        return Const(None)
    if name == "extend" or name == "update":
        for a in args:
            o.segs.extend(interp.segments(a, node))
        interp.log("list.extend", node, obj=ref, value=args[0] if args else None)
        return Const(None)
    if name == "insert":
        idx = args[0]
        if isinstance(idx, Const) and isinstance(idx.value, int) and (o.concrete() or idx.value == 0):
            o.segs.insert(idx.value, ("one", args[1]))
        else:
            o.segs = [("sym", ("insert", interp.list_desc(o), desc(idx), desc(args[1])))]
        interp.log("list.insert", node, obj=ref, idx=idx, value=args[1])
        return Const(None)
    if name == "copy":
        r = interp.alloc(HList(o.segs, is_set=o.is_set))
        interp.log("copy", node, src=ref, dst=r)
        return r
    if name == "pop":
        interp.log("list.pop", node, obj=ref, args=tuple(args))
        if o.concrete() and o.segs:
            idx = args[0].value if args and isinstance(args[0], Const) else -1
            try:
                return o.segs.pop(idx)[1]
            except IndexError:
                from .absint import RaiseSig
                raise RaiseSig(ExcV("IndexError", ("pop", desc(args[0]) if args else None)), node)
        if args and len(o.segs) == 1 and o.segs[0][0] == "each" and o.segs[0][3] == PTRUE and o.segs[0][2][0] == "members" and interp.as_lin(args[0]) is not None and not o.is_set:
            # xs.pop(i) of a sequence that enumerates a family: the element at position i; what stays are the elements
            # before and after it
            _, b, fam, g, val = o.segs[0]
            got = interp.list_index(ref, o, args[0], node)
            i_lin = interp.as_lin(args[0]).lin
            b1, b2 = interp.fresh_var("p"), interp.fresh_var("p")
            lo = ("slice", fam[1], None, ("lin", i_lin))
            hi = ("slice", fam[1], ("lin", F.lin_add(i_lin, F.lin_const(1))), None)
            o.segs = [("each", b1, ("members", lo), PTRUE, interp.inst(val, {b: b1})), ("each", b2, ("members", hi), PTRUE, interp.inst(val, {b: b2}))]
            return got
        interp.err(node, "pop from a sequence the analysis has no positions for")
    if name in ("remove", "discard"):
        d = desc(args[0])
        for i, s in enumerate(o.segs):
            if s[0] == "one" and desc(s[1]) == d:
                del o.segs[i]
                break
        interp.log("list.remove", node, obj=ref, value=args[0])
        return Const(None)
    if name == "clear":
        o.segs = []
        interp.log("list.clear", node, obj=ref)
        return Const(None)
    if name == "index":
        interp.log("list.index", node, obj=ref, value=args[0])
        if o.concrete():
            ds = [desc(x) for x in o.values()]
            if desc(args[0]) in ds:
                return Const(ds.index(desc(args[0])))
        return LinV(F.lin_term(("indexof", interp.list_desc(o), desc(args[0]))))
    if name == "count":
        return LinV(F.lin_term(("countof", interp.list_desc(o), desc(args[0]))))
    if name == "sort":
        interp.log("list.sort", node, obj=ref, kwargs=dict(kwargs))
        return Const(None)
    if name == "isdisjoint":
        return _isdisjoint(interp, ref, args[0], node)
    if name in ("issubset", "issuperset"):
        a = interp.as_coll(ref)
        b = interp.as_coll(args[0]) if not isinstance(args[0], ElemV) else args[0]
        x, y = (a.var, b.var if b is not None else desc(args[0]))
        return PredV(("subset", x, y) if name == "issubset" else ("subset", y, x))
    if name in ("union", "intersection", "difference"):
        a = interp.as_coll(ref)
        b = interp.as_coll(args[0])
        sym = {"union": "|", "intersection": "&", "difference": "-"}[name]
        role = a.fam if isinstance(a.fam, str) else (b.fam if b is not None and isinstance(b.fam, str) else "plain")
        return ElemV(("setop", sym, a.var, b.var if b else desc(args[0])), "set", fam=role, cls=a.cls or (b.cls if b is not None else ""))
    if name == "get":
        return Sym(("item", interp.list_desc(o), desc(args[0])))
    if name == "__iter__":
        return ref
    interp.log("call.method", node, obj=ref, method=name, args=tuple(args))
    return Sym(("mcall", interp.list_desc(o), name))


def dict_method(interp, ref, o: HDict, name, args, kwargs, node):
    if name in ("keys", "values", "items"):
        r = interp.alloc(HList(dict_view(interp, ref, o, name)))
        interp.deref(r).view_of = (ref.oid, name)
        return r
    if name == "get":
        default = args[1] if len(args) > 1 else kwargs.get("default", Const(None))
        ck = interp.dict_key(args[0])
        if ck is None and (o.sym or o.each) and ("d", desc(args[0])) not in o.entries and not any(interp.match_key(e[4], args[0], e[1]) for e in o.each):
            # a symbolic key against partly unknown content: present or not is undetermined
            if interp.ctx.decide(("in", desc(args[0]), ("dict", ref.oid))):
                interp.log("dict.get.symbolic", node, obj=ref, key=args[0])
                return Sym(("dictitem", ("dict", ref.oid), desc(args[0])))
            return default
        if ck is not None and ck[1] not in o.entries and not o.each and not o.sym:
            return default
        if ck is not None and ck[1] in o.entries:
            return o.entries[ck[1]]
        if ck is not None and (o.each or o.sym):
            # a constant key against symbolic content: present or not is undetermined
            if interp.ctx.decide(("in", desc(args[0]), ("dict", ref.oid))):
                return interp.dict_load(ref, o, args[0], node)
            return default
        return interp.dict_load(ref, o, args[0], node, default=default)
    if name == "copy":
        d = HDict(o.entries, o.each, o.sym)
        if hasattr(o, "symkeys"):
            d.symkeys = dict(o.symkeys)
        r = interp.alloc(d)
        interp.log("copy", node, src=ref, dst=r)
        return r
    if name == "update" and getattr(o, "is_counter", False) and len(args) == 1 and not kwargs and isinstance(args[0], Ref) and isinstance(interp.deref(args[0]), HList):
        # Counter.update(xs): one more for every element of xs
        segs = interp.segments(args[0], node)
        if all(sg[0] == "one" and interp.dict_key(sg[1]) is not None for sg in segs) and not o.each and not o.sym:
            for sg in segs:
                ck = interp.dict_key(sg[1])
                old = o.entries.get(ck[1], Const(0))
                if not (isinstance(old, Const) and isinstance(old.value, int)):
                    interp.err(node, "Counter.update on a count that is not a constant")
                interp.dict_store(o, sg[1], Const(old.value + 1), node, ref)
            interp.log("dict.update", node, obj=ref, args=tuple(args))
            return Const(None)
        interp.err(node, "Counter.update with elements that are not constants")
    if name == "update":
        for a in args:
            if isinstance(a, Ref) and isinstance(interp.deref(a), HDict):
                src = interp.deref(a)
                o.entries.update(src.entries)
                o.each.extend(src.each)
                if hasattr(src, "symkeys"):
                    if not hasattr(o, "symkeys"):
                        o.symkeys = {}
                    o.symkeys.update(src.symkeys)
                if src.sym:
                    o.sym = o.sym or src.sym
            elif isinstance(a, (Ref, GenV)) and not (isinstance(a, Ref) and not isinstance(interp.deref(a), HList)):
                # a sequence of (key, value) pairs (a list, a generator expression, a generator of the repository)
                for sg in interp.segments(a, node):
                    if sg[0] == "one" and isinstance(sg[1], TupleV) and len(sg[1].items) == 2:
                        interp.dict_store(o, sg[1].items[0], sg[1].items[1], node, ref)
                        interp.log("dict.set", node, obj=ref, key=sg[1].items[0], value=sg[1].items[1])
                    elif sg[0] == "each" and isinstance(sg[4], TupleV) and len(sg[4].items) == 2:
                        o.each.append(("each", sg[1], sg[2], sg[3], sg[4].items[0], sg[4].items[1]))
                        interp.log("dict.set", node, obj=ref, key=sg[4].items[0], value=sg[4].items[1])
                    else:
                        o.sym = o.sym or ("update", desc(a))
            else:
                o.sym = o.sym or ("update", desc(a))
        for k, v in kwargs.items():
            o.entries[k] = v
        interp.log("dict.update", node, obj=ref, args=tuple(args))
        return Const(None)
    if name == "pop":
        ck = interp.dict_key(args[0])
        interp.log("dict.pop", node, obj=ref, key=args[0])
        if ck is not None and ck[1] in o.entries:
            return o.entries.pop(ck[1])
        return args[1] if len(args) > 1 else Sym(("pop", ("dict", ref.oid), desc(args[0])))
    if name == "setdefault":
        ck = interp.dict_key(args[0])
        if ck is not None and (ck[1] in o.entries or not (o.sym or o.each)):
            if ck[1] not in o.entries:
                o.entries[ck[1]] = args[1] if len(args) > 1 else Const(None)
                interp.log("dict.set", node, obj=ref, key=args[0], value=o.entries[ck[1]])
            return o.entries[ck[1]]
        # a computed key, or a literal key of a mapping with content the analysis does not know: `if k not in d: d[k] = default` followed by `d[k]`, decided like the statements would be
        key = args[0]
        present = interp.decide_pred(interp.contains(ref, key, node))
        if not present:
            interp.setitem(ref, key, args[1] if len(args) > 1 else Const(None), node)
        return interp.dict_load(ref, interp.deref(ref), key, node)
    if name == "clear":
        o.entries.clear()
        o.each.clear()
        o.sym = None
        return Const(None)
    if name == "fromkeys":
        pass
    interp.log("call.method", node, obj=ref, method=name, args=tuple(args))
    return Sym(("mcall", ("dict", ref.oid), name))


def str_method(interp, obj, name, args, kwargs, node):
    s = obj.value
    if all(isinstance(a, Const) for a in args):
        try:
            r = getattr(s, name)(*[a.value for a in args])
            if isinstance(r, (str, int, bool)):
                return Const(r)
            if isinstance(r, list):
                return interp.new_list([Const(x) for x in r])
        except Exception:
            pass
    if name == "join":
        a = args[0]
        if isinstance(a, Ref) and isinstance(interp.deref(a), HList):
            segs_ = interp.deref(a).segs
            if all(g[0] == "one" and isinstance(g[1], Const) and isinstance(g[1].value, str) for g in segs_) and not interp.deref(a).is_set:
                return Const(s.join(g[1].value for g in segs_))
            return Sym(("join", s, interp.list_desc(interp.deref(a))), "str")
        if isinstance(a, TupleV) and all(isinstance(x, Const) and isinstance(x.value, str) for x in a.items):
            return Const(s.join(x.value for x in a.items))
        return Sym(("join", s, desc(a)), "str")
    if name == "format":
        # plain positional / numbered / named fields without conversions: the same text an f-string builds
        import string as _string
        try:
            fields = list(_string.Formatter().parse(s))
        except ValueError:
            fields = None
        if fields is not None and all((not spec) and conv is None for _, fld, spec, conv in fields):
            parts, auto, ok = [], 0, True
            for lit, fld, spec, conv in fields:
                if lit:
                    parts.append(lit)
                if fld is None:
                    continue
                if fld == "":
                    v = args[auto] if auto < len(args) else None
                    auto += 1
                elif fld.isdigit():
                    v = args[int(fld)] if int(fld) < len(args) else None
                else:
                    v = kwargs.get(fld)
                if v is None:
                    ok = False
                    break
                if isinstance(v, Const) and isinstance(v.value, (str, int)) and not isinstance(v.value, bool):
                    parts.append(str(v.value))
                elif isinstance(v, LinV) and F.lin_is_const(v.lin):
                    parts.append(str(v.lin[1]))
                elif isinstance(v, NameV):
                    parts.extend(v.parts)
                else:
                    parts.append(desc(v))
            if ok:
                merged = []
                for q in parts:
                    if isinstance(q, str) and merged and isinstance(merged[-1], str):
                        merged[-1] += q
                    else:
                        merged.append(q)
                return Const("".join(merged)) if all(isinstance(q, str) for q in merged) else NameV(tuple(merged))
        return Sym(("format", s, tuple(desc(a) for a in args)), "str")
    return Sym(("strcall", s, name, tuple(desc(a) for a in args)), "str")


def fnode_method(interp, obj: FormulaV, name, args, kwargs, node):
    f = obj.f
    if name == "is_symbol":
        if f[0] == "atom":
            return PredV(("fnode", "is_symbol", ("f", f)))
        return Const(False) if f[0] in ("not", "and", "or", "implies", "iff", "const") else PredV(("fnode", "is_symbol", ("f", f)))
    if name == "is_not":
        if f[0] == "not":
            return Const(True)
        if f[0] in ("and", "or", "implies", "iff", "const"):
            return Const(False)
        return PredV(("fnode", "is_not", ("f", f)))
    if name in ("is_bool_constant", "is_true", "is_false", "constant_value"):
        # whether a formula *is* one of the two constants, and which: syntactic on a built formula, two uninterpreted
        # facts about a placeholder (an atom of the harness stands for any formula, the constants included)
        if f[0] == "const":
            return Const({"is_bool_constant": True, "is_true": bool(f[1]), "is_false": not f[1], "constant_value": bool(f[1])}[name])
        if f[0] in ("not", "and", "or", "implies", "iff"):
            if name == "constant_value":
                interp.err(node, "constant_value() of a formula that is not a constant")
            return Const(False)
        isc, val = ("fnode", "is_bool_constant", ("f", f)), ("fnode", "constant_value", ("f", f))
        if name == "is_bool_constant":
            return PredV(isc)
        if name == "constant_value":
            return PredV(val)
        return PredV(("and", (isc, val if name == "is_true" else ("not", val))))
    if name == "arg":
        if f[0] == "not":
            return FormulaV(f[1], obj.backend)
        return FormulaV(("opaque", ("arg", f, desc(args[0]))), obj.backend)
    if name == "symbol_name":
        return Sym(("symbol_name", ("f", f)), "str")
    if name == "children":
        if f[0] in ("and", "or"):
            return interp.new_list([FormulaV(g, obj.backend) for g in f[1]])
        if f[0] == "not":
            return interp.new_list([FormulaV(f[1], obj.backend)])
        return interp.alloc(HList([("sym", ("children", f))]))
    interp.log("call.method", node, obj=obj, method=name, args=tuple(args))
    return Sym(("mcall", ("f", f), name))


def opaque_method(interp, ref, o: HOpaque, name, args, kwargs, node):
    t = o.typ
    if t == "ParseNode":
        # a concrete parse tree node (rules build them from sample inputs): attrs: text (all token texts in order), kids
        # {rule or token name: [nodes]}, labels {label: node}
        kids = o.attrs.get("kids", {})
        if name == "getText" and not args:
            return o.attrs["text"]
        if name in kids:
            lst = kids[name]
            if args:
                if isinstance(args[0], Const) and isinstance(args[0].value, int):
                    return lst[args[0].value] if 0 <= args[0].value < len(lst) else Const(None)
                interp.err(node, f"parse tree child {name}() at a computed position")
            if o.attrs.get("many", {}).get(name):
                return interp.alloc(HList([("one", x) for x in lst]))
            return lst[0] if lst else Const(None)
        if name in o.attrs.get("absent", ()):
            return interp.alloc(HList([])) if o.attrs.get("many", {}).get(name) else Const(None)
        if name == "getChildCount" and not args:
            return Const(o.attrs.get("nchildren", 0))
        interp.err(node, f"parse tree method {name}() of a {o.attrs.get('rule')} node is not modelled")
    if t == "Token":
        if name == "getText" and not args:
            return o.attrs["text"]
        interp.err(node, f"token method {name}() is not modelled")
    if t == "RC2":
        if name == "compute":
            n = interp.fresh_id("m")
            o.attrs["last_model"] = Const(n)
            interp.log("rc2.compute", node, obj=ref, mid=n, added=tuple(o.log))
            return ElemV(("rc2model", n), "optional", "list")
        if name == "add_clause":
            it = clause_item(interp, args[0], node)
            o.log.append(("clause", it, args[0]))
            interp.log("rc2.add_clause", node, obj=ref, item=it, value=args[0])
            return Const(None)
        if name in ("delete", "__exit__"):
            return Const(None)
    if t == "IDPool":
        if name == "id":
            interp.log("pool.id", node, obj=ref, key=args[0] if args else None)
            return ElemV(("id", desc(args[0]) if args else ("fresh", interp.fresh_id("id"))), "lit")
    if t == "Manager":
        if name == "dict":
            r = interp.alloc(HDict(sym=("written by the worker processes",)))  # what it holds is not only what this process stores
            interp.deref(r).shared = True
            interp.log("mp.dict", node, obj=r)
            return r
        if name == "list":
            return interp.new_list([])
    if t == "Process":
        if name == "start":
            o.attrs["started"] = Const(True)
            interp.log("mp.start", node, obj=ref, target=o.attrs.get("target"), args=o.attrs.get("args"))
            return Const(None)
        if name == "join":
            o.attrs["joined"] = Const(True)
            interp.log("mp.join", node, obj=ref, timeout=args[0] if args else kwargs.get("timeout"))
            return Const(None)
        if name == "is_alive":
            n = interp.fresh_id("alive")
            return PredV(("alive", ref.oid, n))
        if name in ("terminate", "kill"):
            interp.log("mp.terminate", node, obj=ref)
            return Const(None)
    if t == "Path":
        if name == "open":
            mode = args[0] if args else kwargs.get("mode", Const("r"))
            may_raise(interp, node, "OSError", ("open", ref.oid))
            r = interp.alloc(HOpaque("file", {"path": ref, "mode": mode}))
            interp.log("file.open", node, obj=r, path=ref, mode=mode)
            return r
        if name == "exists":
            return PredV(("exists-file", ref.oid))
        if name in ("read_text", "read_bytes"):
            interp.log("file.read", node, path=ref, how=name)
            if name == "read_text" and not (kwargs.get("errors") is not None or len(args) > 1):
                # decoding the file's bytes: fails on what is not text (a pickle)
                may_raise(interp, node, "UnicodeDecodeError", ("pathlib.Path.read_text", ref.oid))
            return Sym((name, ref.oid), "str")
        if name in ("mkdir", "touch", "unlink", "rename", "replace", "write_text", "write_bytes", "rmdir", "chmod", "stat", "resolve", "iterdir"):
            # anything that touches the file system can fail (missing parent, a file in the way, permissions)
            may_raise(interp, node, "OSError", (name, ref.oid))
            interp.log("file." + name, node, path=ref, args=tuple(args))
            return Const(None) if name not in ("stat", "resolve", "iterdir") else Sym((name, ref.oid))
    if t == "file":
        if name in ("read", "write", "close"):
            interp.log("file." + name, node, obj=ref, args=tuple(args))
            return Sym(("file." + name, ref.oid), "str")
    o.log.append(("call", name, tuple(desc(a) for a in args)))
    interp.log("opaque.call", node, obj=ref, typ=t, method=name, args=tuple(args), kwargs=dict(kwargs))
    return Sym(("ocall", t, ref.oid, name, interp.fresh_id("c")))


def obj_getattr(interp, ref, o, attr, node):
    if isinstance(o, HSolver):
        if attr == "converter":
            return ExtV("pysmt.converter", ref)
        return None
    if isinstance(o, HOpaque):
        if o.typ == "ParseNode":
            if attr in o.attrs.get("labels", {}):
                return o.attrs["labels"][attr]
            return None
        if attr in o.attrs and attr not in ("target", "args"):
            return o.attrs[attr]
        if o.typ == "RC2" and attr == "cost":
            return Sym(("rc2cost", o.attrs.get("last_model", Const(0)).value), "int")
        if o.typ == "Path" and attr == "parent":
            return interp.alloc(HOpaque("Path", {"of": Sym(("parent", ("path", desc(o.attrs.get("of", Const(None)))) ), "str")}))
        if o.typ == "Path" and attr in ("suffix", "name", "stem"):
            of = o.attrs.get("of", Const(None))
            if isinstance(of, Const) and isinstance(of.value, str):
                import pathlib as _pl

                return Const(str(getattr(_pl.PurePosixPath(of.value), attr)))
            return Sym((attr, ("path", desc(of))), "str")
        return None
    return None


def opaque_getitem(interp, ref, o: HOpaque, idx, node):
    return None


def opaque_iter(interp, ref, o: HOpaque, node):
    return None


# ----------------------------------------------------------------------------------------------
# generic elements
# ----------------------------------------------------------------------------------------------
def elem_getattr(interp, v: ElemV, attr, node):
    if v.role == "cond":
        if attr == "antecedence":
            return FormulaV(("atom", v.var, "A"), "?")
        if attr == "consequence":
            return FormulaV(("atom", v.var, "B"), "?")
        if attr == "textRepresentation":
            return Sym(("text", v.var), "str")
        if attr == "weak":
            return Sym(("weak", v.var), "bool")
        if attr == "index":
            # a conditional's `index` attribute (None after parsing, whatever a revision workflow wrote into it otherwise) is
            # unrelated to the key it is stored under in a belief base; rules about revision conditionals, which are
            # identified by their index, set `interp.index_is_key`
            if getattr(interp, "index_is_key", False):
                return ElemV(v.var, "key", v.fam)
            interp.log("cond.index", node, obj=v)
            return Sym(("condindex", v.var), "optint")
        cls = v.cls or COND_CLASS
        m = interp.prog.lookup_method(cls, attr)
        if m is not None:
            return FuncV(m.qualname, v)
        return None
    if v.role == "super":
        cls = v.var[1]
        mro = interp.prog.mro(cls)[1:]
        for c in mro:
            ci = interp.prog.classes.get(c)
            if ci and attr in ci.methods:
                return FuncV(ci.methods[attr].qualname, v.fam)
        return ExtV("super." + attr, v.fam)
    if v.role == "rc2handle":
        return None
    if v.role == "optional" and v.var[0] == "rc2model":
        return MethV(v, attr)
    if v.role == "check":
        return MethV(v, attr)
    if v.role == "token":
        if attr == "text":
            return Sym(("text", v.var), "str")
    return MethV(v, attr)


def elem_iter(interp, v: ElemV, node):
    if v.role in ("set", "coll", "layer"):
        b = interp.fresh_var("m")
        role = v.fam if isinstance(v.fam, str) else "plain"
        if role in ("set", "coll", "layer"):
            # a collection of collections: the inner member role travels in ``cls``
            return [("each", b, ("members", v.var), PTRUE, ElemV(b, role, v.cls or "plain", ""))]
        return [("each", b, ("members", v.var), PTRUE, ElemV(b, role, None, v.cls))]
    if v.role == "partition":
        b = interp.fresh_var("L")
        interp.log("use.as-list", node, value=v)
        return [("each", b, ("members", v.var), PTRUE, ElemV(b, "layer", v.fam, v.cls))]
    if v.role == "cnf":
        b = interp.fresh_var("cl")
        return [("each", b, ("members", v.var), PTRUE, ElemV(b, "clause"))]
    if v.role == "goal":
        b = interp.fresh_var("g")
        return [("each", b, ("members", v.var), PTRUE, ElemV(b, "goalexpr", fam=v.var))]
    if v.role == "optional":
        b = interp.fresh_var("x")
        return [("each", b, ("members", v.var), PTRUE, ElemV(b, "lit"))]
    if v.role in ("plain", "key", "pos", "lit"):
        b = interp.fresh_var("x")
        return [("each", b, ("members", desc(v)), PTRUE, ElemV(b, "plain"))]
    if v.role == "clause":
        b = interp.fresh_var("l")
        return [("each", b, ("members", v.var), PTRUE, ElemV(b, "lit"))]
    return None


def elem_getitem(interp, v: ElemV, idx, node):
    li = interp.as_lin(idx)
    if v.role in ("partition", "layer", "coll", "set") and li is not None:
        pos = li.lin
        if F.lin_is_const(pos) and pos[1] < 0:
            pos = F.lin_add(F.lin_term(("len", v.var)), pos)
        interp.log("index", node, obj=v, fam=("members", v.var), pos=pos, raw=li.lin)
        if v.role == "partition":
            interp.log("use.as-list", node, value=v)
            return ElemV(("at", v.var, ("lin", pos)), "layer", v.fam, v.cls)
        role = v.fam if isinstance(v.fam, str) else "plain"
        return ElemV(("at", v.var, ("lin", pos)), role, None, v.cls)
    if v.role == "goal" and li is not None:
        return ElemV(("at", v.var, ("lin", li.lin)), "goalexpr", fam=v.var)
    if v.role == "model":
        return ElemV(("modelval", v.var[1], desc(idx)), "modelval")
    if v.role == "super":
        return None
    return None


def unpack_value(interp, v, n, node):
    if isinstance(v, ElemV) and v.role == "plain":
        return [ElemV(("part", v.var, i), "plain") for i in range(n)]
    return None


def _isdisjoint(interp, a, b, node):
    """a.isdisjoint(b): no element of a occurs in b (the same predicate `not any(x in b for x in a)` yields)."""
    ps = []
    for sg in interp.segments(a, node):
        if sg[0] == "one":
            ps.append(interp.contains(b, sg[1], node))
        elif sg[0] == "each":
            ps.append(("exists", sg[1], sg[2], sg[3], interp.contains(b, sg[4], node)))
        else:
            x = interp.fresh_var("x")
            ps.append(("exists", x, ("members", sg[1]), PTRUE, interp.contains(b, ElemV(x, "plain"), node)))
    p = pred_not(pred_or(ps))
    return Const(p[1]) if p[0] == "const" else PredV(p)


def elem_method(interp, v: ElemV, name, args, kwargs, node):
    h = interp.method_hooks.get((v.role, name))
    if h is not None:
        return h(interp, v, args, kwargs, node)
    if v.role in ("set", "coll", "layer"):
        if name == "isdisjoint":
            return _isdisjoint(interp, v, args[0], node)
        if name in ("issubset", "issuperset"):
            b = interp.as_coll(args[0]) if not isinstance(args[0], ElemV) else args[0]
            y = b.var if b is not None else desc(args[0])
            return PredV(("subset", v.var, y) if name == "issubset" else ("subset", y, v.var))
        if name in ("union", "intersection", "difference"):
            b = interp.as_coll(args[0]) if not isinstance(args[0], ElemV) else args[0]
            sym = {"union": "|", "intersection": "&", "difference": "-"}[name]
            role = v.fam if isinstance(v.fam, str) else (b.fam if b is not None and isinstance(b.fam, str) else "plain")
            return ElemV(("setop", sym, v.var, b.var if b is not None else desc(args[0])), "set", role, v.cls or (b.cls if b is not None else ""))
        if name == "copy":
            interp.log("copy", node, src=v, dst=v)
            return v
        if name in ("add", "append", "discard", "remove", "update", "extend", "clear", "pop", "insert"):
            interp.log("elem.mutate", node, obj=v, method=name, args=tuple(args))
            return Const(None)
    if v.role == "model":
        if name == "eval":
            return ElemV(("modelval", v.var[1], desc(args[0])), "modelval")
        if name == "decls":
            b = interp.fresh_var("d")
            return interp.alloc(HList([("each", b, ("members", ("decls", v.var[1])), PTRUE, ElemV(b, "decl", fam=v.var))]))
    if v.role == "decl":
        if name == "name":
            return Sym(("declname", v.var), "str")
    if v.role == "modelval":
        if name == "as_long":
            interp.log("as_long", node, value=v)
            return Sym(("as_long", v.var), "int")
    if v.role == "goalexpr":
        if name == "children":
            b = interp.fresh_var("ch")
            return interp.alloc(HList([("each", b, ("members", ("children", v.var)), PTRUE, ElemV(b, "goalexpr", fam=v.fam))]))
    if v.role == "fnode":
        if name == "symbol_name":
            return Sym(("symbol_name", v.var), "str")
    if v.role == "clause":
        if name == "copy":
            cp = ElemV(("copy", v.var, interp.fresh_id("cp")), v.role, v.fam, v.cls)
            interp.log("copy", node, src=v, dst=cp)
            return cp
        if name in ("append", "extend", "insert", "pop", "remove"):
            interp.log("elem.mutate", node, obj=v, method=name, args=tuple(args))
            return Const(None)
    interp.log("call.method", node, obj=v, method=name, args=tuple(args), kwargs=dict(kwargs))
    return Sym(("mcall", desc(v), name, tuple(desc(a) for a in args), interp.fresh_id("c")))


@ext("BitVector.BitVector")
def _bitvector(interp, args, kwargs, node):
    """BitVector(intVal=i, size=n) of two constants: the bit string of i in n digits (the repository only takes its str())."""
    iv, sz = kwargs.get("intVal"), kwargs.get("size")
    if isinstance(sz, LinV) and F.lin_is_const(sz.lin):
        sz = Const(sz.lin[1])
    if isinstance(iv, LinV) and F.lin_is_const(iv.lin):
        iv = Const(iv.lin[1])
    if not args and isinstance(iv, Const) and isinstance(sz, Const) and isinstance(iv.value, int) and isinstance(sz.value, int) and set(kwargs) == {"intVal", "size"}:
        return Const(format(iv.value, f"0{sz.value}b") if sz.value > 0 else "")
    interp.log("call.unknown", node, func=Sym(("ext", "BitVector.BitVector")), args=tuple(args), kwargs=dict(kwargs))
    return Sym(("call", "BitVector.BitVector", tuple(desc(a) for a in args), tuple(sorted((k, desc(v)) for k, v in kwargs.items())), interp.fresh_id("c")))


@ext("builtins.dict.fromkeys")
def _dict_fromkeys(interp, args, kwargs, node):
    """dict.fromkeys(keys, value) for concrete constant keys."""
    if args and isinstance(args[0], Ref) and isinstance(interp.deref(args[0]), HList):
        segs = interp.segments(args[0], node)
        if all(sg[0] == "one" and isinstance(sg[1], Const) for sg in segs):
            d = HDict()
            val = args[1] if len(args) > 1 else Const(None)
            for sg in segs:
                interp.dict_store(d, sg[1], val, node)
            return interp.alloc(d)
    interp.log("call.unknown", node, func=Sym(("ext", "builtins.dict.fromkeys")), args=tuple(args), kwargs=dict(kwargs))
    return Sym(("call", "builtins.dict.fromkeys", tuple(desc(a) for a in args), interp.fresh_id("c")))


@ext("builtins.format")
def _format_builtin(interp, args, kwargs, node):
    """format(value, spec) of constants."""
    if args and all(isinstance(a, Const) for a in args) and not kwargs:
        try:
            return Const(format(*[a.value for a in args]))
        except Exception:  # noqa: BLE001
            pass
    interp.log("call.unknown", node, func=Sym(("ext", "builtins.format")), args=tuple(args), kwargs=dict(kwargs))
    return Sym(("call", "builtins.format", tuple(desc(a) for a in args), interp.fresh_id("c")), "str")
