"""E1 - formula-shape evaluator (finite abstract domain).

Formulas are nested tuples; two formulas are "the same" iff their truth tables coincide over the
union of their atoms.  Nothing is ever handed to a solver.

  ('atom', owner, field)            owner: ('var', name) bound element | ('obj', name) | other desc
  ('const', bool)
  ('not', f) ('and', (f..)) ('or', (f..)) ('implies', a, b) ('iff', a, b)
  ('big', 'and'|'or', binder, famdesc, guard, body)     quantified junction over a family
  ('rel', lin, op)                  linear relation  lin op 0   (op in '>', '>=', '==')
  ('opaque', label)

Linear integer forms ``Lin``: (tuple(sorted((term, coef))), const); terms are hashable descriptors.
"""
from __future__ import annotations

from itertools import product

TRUE = ("const", True)
FALSE = ("const", False)


def mk_not(f):
    if f[0] == "const":
        return ("const", not f[1])
    if f[0] == "not":
        return f[1]
    return ("not", f)


def mk_and(fs):
    fs = tuple(fs)
    return ("and", fs)


def mk_or(fs):
    fs = tuple(fs)
    return ("or", fs)


def subst_any(x, mapping):
    """Replace ('var', name) markers (keys of mapping) anywhere inside a nested tuple structure."""
    if isinstance(x, tuple):
        if len(x) == 2 and x[0] == "var" and x in mapping:
            return mapping[x]
        return tuple(subst_any(i, mapping) for i in x)
    if isinstance(x, frozenset):
        return frozenset(subst_any(i, mapping) for i in x)
    return x


def mentions(x, names) -> bool:
    """Does the nested structure mention any of the given markers (tuples or strings)?"""
    if x in names:
        return True
    if isinstance(x, (tuple, frozenset, list)):
        return any(mentions(i, names) for i in x)
    return False


def _alpha(f, depth=0):
    """Alpha-normalise binders of 'big' nodes so that equivalent quantified junctions compare equal."""
    if not isinstance(f, tuple) or not f:
        return f
    if f[0] == "big":
        _, kind, binder, fam, guard, body = f
        nb = ("var", f"_b{depth}")
        m = {binder: nb}
        return ("big", kind, nb, subst_any(fam, m), _canon_guard(subst_any(guard, m), depth + 1),
                canon(subst_any(body, m), depth + 1))
    return tuple(_alpha(i, depth) if isinstance(i, tuple) else i for i in f)


def _canon_guard(g, depth):
    return g


def leaves(f, acc=None):
    """Opaque leaves of a formula: atoms, big junctions, relations, opaque labels."""
    if acc is None:
        acc = set()
    k = f[0]
    if k in ("atom", "opaque", "rel"):
        acc.add(f)
    elif k == "big":
        acc.add(_alpha(f))
    elif k == "const":
        pass
    elif k == "not":
        leaves(f[1], acc)
    elif k in ("and", "or"):
        for g in f[1]:
            leaves(g, acc)
    elif k in ("implies", "iff"):
        leaves(f[1], acc)
        leaves(f[2], acc)
    elif k == "ite":
        leaves(f[1], acc)
        leaves(f[2], acc)
        leaves(f[3], acc)
    else:
        raise ValueError(f"unknown formula node {k}")
    return acc


def evalf(f, env) -> bool:
    k = f[0]
    if k in ("atom", "opaque", "rel"):
        return env[f]
    if k == "big":
        return env[_alpha(f)]
    if k == "const":
        return f[1]
    if k == "not":
        return not evalf(f[1], env)
    if k == "and":
        return all(evalf(g, env) for g in f[1])
    if k == "or":
        return any(evalf(g, env) for g in f[1])
    if k == "implies":
        return (not evalf(f[1], env)) or evalf(f[2], env)
    if k == "iff":
        return evalf(f[1], env) == evalf(f[2], env)
    if k == "ite":
        return evalf(f[2], env) if evalf(f[1], env) else evalf(f[3], env)
    raise ValueError(f"unknown formula node {k}")


def _order(ls):
    return sorted(ls, key=repr)


def table(f, order) -> tuple:
    out = []
    for bits in product((False, True), repeat=len(order)):
        out.append(evalf(f, dict(zip(order, bits))))
    return tuple(out)


def equiv(f, g) -> bool:
    ls = _order(leaves(f) | leaves(g))
    if len(ls) > 12:
        raise ValueError("too many atoms for a truth table")
    return table(f, ls) == table(g, ls)


def canon(f, depth=0):
    """Canonical (hashable) form: sorted leaves + truth table.  Equal canon <=> equivalent formulas
    over the same leaves; use equiv() when leaf sets may differ."""
    ls = _order(leaves(f))
    # drop leaves the formula does not depend on
    tb = table(f, ls)
    dep = []
    for i, leaf in enumerate(ls):
        n = len(ls)
        depends = False
        for idx, bits in enumerate(product((False, True), repeat=n)):
            if not bits[i]:
                j = idx + (1 << (n - 1 - i))
                if tb[idx] != tb[j]:
                    depends = True
                    break
        if depends:
            dep.append(leaf)
    if len(dep) == len(ls):
        return ("canon", tuple(dep), tb)
    rest = [l for l in ls if l not in dep]
    out = []
    for bits in product((False, True), repeat=len(dep)):
        env = dict(zip(dep, bits))
        env.update({l: False for l in rest})
        out.append(evalf(f, env))
    return ("canon", tuple(dep), tuple(out))


def canon_restrict(c, env):
    """A canonical form with some of its leaves fixed to constants (``env``: leaf -> bool), canonical again."""
    if not (isinstance(c, tuple) and c and c[0] == "canon"):
        return c
    ls, tb = c[1], c[2]
    if not any(l in env for l in ls):
        return c
    keep = [l for l in ls if l not in env]

    def val(assign):
        idx = 0
        for l in ls:
            idx = (idx << 1) | (1 if (env[l] if l in env else assign[l]) else 0)
        return tb[idx]

    rows = {}
    for bits in product((False, True), repeat=len(keep)):
        rows[bits] = val(dict(zip(keep, bits)))
    dep = []
    for i, l in enumerate(keep):
        if any(rows[b] != rows[b[:i] + (not b[i],) + b[i + 1:]] for b in rows):
            dep.append(l)
    out = []
    for bits in product((False, True), repeat=len(dep)):
        a = dict(zip(dep, bits))
        full = tuple(a.get(l, False) for l in keep)
        out.append(rows[full])
    return ("canon", tuple(dep), tuple(out))


def is_valid(f) -> bool:
    return all(table(f, _order(leaves(f))))


def is_unsat_table(f) -> bool:
    return not any(table(f, _order(leaves(f))))


def show(f) -> str:
    k = f[0]
    if k == "atom":
        o = f[1]
        on = o[1] if isinstance(o, tuple) and len(o) == 2 else repr(o)
        return f"{on}.{f[2]}"
    if k == "const":
        return "⊤" if f[1] else "⊥"
    if k == "not":
        return "¬" + _paren(f[1])
    if k == "and":
        return "∧".join(_paren(g) for g in f[1]) if f[1] else "⊤"
    if k == "or":
        return "∨".join(_paren(g) for g in f[1]) if f[1] else "⊥"
    if k == "implies":
        return f"{_paren(f[1])}→{_paren(f[2])}"
    if k == "iff":
        return f"{_paren(f[1])}↔{_paren(f[2])}"
    if k == "big":
        sym = "⋀" if f[1] == "and" else "⋁"
        return f"{sym}[{show_desc(f[2])}∈{show_desc(f[3])}]({show(f[5])})"
    if k == "rel":
        return f"({show_lin(f[1])} {f[2]} 0)"
    if k == "opaque":
        return f"‹{f[1]}›"
    return repr(f)


def _paren(f):
    s = show(f)
    return s if f[0] in ("atom", "const", "not", "big", "rel", "opaque") else f"({s})"


def show_desc(d) -> str:
    if isinstance(d, tuple):
        if len(d) == 2 and d[0] in ("var", "obj"):
            return str(d[1])
        return "(" + " ".join(show_desc(i) for i in d) + ")"
    return str(d)


# ----------------------------------------------------------------------------------------------
# linear integer forms
# ----------------------------------------------------------------------------------------------

def lin(terms=None, const=0):
    d = {}
    for t, c in (terms or {}).items():
        if c:
            d[t] = c
    return (tuple(sorted(d.items(), key=repr)), const)


def lin_const(c):
    return ((), c)


def lin_term(t):
    return (((t, 1),), 0)


def lin_add(a, b, sb=1):
    d = dict(a[0])
    for t, c in b[0]:
        d[t] = d.get(t, 0) + sb * c
    return lin(d, a[1] + sb * b[1])


def lin_scale(a, k):
    return lin({t: c * k for t, c in a[0]}, a[1] * k)


def lin_is_const(a):
    return not a[0]


def show_lin(a) -> str:
    parts = []
    for t, c in a[0]:
        ts = show_desc(t)
        parts.append(("+" if c > 0 else "-") + ("" if abs(c) == 1 else str(abs(c)) + "·") + ts)
    if a[1] or not parts:
        parts.append(("+" if a[1] >= 0 else "-") + str(abs(a[1])))
    s = " ".join(parts)
    return s[1:].strip() if s.startswith("+") else s


def rel(a, op, b):
    """Normalise  a op b  (op in < <= > >= ==) to ('rel', lin, '>'|'>='|'==')."""
    if op == ">":
        return ("rel", lin_add(a, b, -1), ">")
    if op == ">=":
        return ("rel", lin_add(a, b, -1), ">=")
    if op == "<":
        return ("rel", lin_add(b, a, -1), ">")
    if op == "<=":
        return ("rel", lin_add(b, a, -1), ">=")
    if op == "==":
        d = lin_add(a, b, -1)
        return ("rel", d, "==")
    raise ValueError(op)


# ----------------------------------------------------------------------------------------------
# guards over satisfiability patterns
# ----------------------------------------------------------------------------------------------
# A guard is a Boolean combination of SAT(f) atoms:  ('sat', f) | ('not', g) | ('and', (g..)) | ('or', (g..))
# | ('const', b).  The formulas range over a small set of opaque leaves; a satisfiability pattern is the
# non-empty set S of minterms (over those leaves) that some world realises.  SAT(f) holds under S iff a
# minterm of f is in S.  Two guards are equivalent iff they agree under every S.

def guard_leaves(g, acc=None):
    if acc is None:
        acc = set()
    k = g[0]
    if k == "sat":
        leaves(g[1], acc)
    elif k == "not":
        guard_leaves(g[1], acc)
    elif k in ("and", "or"):
        for h in g[1]:
            guard_leaves(h, acc)
    elif k == "const":
        pass
    else:
        raise ValueError(f"unknown guard node {k}")
    return acc


def guard_eval(g, S, order) -> bool:
    k = g[0]
    if k == "sat":
        return any(evalf(g[1], dict(zip(order, bits))) for bits in S)
    if k == "not":
        return not guard_eval(g[1], S, order)
    if k == "and":
        return all(guard_eval(h, S, order) for h in g[1])
    if k == "or":
        return any(guard_eval(h, S, order) for h in g[1])
    if k == "const":
        return g[1]
    raise ValueError(k)


def guard_patterns(order):
    minterms = list(product((False, True), repeat=len(order)))
    n = len(minterms)
    if n > 16:
        from .front import AnalysisError
        raise AnalysisError(f"a guard over {len(order)} different formulas: too many satisfiability patterns to enumerate")
    for mask in range(1, 1 << n):
        yield tuple(m for i, m in enumerate(minterms) if mask >> i & 1)


def guard_equiv(g, h, assume=None):
    """Equivalence of two guards under every satisfiability pattern (optionally only those where the
    guard ``assume`` holds).  Returns (True, None) or (False, witness-pattern-description)."""
    order = _order(guard_leaves(g) | guard_leaves(h) | (guard_leaves(assume) if assume else set()))
    for S in guard_patterns(order):
        if assume is not None and not guard_eval(assume, S, order):
            continue
        if guard_eval(g, S, order) != guard_eval(h, S, order):
            desc = [" ".join(("" if b else "¬") + show(l) for l, b in zip(order, bits)) for bits in S]
            return False, "satisfiable minterms {" + "; ".join(desc) + "}"
    return True, None


def guard_implies(g, h, assume=None):
    order = _order(guard_leaves(g) | guard_leaves(h) | (guard_leaves(assume) if assume else set()))
    for S in guard_patterns(order):
        if assume is not None and not guard_eval(assume, S, order):
            continue
        if guard_eval(g, S, order) and not guard_eval(h, S, order):
            desc = [" ".join(("" if b else "¬") + show(l) for l, b in zip(order, bits)) for bits in S]
            return False, "satisfiable minterms {" + "; ".join(desc) + "}"
    return True, None


def show_guard(g) -> str:
    k = g[0]
    if k == "sat":
        return f"SAT({show(g[1])})"
    if k == "not":
        if g[1][0] == "sat":
            return f"UNSAT({show(g[1][1])})"
        return "not " + show_guard(g[1])
    if k == "and":
        return "(" + " and ".join(show_guard(h) for h in g[1]) + ")"
    if k == "or":
        return "(" + " or ".join(show_guard(h) for h in g[1]) + ")"
    if k == "const":
        return str(g[1])
    return repr(g)
