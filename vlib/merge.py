"""Merging the body paths of a generic loop back into the state, and havocking while-loop heads."""
from __future__ import annotations

import ast

from . import formula as F
from .absvals import (Const, Sym, PredV, FormulaV, LinV, Ref, TupleV, ElemV, HList, HDict, HObj, HSolver, HWcnf,
                      HOpaque, desc, pred_not, pred_and, pred_or, PTRUE, PFALSE)
from .front import AnalysisError


def case_guard(case):
    """The conjunction of the element-local decisions of one body path, as a predicate."""
    ps = list(case.assume)
    for key, val in case.guard:
        if isinstance(key, tuple) and key and key[0] == "check":
            ps.append(("checkis", key[1], val))
        elif isinstance(key, tuple) and key and key[0] == "loopexit":
            ps.append(("loopexit", key[1], val))
        elif val is True:
            ps.append(key)
        elif val is False:
            ps.append(pred_not(key))
        else:
            ps.append(("decision", key, val))
    return pred_and(ps)


def compute_delta(interp, base, st, nframe, pre_oid, node):
    """Differences between the state at loop entry (base) and at the end of one body path (st)."""
    delta = []
    for oid, bo in base.heap.items():
        co = st.heap.get(oid)
        if co is None:
            continue
        if isinstance(bo, HList):
            n = len(bo.segs)
            cs = co.segs
            if cs and cs[0][0] == "sym" and isinstance(cs[0][1], tuple) and cs[0][1][:1] == ("carried",) and (not bo.segs or bo.segs[0] != cs[0]):
                co = HList(cs[1:], is_set=co.is_set)  # content of earlier iterations, not an effect of this one
            if co.segs[:n] != bo.segs:
                if len(co.segs) < n or True:
                    delta.append(("list.rewrite", oid, tuple(co.segs)))
                continue
            if len(co.segs) > n:
                delta.append(("list", oid, co.segs[n:]))
        elif isinstance(bo, HDict):
            if co.sym and isinstance(co.sym, tuple) and co.sym[:1] == ("carried",) and co.sym != bo.sym:
                co = HDict(co.entries, co.each, bo.sym)
                if hasattr(st.heap[oid], "symkeys"):
                    co.symkeys = st.heap[oid].symkeys
            changed = {k: v for k, v in co.entries.items() if k not in bo.entries or bo.entries[k] != v}
            removed = [k for k in bo.entries if k not in co.entries]
            neweach = co.each[len(bo.each):]
            if changed or removed or neweach:
                delta.append(("dict", oid, changed, removed, neweach, getattr(co, "symkeys", {})))
        elif isinstance(bo, HObj):
            changed = {k: v for k, v in co.attrs.items() if k not in bo.attrs or bo.attrs[k] != v}
            removed = [k for k in bo.attrs if k not in co.attrs]
            if changed or removed:
                delta.append(("attr", oid, changed, removed))
        elif isinstance(bo, HSolver):
            d = {"frames": {}, "soft": {}, "extra": len(co.frames) - len(bo.frames), "objectives": co.objectives[len(bo.objectives):],
                 "options": {k: v for k, v in co.options.items() if bo.options.get(k) != v}}
            for j, fr in enumerate(co.frames):
                if j < len(bo.frames):
                    if fr[:len(bo.frames[j])] != bo.frames[j]:
                        d["rewrite"] = True
                    elif len(fr) > len(bo.frames[j]):
                        d["frames"][j] = fr[len(bo.frames[j]):]
                else:
                    d["frames"].setdefault("new", []).extend(fr)
            for j, fr in enumerate(co.soft):
                if j < len(bo.soft):
                    if len(fr) > len(bo.soft[j]):
                        d["soft"][j] = fr[len(bo.soft[j]):]
                else:
                    d["soft"].setdefault("new", []).extend(fr)
            if d["frames"] or d["soft"] or d["extra"] or d["objectives"] or d["options"] or d.get("rewrite"):
                delta.append(("solver", oid, d))
        elif isinstance(bo, HWcnf):
            if co.hard[:len(bo.hard)] != bo.hard or co.soft[:len(bo.soft)] != bo.soft:
                raise AnalysisError(f"{interp.fn_name()}:{getattr(node, 'lineno', '?')}: WCNF rewritten inside a generic loop")
            if len(co.hard) > len(bo.hard) or len(co.soft) > len(bo.soft):
                delta.append(("wcnf", oid, co.hard[len(bo.hard):], co.soft[len(bo.soft):]))
        elif isinstance(bo, HOpaque):
            changed = {k: v for k, v in co.attrs.items() if k not in bo.attrs or bo.attrs[k] != v}
            newlog = co.log[len(bo.log):]
            if changed or newlog:
                delta.append(("opaque", oid, changed, newlog))
    for i in range(min(nframe, len(st.frames))):
        be, ce = base.frames[i].env, st.frames[i].env
        for name, v in ce.items():
            if name not in be or be[name] != v:
                if isinstance(v, Sym) and isinstance(v.label, tuple) and v.label[:1] == ("carried",) and v.label[-1] == name:
                    continue  # the havocked loop-carried value itself: not assigned on this body path
                delta.append(("var", i, name, v))
    return delta


def wrap_item(evar, fam, guard, item):
    return ("each", evar, fam, guard, item)


def merge_cases(interp, base, cases, evar, fam, seg_guard, loop_id, nframe, pre_oid, node):
    """Apply the 'next' cases to the base state as guarded for-each effects; return the exit cases."""
    exits = []
    var_cases: dict = {}
    n_next = 0
    target_names = set()
    from .absint import iter_events

    for case in cases:
        case.delta = compute_delta(interp, base, case.state, nframe, pre_oid, node)
        if case.sig[0] == "next":
            # an insertion into a list that exists outside the loop is not an append: order unknown afterwards
            for ev, Q in iter_events(case.events):
                if ev.kind in ("list.insert", "list.pop", "list.remove", "list.clear", "list.sort") and isinstance(ev.data.get("obj"), Ref) and ev.obj.oid <= pre_oid and ev.obj.oid in base.heap:
                    case.delta = [d for d in case.delta if not (d[0] == "list" and d[1] == ev.obj.oid)]
                    case.delta.append(("list.rewrite", ev.obj.oid, ()))
    # a solver that exists outside the loop, keeps what an iteration asserts and is consulted inside the loop: the scope an
    # iteration's test really has includes the assertions of all earlier iterations - made visible in the test's scope
    growing = set()
    for case in cases:
        if case.sig[0] == "next":
            for d in case.delta:
                if d[0] == "solver" and d[1] <= pre_oid and (d[2]["frames"] or d[2]["soft"] or d[2]["extra"] > 0):
                    growing.add(d[1])
    if growing:
        for case in cases:
            for ev, Q in iter_events(case.events):
                if ev.kind == "query" and isinstance(ev.data.get("obj"), Ref) and ev.obj.oid in growing:
                    marker = ("sym", ("assertions of earlier iterations", loop_id))
                    fr = tuple(ev.data["frames"])
                    if not any(marker in f for f in fr):
                        ev.data["frames"] = fr[:-1] + (tuple(fr[-1]) + (marker,),) if fr else ((marker,),)
                        ev.data["accumulating"] = True
    for case in cases:
        if case.sig[0] != "next":
            exits.append(case)
            continue
        n_next += 1
        g = case_guard(case)
        case.gpred = g
        delta = case.delta
        memo = {}
        imp = lambda v: interp.import_value(v, case.state, pre_oid, memo)  # noqa: E731
        for d in delta:
            kind = d[0]
            if kind == "list":
                o = base.heap[d[1]]
                for s in d[2]:
                    if s[0] == "one":
                        o.segs.append(("each", evar, fam, g, imp(s[1])))
                    elif s[0] == "each":
                        o.segs.append(("each*", evar, fam, g, ("each", s[1], s[2], s[3], imp(s[4]))))
                    elif s[0] == "each*":
                        o.segs.append(("each*", evar, fam, g, (s[0], s[1], s[2], s[3], _imp_seg(s[4], imp))))
                    else:
                        o.segs.append(("each*", evar, fam, g, s))
            elif kind == "list.rewrite":
                o = base.heap[d[1]]
                o.segs = [("sym", ("rewritten", loop_id, d[1]))]
                interp.log("loop.list-rewrite", node, obj=Ref(d[1]), loop=loop_id)
            elif kind == "dict":
                o = base.heap[d[1]]
                for k, v in d[2].items():
                    keyv = d[5].get(k)
                    if keyv is None:
                        keyv = Const(k)
                    o.each.append(("each", evar, fam, g, imp(keyv), imp(v)))
                for k in d[3]:
                    interp.log("loop.dict-del", node, obj=Ref(d[1]), key=k, guard=g, loop=loop_id)
                for e in d[4]:
                    o.each.append(("each", e[1], ("nested", evar, fam, g, e[2]), e[3], imp(e[4]), imp(e[5])))
            elif kind == "attr":
                for k, v in d[2].items():
                    var_cases.setdefault(("attr", d[1], k), []).append((g, imp(v)))
            elif kind == "solver":
                o = base.heap[d[1]]
                dd = d[2]
                if dd.get("rewrite"):
                    raise AnalysisError(f"{interp.fn_name()}:{getattr(node, 'lineno', '?')}: solver frames rewritten below loop entry depth")
                for j, items in dd["frames"].items():
                    tgt = o.frames[-1] if j == "new" else o.frames[j]
                    for it in items:
                        tgt.append(wrap_item(evar, fam, g, it))
                for j, items in dd["soft"].items():
                    tgt = o.soft[-1] if j == "new" else o.soft[j]
                    for it in items:
                        tgt.append(wrap_item(evar, fam, g, it))
                if dd["extra"]:
                    interp.log("loop.unbalanced", node, obj=Ref(d[1]), extra=dd["extra"], guard=g, loop=loop_id)
                    if dd["extra"] < 0:
                        for _ in range(-dd["extra"]):
                            if len(o.frames) > 1:
                                o.frames.pop()
                                o.soft.pop()
                for ob in dd["objectives"]:
                    o.objectives.append(wrap_item(evar, fam, g, ob))
                o.options.update(dd["options"])
            elif kind == "wcnf":
                o = base.heap[d[1]]
                for it in d[2]:
                    o.hard.append(wrap_item(evar, fam, g, it))
                for it in d[3]:
                    o.soft.append(wrap_item(evar, fam, g, it))
            elif kind == "opaque":
                o = base.heap[d[1]]
                for k, v in d[2].items():
                    var_cases.setdefault(("oattr", d[1], k), []).append((g, imp(v)))
                for entry in d[3]:
                    o.log.append(("each", evar, fam, g, entry))
            elif kind == "var":
                var_cases.setdefault(("var", d[1], d[2]), []).append((g, imp(d[3])))
    # ---- variables / attributes assigned on some body paths
    loopvars = {}
    for key, cs in var_cases.items():
        if key[0] == "var":
            env = base.frames[key[1]].env
            name = key[2]
            init = env.get(name)
        elif key[0] == "attr":
            obj = base.heap[key[1]]
            name = key[2]
            init = obj.attrs.get(name)
        else:
            obj = base.heap[key[1]]
            name = key[2]
            init = obj.attrs.get(name)
        newv = merged_loop_value(interp, init, cs, evar, fam, loop_id, name, n_next)
        loopvars[(key[0], name)] = (init, cs, newv)
        if key[0] == "var":
            env[name] = newv
        else:
            obj.attrs[name] = newv
    if loopvars:
        interp.log("loop.vars", node, loop=loop_id, vars=loopvars, evar=evar, fam=fam)
    # counters must move past everything the cases allocated
    for case in cases:
        for k, v in case.state.counters.items():
            if base.counters.get(k, 0) < v:
                base.counters[k] = v
    return exits


def _imp_seg(seg, imp):
    if seg[0] == "one":
        return ("one", imp(seg[1]))
    if seg[0] == "each":
        return ("each", seg[1], seg[2], seg[3], imp(seg[4]))
    if seg[0] == "each*":
        return ("each*", seg[1], seg[2], seg[3], _imp_seg(seg[4], imp))
    return seg


def merged_loop_value(interp, init, cs, evar, fam, loop_id, name, n_next):
    """Value of a variable after a generic loop in which some body paths assign it."""
    vals = {desc(v) for _, v in cs}
    guards = pred_or([g for g, _ in cs])
    # the loop variable itself / per-element temporaries: last element's value, opaque
    if len(vals) == 1:
        v = cs[0][1]
        if isinstance(v, Const) and isinstance(v.value, bool) and (init is None or isinstance(init, Const)):
            ex = ("exists", evar, fam, PTRUE, guards)
            if init is None or init.value is None or init.value == (not v.value):
                # flag pattern: init (not c) ; set to c under guard  =>  c iff some element satisfies the guard
                return PredV(ex if v.value else pred_not(ex))
            if init.value == v.value:
                return init
    return Sym(("acc", loop_id, name), "")


def apply_exit_case(interp, base, case, evar, nframe, pre_oid, node):
    """The loop is left at a witness element through ``case``: apply that path's own effects."""
    delta = getattr(case, "delta", None)
    if delta is None:
        delta = compute_delta(interp, base, case.state, nframe, pre_oid, node)
    memo = {}
    imp = lambda v: interp.import_value(v, case.state, pre_oid, memo)  # noqa: E731
    for d in delta:
        kind = d[0]
        if kind == "list":
            base.heap[d[1]].segs.extend(_imp_seg(s, imp) for s in d[2])
        elif kind == "dict":
            o = base.heap[d[1]]
            for k, v in d[2].items():
                o.entries[k] = imp(v)
            for k in d[3]:
                o.entries.pop(k, None)
        elif kind == "attr":
            for k, v in d[2].items():
                base.heap[d[1]].attrs[k] = imp(v)
        elif kind == "solver":
            o = base.heap[d[1]]
            dd = d[2]
            for j, items in dd["frames"].items():
                if j == "new":
                    o.frames.append(list(items))
                    o.soft.append([])
                else:
                    o.frames[j].extend(items)
            for j, items in dd["soft"].items():
                (o.soft[-1] if j == "new" else o.soft[j]).extend(items)
            o.objectives.extend(dd["objectives"])
            o.options.update(dd["options"])
        elif kind == "wcnf":
            o = base.heap[d[1]]
            o.hard.extend(d[2])
            o.soft.extend(d[3])
        elif kind == "opaque":
            o = base.heap[d[1]]
            for k, v in d[2].items():
                o.attrs[k] = imp(v)
            o.log.extend(d[3])
        elif kind == "var":
            base.frames[d[1]].env[d[2]] = imp(d[3])
    g = case_guard(case)
    interp.log("loop.exit", node, guard=g, sig=case.sig[0], evar=evar)


# ----------------------------------------------------------------------------------------------
# while loops
# ----------------------------------------------------------------------------------------------
MUTATORS = {"append", "extend", "insert", "add", "update", "pop", "remove", "discard", "clear", "sort",
            "add_assertion", "push", "add_clause", "add_soft", "setdefault"}


def _assigned_and_mutated(node):
    assigned, mutated = set(), set()
    for n in ast.walk(node):
        if isinstance(n, (ast.Assign, ast.AnnAssign, ast.AugAssign)):
            targets = n.targets if isinstance(n, ast.Assign) else [n.target]
            for t in targets:
                for x in ast.walk(t):
                    if isinstance(x, ast.Name) and isinstance(x.ctx, ast.Store):
                        assigned.add(x.id)
                if isinstance(t, ast.Subscript) and isinstance(t.value, ast.Name):
                    mutated.add(t.value.id)
        elif isinstance(n, ast.For):
            for x in ast.walk(n.target):
                if isinstance(x, ast.Name):
                    assigned.add(x.id)
        elif isinstance(n, ast.Call) and isinstance(n.func, ast.Attribute) and isinstance(n.func.value, ast.Name):
            if n.func.attr in MUTATORS or n.func.attr == "add":
                mutated.add(n.func.value.id)
        elif isinstance(n, ast.With):
            for it in n.items:
                if it.optional_vars is not None:
                    for x in ast.walk(it.optional_vars):
                        if isinstance(x, ast.Name):
                            assigned.add(x.id)
    return assigned, mutated


def havoc_loop_head(interp, node, loop_id):
    """Replace loop-carried variables by generic head values; returns {name: entry value snapshot}."""
    assigned, mutated = _assigned_and_mutated(node)
    env = interp.frame.env
    entry = {}
    for name in sorted(assigned | mutated):
        if name not in env:
            continue
        v = env[name]
        entry[name] = interp.snapshot(v) if isinstance(v, Ref) else ("val", v)
        head = ("head", loop_id, name)
        if isinstance(v, Ref):
            o = interp.deref(v)
            if isinstance(o, HList):
                tmpl = None
                if len(o.segs) == 1 and o.segs[0][0] == "each" and isinstance(o.segs[0][4], ElemV) and o.segs[0][4].var == o.segs[0][1]:
                    tmpl = o.segs[0][4]
                if name in assigned and tmpl is not None:
                    b = interp.fresh_var("h")
                    env[name] = interp.alloc(HList([("each", b, ("members", head), PTRUE, ElemV(b, tmpl.role, tmpl.fam, tmpl.cls))], is_set=o.is_set))
                elif name in assigned and not (name in mutated):
                    env[name] = interp.alloc(HList([("sym", head)], is_set=o.is_set))
                else:
                    # mutated in place: same object, unknown prefix
                    o.segs = [("sym", head)]
            elif isinstance(o, HDict):
                if name in mutated:
                    o.sym = head
            elif isinstance(o, HSolver):
                o.frames[-1].append(("sym", head))
            elif isinstance(o, HOpaque):
                o.log.append(("sym", head))
        elif name in assigned:
            hint = "int" if (isinstance(v, LinV) or (isinstance(v, Const) and isinstance(v.value, int) and not isinstance(v.value, bool))) else ""
            env[name] = Sym(head, hint)
    # stateful objects used in the body through names that are never re-assigned (e.g. the RC2 handle)
    return entry


def loop_back_snapshot(interp, node, entry):
    env = interp.frame.env
    snap = {}
    for name in entry:
        v = env.get(name)
        snap[name] = interp.snapshot(v) if isinstance(v, Ref) else ("val", v)
    return snap
