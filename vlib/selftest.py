"""Both-ways self-test of the checkers: every variant of selftest/corpus.json is applied to a scratch copy of the
packages (textual edit located by its exact old text; the copy lives in a fresh temp directory and is removed) and the
listed property checks are run with --root on it.  'fire' variants must give exit 1 with a VIOLATION naming one of the
expected rules; 'silent' variants (behaviour-preserving rewrites, and repaired versions of findings) must give exit 0.
The result never changes a verdict on /repo; it is written to evidence/selftest.json."""
from __future__ import annotations

import concurrent.futures as cf
import json
import os
import shutil
import subprocess
import sys
import tempfile
import time

VERIF = os.path.dirname(os.path.dirname(os.path.abspath(__file__)))
PKGS = ("inference", "parser", "infocf")


def apply_variant(root, tmp, v):
    for pkg in PKGS:
        shutil.copytree(os.path.join(root, pkg), os.path.join(tmp, pkg), ignore=shutil.ignore_patterns("__pycache__"))
    if v.get("transform"):
        from vlib import transforms
        try:
            transforms.ALL[v["transform"]](tmp)
        except (OSError, SyntaxError):
            return "does-not-compile"
        return "ok"
    if v.get("patch"):
        r = subprocess.run(["patch", "-p1", "-s", "-i", v["patch"]], cwd=tmp, capture_output=True, text=True)
        return "ok" if r.returncode == 0 else "anchor-missing"
    for e in v["edits"]:
        p = os.path.join(tmp, e["file"])
        s = open(p).read()
        if s.count(e["old"]) == 0:
            return "anchor-missing"
        parts = s.split(e["old"])
        i = e.get("index", 0)
        if i + 1 >= len(parts):
            return "anchor-missing"
        s2 = e["old"].join(parts[:i + 1]) + e["new"] + e["old"].join(parts[i + 1:])
        if e["file"].endswith(".py"):
            import ast
            try:
                ast.parse(s2)
            except SyntaxError:
                return "does-not-compile"
        open(p, "w").write(s2)
    return "ok"


def run_variant(root, v):
    tmp = tempfile.mkdtemp(prefix="vself_")
    out = {"id": v["id"], "expect": v["expect"], "results": {}}
    try:
        st = apply_variant(root, tmp, v)
        out["applied"] = st
        if st != "ok":
            return out
        for pr in v["props"]:
            r = subprocess.run([os.path.join(VERIF, "vcheck"), pr, "--root", tmp], capture_output=True, text=True,
                               env={**os.environ, "VERIF_NO_EVIDENCE": "1"})
            rules = sorted({l.split()[2] for l in r.stdout.splitlines() if l.startswith("[FAIL]") and len(l.split()) > 2})
            first = next((l for l in r.stdout.splitlines() if l.startswith("[FAIL]")), "")
            err = next((l for l in r.stdout.splitlines() if l.startswith("ANALYSIS-ERROR")), "")
            out["results"][pr] = {"exit": r.returncode, "rules": rules, "first": first[:300], "error": err[:300]}
    finally:
        shutil.rmtree(tmp, ignore_errors=True)
    return out


def verdict(v, res):
    if res.get("applied") != "ok":
        return "stale:" + res.get("applied", "?")
    for pr in v["props"]:
        r = res["results"][pr]
        if v["expect"] == "silent":
            if r["exit"] != 0:
                return f"ALARM on {pr} (exit {r['exit']}): {r['first'] or r['error']}"
        else:
            want = v.get("rules", {}).get(pr)
            if r["exit"] != 1:
                return f"MISSED by {pr} (exit {r['exit']}) {r['error']}"
            if want and not (set(want) & set(r["rules"])):
                return f"{pr} fired with {r['rules']}, expected one of {want}"
    return "ok"


def load_variants():
    """Hand-written and harvested variants of selftest/corpus.json plus the sub-agent changes kept under seeded/ (each must
    be reported by every check recorded in its meta.json)."""
    import glob

    vs = list(json.load(open(os.path.join(VERIF, "selftest", "corpus.json")))["variants"])
    allp = [c["property_id"] for c in json.load(open(os.path.join(VERIF, "MANIFEST.json")))["checks"]]
    vs.append({"id": "s-global-ast-roundtrip", "expect": "silent", "props": allp, "transform": "ast_unparse",
               "note": "every hand-written source file rewritten by ast.unparse (comments gone, layout normalised)"})
    vs.append({"id": "s-global-alpha-rename", "expect": "silent", "props": allp, "transform": "alpha_rename",
               "note": "every local variable of every function renamed"})
    for tid, note in (("comprehension_statements", "every comprehension used as a statement written as loops"),
                      ("swap_branches", "every if/else written with the negated test and swapped branches"),
                      ("none_tests", "== None / != None and is None / is not None exchanged everywhere"),
                      ("expand_augassign", "every augmented assignment on a name expanded"),
                      ("flip_comparisons", "every order comparison a<b written b>a"),
                      ("else_after_return", "statements after an `if ...: return/raise/continue/break` moved into its else branch"),
                      ("temp_return", "every `return <expr>` written as `_ret = <expr>; return _ret`"),
                      ("ternary_to_if", "every `x = a if c else b` written as an if statement"),
                      ("name_condition", "every call / comparison / Boolean test of an if statement bound to a name first"),
                      ("listcomp_to_loop", "every `x = [e for v in xs if c]` written as a loop with append")):
        vs.append({"id": "s-global-" + tid.replace("_", "-"), "expect": "silent", "props": allp, "transform": tid, "note": note})
    for mp in sorted(glob.glob(os.path.join(VERIF, "seeded", "*", "meta.json"))):
        m = json.load(open(mp))
        d = os.path.dirname(mp)
        if not m.get("detected_by"):
            continue
        vs.append({"id": "seed-" + os.path.basename(d), "expect": "fire", "props": list(m["detected_by"]), "patch": os.path.join(d, "patch.diff"),
                   "rules": m.get("rules", {}), "note": m.get("what", "")})
    # behaviour-preserving refactorings written by sub-agents (refactorings/<id>-<k>/): every check stays silent; a check
    # listed under allowed_errors may answer exit 2 (cannot read the new form), which is recorded and is not an alarm
    for mp in sorted(glob.glob(os.path.join(VERIF, "refactorings", "*", "meta.json"))):
        m = json.load(open(mp))
        d = os.path.dirname(mp)
        props = [p for p in allp if p not in m.get("allowed_errors", [])]
        vs.append({"id": "refac-" + os.path.basename(d), "expect": "silent", "props": props, "patch": os.path.join(d, "patch.diff"), "note": m.get("what", "")})
    return vs


def for_property(prop, root="/repo", jobs=16):
    """Self-validation of one property's check (thorough tier): its must-fire / must-stay-silent variants."""
    vs = []
    for v in load_variants():
        if prop in v["props"]:
            w = dict(v)
            w["props"] = [prop]
            if isinstance(w.get("rules"), dict):
                w["rules"] = {prop: w["rules"].get(prop)} if w["rules"].get(prop) else {}
            vs.append(w)
    t0 = time.time()
    with cf.ThreadPoolExecutor(jobs) as ex:
        res = list(ex.map(lambda v: run_variant(root, v), vs))
    rows = [(v, verdict(v, r)) for v, r in zip(vs, res)]
    out = {
        "must_fire": sum(1 for v, _ in rows if v["expect"] == "fire"),
        "fired_as_expected": sum(1 for v, d in rows if v["expect"] == "fire" and d == "ok"),
        "must_stay_silent": sum(1 for v, _ in rows if v["expect"] == "silent"),
        "silent_as_expected": sum(1 for v, d in rows if v["expect"] == "silent" and d == "ok"),
        "stale_variants": sum(1 for _, d in rows if d.startswith("stale")),
        "unexpected": [{"id": v["id"], "verdict": d} for v, d in rows if d != "ok" and not d.startswith("stale")],
        "wall_s": round(time.time() - t0, 2),
        "note": "variants are applied to scratch copies of /repo's packages; the outcome never changes this check's verdict on /repo",
    }
    return out


def main(argv):
    root = "/repo"
    only = None
    jobs = 16
    for a in argv:
        if a.startswith("--root="):
            root = a.split("=", 1)[1]
        elif a.startswith("--only="):
            only = a.split("=", 1)[1]
        elif a.startswith("--jobs="):
            jobs = int(a.split("=", 1)[1])
    vs = [v for v in load_variants() if not only or only in v["id"] or only in v["props"]]
    t0 = time.time()
    with cf.ThreadPoolExecutor(jobs) as ex:
        res = list(ex.map(lambda v: run_variant(root, v), vs))
    bad = 0
    rows = []
    for v, r in zip(vs, res):
        vd = verdict(v, r)
        rows.append({"id": v["id"], "expect": v["expect"], "props": v["props"], "verdict": vd,
                     "rules": {p: x["rules"] for p, x in r.get("results", {}).items()}})
        if vd != "ok":
            bad += 1
            print(f"SELFTEST {v['id']}: {vd}")
    n_fire = sum(1 for v in vs if v["expect"] == "fire")
    print(f"selftest: {len(vs)} variants ({n_fire} must-fire, {len(vs) - n_fire} must-stay-silent), {bad} unexpected; {time.time() - t0:.1f}s")
    if not only:
        os.makedirs(os.path.join(VERIF, "evidence"), exist_ok=True)
        with open(os.path.join(VERIF, "evidence", "selftest.json"), "w") as fh:
            json.dump({"variants": len(vs), "must_fire": n_fire, "must_stay_silent": len(vs) - n_fire, "unexpected": bad, "rows": rows}, fh, indent=1)
    return 1 if bad else 0


if __name__ == "__main__":
    sys.exit(main(sys.argv[1:]))
