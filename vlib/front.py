"""E0 - front end / resolver.

Parses every module of the analysed packages with ``ast`` (nothing is imported or executed),
builds import maps, the class table with a linearised MRO, the function table and resolves names
through imports.  All other engines work on the ``Program`` built here.
"""
from __future__ import annotations

import ast
import os
from dataclasses import dataclass, field

PACKAGES = ("inference", "parser", "infocf")
THOROUGH_EXTRA = ("scripts", "benchmarks")


class AnalysisError(Exception):
    """The analysis cannot decide (unknown construct, vanished anchor, ...): exit 2, never a verdict."""


@dataclass
class FunctionInfo:
    qualname: str  # module.func or module.Class.func
    module: str
    cls: str | None  # qualified class name or None
    node: ast.FunctionDef
    decorators: tuple[str, ...] = ()

    @property
    def name(self) -> str:
        return self.node.name

    @property
    def path(self) -> str:
        return self.module.replace(".", "/") + ".py"

    def where(self, node: ast.AST | None = None) -> str:
        n = node if node is not None else self.node
        return f"{self.path}:{getattr(n, 'lineno', '?')}"


@dataclass
class ClassInfo:
    qualname: str
    module: str
    node: ast.ClassDef
    bases: list[str] = field(default_factory=list)  # resolved dotted names (repo or external)
    methods: dict[str, FunctionInfo] = field(default_factory=dict)
    class_attrs: dict[str, ast.expr] = field(default_factory=dict)


@dataclass
class ModuleInfo:
    name: str
    path: str
    tree: ast.Module
    source: str
    imports: dict[str, str] = field(default_factory=dict)  # local name -> dotted target
    functions: dict[str, FunctionInfo] = field(default_factory=dict)
    classes: dict[str, ClassInfo] = field(default_factory=dict)
    globals_: dict[str, ast.expr] = field(default_factory=dict)  # simple module-level assignments
    star_imports: list[str] = field(default_factory=list)


def _decorator_name(d: ast.expr) -> str:
    if isinstance(d, ast.Name):
        return d.id
    if isinstance(d, ast.Attribute):
        return d.attr
    if isinstance(d, ast.Call):
        return _decorator_name(d.func)
    return "?"


class Program:
    def __init__(self, root: str, packages: tuple[str, ...] = PACKAGES):
        self.root = os.path.abspath(root)
        self.modules: dict[str, ModuleInfo] = {}
        self.functions: dict[str, FunctionInfo] = {}
        self.classes: dict[str, ClassInfo] = {}
        self.parse_errors: list[str] = []
        for pkg in packages:
            pdir = os.path.join(self.root, pkg)
            if not os.path.isdir(pdir):
                continue
            for dirpath, dirnames, filenames in os.walk(pdir):
                dirnames[:] = [d for d in dirnames if d != "__pycache__"]
                for fn in sorted(filenames):
                    if fn.endswith(".py"):
                        self._load(os.path.join(dirpath, fn))
        self._resolve_bases()

    # ------------------------------------------------------------------
    def _load(self, path: str) -> None:
        rel = os.path.relpath(path, self.root)
        modname = rel[:-3].replace(os.sep, ".")
        if modname.endswith(".__init__"):
            modname = modname[: -len(".__init__")]
        try:
            with open(path, encoding="utf-8") as fh:
                src = fh.read()
            tree = ast.parse(src, filename=path)
        except (SyntaxError, UnicodeDecodeError) as e:  # a file that does not parse cannot be analysed
            self.parse_errors.append(f"{rel}: {e}")
            return
        mi = ModuleInfo(modname, rel, tree, src)
        pkg = modname.rsplit(".", 1)[0] if "." in modname else ""
        is_pkg = path.endswith("__init__.py")
        for node in ast.walk(tree):
            # imports anywhere (also the function-local lazy ones) feed one map per module
            if isinstance(node, ast.Import):
                for a in node.names:
                    if a.asname:
                        mi.imports[a.asname] = a.name
                    else:
                        mi.imports[a.name.split(".")[0]] = a.name.split(".")[0]
            elif isinstance(node, ast.ImportFrom):
                base = node.module or ""
                if node.level:
                    cur = modname if is_pkg else pkg
                    parts = cur.split(".") if cur else []
                    if node.level > 1:
                        parts = parts[: len(parts) - (node.level - 1)]
                    base = ".".join(parts + ([node.module] if node.module else []))
                for a in node.names:
                    if a.name == "*":
                        mi.star_imports.append(base)
                    else:
                        mi.imports[a.asname or a.name] = f"{base}.{a.name}"
        for node in tree.body:
            if isinstance(node, (ast.FunctionDef, ast.AsyncFunctionDef)):
                fi = FunctionInfo(f"{modname}.{node.name}", modname, None, node,
                                  tuple(_decorator_name(d) for d in node.decorator_list))
                mi.functions[node.name] = fi
                self.functions[fi.qualname] = fi
            elif isinstance(node, ast.ClassDef):
                ci = ClassInfo(f"{modname}.{node.name}", modname, node)
                for sub in node.body:
                    if isinstance(sub, (ast.FunctionDef, ast.AsyncFunctionDef)):
                        fi = FunctionInfo(f"{ci.qualname}.{sub.name}", modname, ci.qualname, sub,
                                          tuple(_decorator_name(d) for d in sub.decorator_list))
                        ci.methods[sub.name] = fi
                        self.functions[fi.qualname] = fi
                    elif isinstance(sub, ast.Assign) and len(sub.targets) == 1 and isinstance(sub.targets[0], ast.Name):
                        ci.class_attrs[sub.targets[0].id] = sub.value
                mi.classes[node.name] = ci
                self.classes[ci.qualname] = ci
            elif isinstance(node, ast.Assign) and len(node.targets) == 1 and isinstance(node.targets[0], ast.Name):
                mi.globals_[node.targets[0].id] = node.value
            elif isinstance(node, ast.AnnAssign) and isinstance(node.target, ast.Name) and node.value is not None:
                mi.globals_[node.target.id] = node.value
            elif isinstance(node, ast.Assign):
                # A, B = x, y  /  A = B = x  at module level
                for tgt in node.targets:
                    if isinstance(tgt, ast.Name):
                        mi.globals_[tgt.id] = node.value
                    elif isinstance(tgt, (ast.Tuple, ast.List)) and isinstance(node.value, (ast.Tuple, ast.List)) and len(tgt.elts) == len(node.value.elts) \
                            and not any(isinstance(e, ast.Starred) for e in list(tgt.elts) + list(node.value.elts)):
                        for t_, v_ in zip(tgt.elts, node.value.elts):
                            if isinstance(t_, ast.Name):
                                mi.globals_[t_.id] = v_
        self.modules[modname] = mi

    def _resolve_bases(self) -> None:
        for ci in self.classes.values():
            mi = self.modules[ci.module]
            for b in ci.node.bases:
                ci.bases.append(self.resolve_expr_name(mi, b) or ast.unparse(b))

    # ------------------------------------------------------------------
    def resolve_expr_name(self, mi: ModuleInfo, expr: ast.expr) -> str | None:
        """Dotted name an expression like ``a.b.c`` or ``Name`` denotes, resolved through imports."""
        parts: list[str] = []
        e = expr
        while isinstance(e, ast.Attribute):
            parts.append(e.attr)
            e = e.value
        if not isinstance(e, ast.Name):
            return None
        parts.append(e.id)
        parts.reverse()
        head = self.resolve_name(mi.name, parts[0])
        if head is None:
            return None
        return ".".join([head] + parts[1:])

    def resolve_name(self, modname: str, name: str) -> str | None:
        """Resolve a bare name used in module ``modname`` to a dotted global name."""
        mi = self.modules.get(modname)
        if mi is None:
            return None
        if name in mi.functions:
            return mi.functions[name].qualname
        if name in mi.classes:
            return mi.classes[name].qualname
        if name in mi.imports:
            return self.canonical(mi.imports[name])
        if name in mi.globals_:
            return f"{modname}.{name}"
        for star in mi.star_imports:
            if star in self.modules:
                r = self.resolve_name(star, name)
                if r:
                    return r
        return None

    def canonical(self, dotted: str, _depth: int = 0) -> str:
        """Follow re-exports inside the analysed packages (``infocf.X`` -> ``inference.x.X``)."""
        if _depth > 8:
            return dotted
        if dotted in self.functions or dotted in self.classes or dotted in self.modules:
            return dotted
        if "." in dotted:
            mod, _, attr = dotted.rpartition(".")
            if mod in self.modules:
                mi = self.modules[mod]
                if attr in mi.imports:
                    return self.canonical(mi.imports[attr], _depth + 1)
                if attr in mi.functions:
                    return mi.functions[attr].qualname
                if attr in mi.classes:
                    return mi.classes[attr].qualname
        return dotted

    # ------------------------------------------------------------------
    def mro(self, cls: str) -> list[str]:
        out: list[str] = []

        def walk(c: str) -> None:
            if c in out:
                return
            out.append(c)
            ci = self.classes.get(c)
            if ci:
                for b in ci.bases:
                    walk(b)

        walk(cls)
        return out

    def lookup_method(self, cls: str, name: str) -> FunctionInfo | None:
        for c in self.mro(cls):
            ci = self.classes.get(c)
            if ci and name in ci.methods:
                return ci.methods[name]
        return None

    def lookup_class_attr(self, cls: str, name: str):
        for c in self.mro(cls):
            ci = self.classes.get(c)
            if ci and name in ci.class_attrs:
                return ci, ci.class_attrs[name]
        return None

    def subclasses(self, base: str) -> list[str]:
        return [c for c in self.classes if base in self.mro(c) and c != base]

    def function(self, qualname: str) -> FunctionInfo:
        fi = self.functions.get(qualname)
        if fi is None:
            # a module-level function that moved to another module of the package and is imported where it used to be:
            # the name still denotes it
            mod, _, name = qualname.rpartition(".")
            if mod in self.classes:
                # a method the class no longer spells out but inherits (a copy of the base-class method removed)
                inherited = self.lookup_method(mod, name)
                if inherited is not None:
                    return inherited
            if mod in self.modules:
                tgt = self.resolve_name(mod, name)
                if tgt and tgt != qualname and tgt in self.functions:
                    return self.functions[tgt]
            raise AnalysisError(f"anchor vanished: function {qualname} not found in {self.root}")
        return fi

    def cls(self, qualname: str) -> ClassInfo:
        ci = self.classes.get(qualname)
        if ci is None:
            raise AnalysisError(f"anchor vanished: class {qualname} not found in {self.root}")
        return ci
