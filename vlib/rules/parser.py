"""C10: the parser (E5 grammar reader + reader of the generated parser + visitor meaning + rejection)."""
from __future__ import annotations

import ast
import os
import re

from .. import formula as F
from ..absint import iter_events, Interp
from ..absvals import Const, Sym, PredV, FormulaV, LinV, Ref, ElemV, TupleV, HObj, HDict, HList, HOpaque, PTRUE, desc, show_pred
from ..front import AnalysisError
from ..harness import Explorer, fn_label, view, decided, cond_parts_state

VIS = "parser.myVisitor.myVisitor"
WR = "parser.Wrappers"


# ----------------------------------------------------------------------------------------------
# E5: reader for the ANTLR subset used by CKB.g4
# ----------------------------------------------------------------------------------------------
TOK = re.compile(r"""\s+|//[^\n]*|/\*.*?\*/|'(?:\\.|[^'\\])*'|->|[A-Za-z_][A-Za-z_0-9]*|\[(?:\\.|[^\]\\])*\]|[:;|()*+?=#~.]""", re.S)


def read_grammar(path):
    try:
        src = open(path, encoding="utf-8").read()
    except OSError as e:
        raise AnalysisError(f"cannot read grammar {path}: {e}")
    toks = []
    pos = 0
    while pos < len(src):
        m = TOK.match(src, pos)
        if not m:
            raise AnalysisError(f"grammar reader: unexpected character {src[pos]!r} at offset {pos}")
        t = m.group(0)
        pos = m.end()
        if t.isspace() or t.startswith("//") or t.startswith("/*"):
            continue
        toks.append(t)
    rules = {}
    i = 0
    if toks[:1] == ["grammar"]:
        i = toks.index(";") + 1
    while i < len(toks):
        name = toks[i]
        if i + 1 >= len(toks) or toks[i + 1] != ":":
            raise AnalysisError(f"grammar reader: expected ':' after rule name {name!r}")
        i += 2
        alts, cur, depth = [], [], 0
        while i < len(toks):
            t = toks[i]
            if t == "(":
                depth += 1
            elif t == ")":
                depth -= 1
            if t == ";" and depth == 0:
                break
            if t == "|" and depth == 0:
                alts.append(cur)
                cur = []
            else:
                cur.append(t)
            i += 1
        alts.append(cur)
        i += 1
        parsed = []
        for a in alts:
            label = None
            if "#" in a:
                k = a.index("#")
                label = a[k + 1]
                a = a[:k]
            skip = False
            if "->" in a:
                k = a.index("->")
                skip = a[k + 1] == "skip"
                a = a[:k]
            parsed.append({"elems": a, "label": label, "skip": skip})
        rules[name] = parsed
    return rules


def _elements(alt):
    """[(label or None, element)] of an alternative, ignoring suffix operators."""
    out = []
    a = alt["elems"]
    i = 0
    while i < len(a):
        if i + 2 < len(a) and a[i + 1] == "=":
            out.append((a[i], a[i + 2]))
            i += 3
        elif a[i] in "*+?":
            i += 1
        else:
            out.append((None, a[i]))
            i += 1
    return out


def grammar_rules(rep, ex: Explorer):
    """GRAM.precedence / GRAM.tokens / LEX.skip on parser/CKB.g4."""
    root = ex.prog.root
    path = os.path.join(root, "parser", "CKB.g4")
    site = "parser/CKB.g4:formula"
    g = read_grammar(path)
    if "formula" not in g or "condition" not in g:
        raise AnalysisError("grammar: rules 'formula' / 'condition' not found (anchor vanished)")
    alts = g["formula"]
    labels = [a["label"] for a in alts]
    idx = {l: i for i, l in enumerate(labels)}
    need = ("Negation", "And", "Or", "Paren", "Var")
    if any(n not in idx for n in need):
        raise AnalysisError(f"grammar: alternative labels {labels} lack one of {need}")
    ok = idx["Negation"] < idx["And"] < idx["Or"]
    rep.check(ok, "GRAM.precedence", site, "alternative order", "negation binds tighter than ',' (and), ',' tighter than ';' (or): earlier alternatives of a left-recursive rule bind tighter",
              extracted=" < ".join(sorted(need[:3], key=lambda n: idx[n])), required="Negation < And < Or", function=site)
    lit = {}
    for name in need:
        els = [e for _, e in _elements(alts[idx[name]])]
        lit[name] = [e for e in els if e.startswith("'")]
    rep.check(lit["And"] == ["','"], "GRAM.tokens", site, "And token", "conjunction is written ','", extracted=str(lit["And"]), required="','", function=site)
    rep.check(lit["Or"] == ["';'"], "GRAM.tokens", site, "Or token", "disjunction is written ';'", extracted=str(lit["Or"]), required="';'", function=site)
    rep.check(lit["Negation"] == ["'!'"], "GRAM.tokens", site, "Negation token", "negation is written '!'", extracted=str(lit["Negation"]), required="'!'", function=site)
    rep.check(lit["Paren"] == ["'('", "')'"], "GRAM.tokens", site, "Paren tokens", "grouping is written '(' ')'", extracted=str(lit["Paren"]), required="'(' ')'", function=site)
    for name in ("And", "Or"):
        els = _elements(alts[idx[name]])
        labs = [l for l, e in els if e == "formula"]
        rep.check(labs == ["left", "right"], "GRAM.tokens", site, f"{name} operands", "left operand before, right operand after the operator", extracted=str(labs), required="['left', 'right']", function=site)
    # condition: consequent before '|', antecedent after
    site_c = "parser/CKB.g4:condition"
    for k, alt in enumerate(g["condition"]):
        els = _elements(alt)
        seq = [(l, e) for l, e in els if e == "formula" or e == "'|'"]
        ok = [x for x in seq][:3] == [("consequent", "formula"), (None, "'|'"), ("antecedent", "formula")]
        rep.check(ok, "GRAM.tokens", site_c, f"alternative {k + 1}", "in (B|A) the formula before the bar is the consequent, after it the antecedent", extracted=str(seq[:3]), required="consequent | antecedent", function=site_c)
    # lexer
    site_l = "parser/CKB.g4:lexer"
    for name in ("WS", "COMMENT", "BLOCKCOMMENT"):
        ok = name in g and all(a["skip"] for a in g[name])
        rep.check(ok, "LEX.skip", site_l, name, f"{name} is skipped", extracted="skip" if ok else "not skipped / missing", required="-> skip", function=site_l)
    lexer_rules = [n for n in g if n[:1].isupper()]
    for n in lexer_rules:
        for a in g[n]:
            el = a["elems"]
            greedy = [k for k in range(len(el) - 1) if el[k] == "." and el[k + 1] in "*+" and not (k + 2 < len(el) and el[k + 2] == "?")]
            rep.check(not greedy, "LEX.skip", site_l, f"{n} wildcard loop", "a token delimited by a closing literal uses the non-greedy wildcard loop (a greedy one runs to the last closing delimiter of the input and swallows everything in between)",
                      extracted=" ".join(el), required="'.*?' before the closing delimiter", function=site_l)
    catch = [n for n in lexer_rules if any(a["elems"] == ["."] for a in g[n])]
    rep.check(not catch, "LEX.skip", site_l, "no catch-all token", "illegal characters are not swallowed by a catch-all token rule", extracted=str(catch), required="none", function=site_l)
    rep.floor("grammar rules read", len(g), 8)
    return g, lit


def generated_parser(rep, ex: Explorer, lit):
    """GRAM.precedence / GRAM.tokens on the generated parser/CKBParser.py, and agreement with the grammar."""
    prog = ex.prog
    cls = prog.cls("parser.CKBParser.CKBParser")
    site = "parser/CKBParser.py:CKBParser.formula"
    names = None
    for k, v in cls.class_attrs.items():
        if k == "literalNames" and isinstance(v, ast.List):
            names = [e.value if isinstance(e, ast.Constant) else None for e in v.elts]
    consts = {k: v.value for k, v in cls.class_attrs.items() if isinstance(v, ast.Constant) and isinstance(v.value, int)}
    if names is None:
        raise AnalysisError("generated parser: literalNames not found")

    def tok_lit(expr):
        # self.match(CKBParser.T__1)
        if isinstance(expr, ast.Attribute) and expr.attr in consts:
            n = consts[expr.attr]
            return names[n] if n < len(names) else None
        return None

    fi = prog.function("parser.CKBParser.CKBParser.formula")
    found = {}

    def scan(stmts, ctxname=None):
        for st in stmts:
            for n in ast.walk(st):
                pass
        cur = ctxname
        for st in stmts:
            if isinstance(st, ast.Assign) and isinstance(st.value, ast.Call) and isinstance(st.value.func, ast.Attribute) and st.value.func.attr.endswith("Context") and st.value.func.attr != "FormulaContext":
                cur = st.value.func.attr[:-len("Context")]
                found.setdefault(cur, {"tokens": [], "levels": [], "pred": None})
            if cur:
                for n in ast.walk(st) if not isinstance(st, (ast.If, ast.While, ast.Try)) else []:
                    if isinstance(n, ast.Call) and isinstance(n.func, ast.Attribute):
                        if n.func.attr == "match" and n.args:
                            t = tok_lit(n.args[0])
                            if t:
                                found[cur]["tokens"].append(t)
                        elif n.func.attr == "formula" and n.args and isinstance(n.args[0], ast.Constant):
                            found[cur]["levels"].append(n.args[0].value)
                        elif n.func.attr == "precpred" and len(n.args) == 2 and isinstance(n.args[1], ast.Constant):
                            found[cur]["pred"] = n.args[1].value
            if isinstance(st, ast.If):
                # `if not self.precpred(...)` guards belong to the current alternative; `if token in [...]` / `if la_ == n` open alternatives
                if "precpred" in ast.unparse(st.test):
                    for n in ast.walk(st.test):
                        if isinstance(n, ast.Call) and isinstance(n.func, ast.Attribute) and n.func.attr == "precpred" and isinstance(n.args[1], ast.Constant) and cur:
                            found[cur]["pred"] = n.args[1].value
                else:
                    scan(st.body, None)
                    scan(st.orelse, None)
            elif isinstance(st, (ast.While, ast.Try)):
                scan(st.body, cur)
                if isinstance(st, ast.Try):
                    scan(st.finalbody, cur)

    scan(fi.node.body)
    need = ("Negation", "And", "Or", "Paren", "Var")
    if any(n not in found for n in need):
        raise AnalysisError(f"generated parser: alternatives found {sorted(found)}; need {need}")
    a, o, ng = found["And"], found["Or"], found["Negation"]
    ok = a["pred"] is not None and o["pred"] is not None and a["pred"] > o["pred"]
    rep.check(ok, "GRAM.precedence", site, "operator levels", "the precedence level of ',' is higher than that of ';'", extracted=f"And {a['pred']}, Or {o['pred']}", required="level(And) > level(Or)", function=site)
    rep.check(a["levels"] == [a["pred"] + 1] and o["levels"] == [o["pred"] + 1], "GRAM.precedence", site, "right operands", "binary operators are left associative: the right operand is parsed one level above the operator",
              extracted=f"And right at {a['levels']}, Or right at {o['levels']}", required=f"{[a['pred'] + 1]}, {[o['pred'] + 1]}", function=site)
    rep.check(bool(ng["levels"]) and ng["levels"][0] > a["pred"], "GRAM.precedence", site, "negation operand", "the operand of '!' is parsed above the level of ',' (negation binds tightest)", extracted=str(ng["levels"]), required=f"> {a['pred']}", function=site)
    for name in ("And", "Or", "Negation", "Paren"):
        rep.check(found[name]["tokens"] == lit[name], "GRAM.tokens", site, f"{name} token (generated code vs grammar)", "the generated parser matches the literal the grammar names", extracted=str(found[name]["tokens"]), required=str(lit[name]), function=site)
    # condition rule: consequent / antecedent labels around '|'
    fc = prog.function("parser.CKBParser.CKBParser.condition")
    seqs = []
    cur = []
    for n in ast.walk(fc.node):
        pass
    for st in ast.walk(fc.node):
        if isinstance(st, ast.If):
            for body in (st.body, st.orelse):
                seq = []
                for s in body:
                    if isinstance(s, ast.Assign) and isinstance(s.targets[0], ast.Attribute) and isinstance(s.value, ast.Call) and getattr(s.value.func, "attr", "") == "formula":
                        seq.append(s.targets[0].attr)
                    elif isinstance(s, ast.Expr) and isinstance(s.value, ast.Call) and getattr(s.value.func, "attr", "") == "match":
                        t = tok_lit(s.value.args[0])
                        if t == "'|'":
                            seq.append("|")
                if seq:
                    seqs.append(seq)
    okc = bool(seqs) and all(s[:3] == ["consequent", "|", "antecedent"] for s in seqs)
    rep.check(okc, "GRAM.tokens", "parser/CKBParser.py:CKBParser.condition", "bar sides", "consequent is parsed before the bar, antecedent after it", extracted=str(seqs), required="consequent | antecedent", function="parser/CKBParser.py:CKBParser.condition")
    rep.floor("condition alternatives in the generated parser", len(seqs), 2)
    return found


# ----------------------------------------------------------------------------------------------
# visitor
# ----------------------------------------------------------------------------------------------
def _visit_summary(I, fi, args, kwargs, node):
    x = args[1] if len(args) > 1 else None
    I.log("visit", node, arg=x)
    return FormulaV(("opaque", ("visit", desc(x))), "pysmt")


def _eval_count_cmp(key, d, n):
    """Value of a comparison between the count of distinct elements (d) and the length (n) of the same sequence."""
    def term(t):
        r = repr(t)
        return d if "distinct" in r else (n if ("len" in r or "count" in r) else None)

    def side(x):
        if isinstance(x, tuple) and x and x[0] == "c":
            return x[1]
        if isinstance(x, tuple) and x and x[0] == "lin":
            tot = x[1][1]
            for t, c in x[1][0]:
                v = term(t)
                if v is None:
                    return None
                tot += c * v
            return tot
        return term(x)

    a, b = side(key[2]), side(key[3])
    if a is None or b is None:
        return None
    return {"==": a == b, "<": a < b}.get(key[1])


def _same_atom(g, w):
    return g == w


def visitor_meaning(rep, ex: Explorer):
    """VISIT.meaning on parser/myVisitor.py."""
    prog = ex.prog
    CTX = ElemV(("ctx",), "ctx")

    def attr(name):
        return ("opaque", ("visit", ("meth", ("elem", ("ctx",), "ctx"), name)))

    summ = {}

    def visit_model(I, args, kwargs, node):
        x = args[0] if args else None
        I.log("visit", node, arg=x)
        d = desc(x)
        if isinstance(d, tuple) and d[:1] == ("mcall",) and d[2] in ("condition", "myid"):
            # the recursive list rules: the value is the list built from the rest of the input
            return I.alloc(HList([("sym", ("rest", d[2]))]))
        return FormulaV(("opaque", ("visit", d)), "pysmt")

    from ..absvals import ExtV

    def run(method):
        qual = f"{VIS}.{method}"

        def setup(I):
            # `visit` is inherited from the ANTLR runtime (ParseTreeVisitor): dispatches to the visitXxx of the node
            s = I.alloc(HObj(VIS, {"sigcheck": I.alloc(HList()), "signature": Sym("sig"), "visit": ExtV("antlr4.ParseTreeVisitor.visit")}))
            return [s, CTX], {}

        return qual, ex.run(qual, setup, summaries=summ, key="vis-" + method, models={"antlr4.ParseTreeVisitor.visit": visit_model})

    checks = {
        "visitAnd": lambda l, r: ("and", (l, r)),
        "visitOr": lambda l, r: ("or", (l, r)),
    }
    for m, mk in checks.items():
        qual, paths = run(m)
        site = fn_label(prog, qual)
        for p in paths:
            rv = p.outcome[1] if p.outcome[0] == "return" else None
            want = mk(attr("left"), attr("right"))
            ok = isinstance(rv, FormulaV) and F.equiv(rv.f, want)
            rep.check(ok, "VISIT.meaning", site, "meaning", f"{m[5:]} node denotes left {'∧' if m == 'visitAnd' else '∨'} right", extracted=F.show(rv.f) if isinstance(rv, FormulaV) else repr(rv), required=F.show(want), function=site)
    for m in ("visitNegation", "visitParen"):
        qual, paths = run(m)
        site = fn_label(prog, qual)
        for p in paths:
            rv = p.outcome[1] if p.outcome[0] == "return" else None
            ok = False
            got = repr(rv)
            if isinstance(rv, FormulaV):
                got = F.show(rv.f)
                f = rv.f
                if m == "visitNegation":
                    ok = f[0] == "not" and f[1][0] == "opaque"
                else:
                    ok = f[0] == "opaque"
            rep.check(ok, "VISIT.meaning", site, "meaning", "Negation denotes ¬operand" if m == "visitNegation" else "parentheses denote their content", extracted=got, required="¬visit(operand)" if m == "visitNegation" else "visit(operand)", function=site)
    # visitVar, evaluated on concrete identifiers (however the two constants are told apart: comparisons, a table, ...)
    qual = f"{VIS}.visitVar"
    site = fn_label(prog, qual)
    n = 0
    for text in ("Top", "Bottom", "a", "top", "bottom", "Topx", "T", "x_1", "TOP", "a-b", "a_b", "x-1", "Bottom_", "a-b_c-d"):
        def setup_v(I, text=text):
            s = I.alloc(HObj(VIS, {"sigcheck": I.alloc(HList()), "signature": Sym("sig"), "visit": ExtV("antlr4.ParseTreeVisitor.visit")}))
            tok = I.alloc(HObj("antlr4.Token", {"text": Const(text)}))
            ctx = I.alloc(HObj("parser.CKBParser.CKBParser.VarContext", {"atom": tok}))
            return [s, ctx], {}

        paths = ex.run(qual, setup_v, summaries=summ, key="vis-var-" + text, models={"antlr4.ParseTreeVisitor.visit": visit_model})
        rets = [p for p in paths if p.outcome[0] == "return"]
        if len(paths) != 1 or len(rets) != 1:
            raise AnalysisError(f"{site}: {len(paths)} paths for the concrete identifier {text!r} ({[k for p in paths for k, v in p.decisions][:2]!r})")
        rv = rets[0].outcome[1]
        f = rv.f if isinstance(rv, FormulaV) else None
        n += 1
        if text == "Top":
            rep.check(f == F.TRUE, "VISIT.meaning", site, "Top", "Top denotes the constant true", extracted=F.show(f) if f else repr(rv), required="⊤", function=site)
        elif text == "Bottom":
            rep.check(f == F.FALSE, "VISIT.meaning", site, "Bottom", "Bottom denotes the constant false", extracted=F.show(f) if f else repr(rv), required="⊥", function=site)
        else:
            ok = f is not None and f[0] == "atom" and (f[1] == text or f[1] == ("name", text) or f[1] == ("name", (text,)) or repr(f[1]).count(repr(text)) == 1 and "name" in repr(f[1]) or f[1] == ("c", text))
            rep.check(ok, "VISIT.meaning", site, f"atom {text}", "any other identifier denotes the atom of that name", extracted=F.show(f) if f else repr(rv), required=f"Symbol({text!r})", function=site)
    rep.floor("visitVar evaluations", n, 14)
    # VISIT.order: the list rules put their own item in front of what the rest of the input yields
    # the declared atoms, by evaluation on concrete parse trees of `myid` (num=ID ',' myid | num=ID NEWLINE) for one to four
    # names and every spelling of the line end the lexer accepts: the visitor returns the names, in order, nothing else
    from ..absvals import HOpaque

    def tok(I, text):
        return I.alloc(HOpaque("Token", {"text": Const(text)}))

    def myid_tree(I, names, nl):
        node = None
        for i in range(len(names) - 1, -1, -1):
            t = tok(I, names[i])
            if node is None:
                node = I.alloc(HOpaque("ParseNode", {"rule": "myid", "visit": "visitMyid", "text": Const(names[i] + nl), "labels": {"num": t},
                                                     "kids": {"ID": [t], "NEWLINE": [tok(I, nl)]}, "absent": ("myid",), "nchildren": 2}))
            else:
                node = I.alloc(HOpaque("ParseNode", {"rule": "myid", "visit": "visitMyid", "text": Const(names[i] + "," + I.deref(node).attrs["text"].value), "labels": {"num": t},
                                                     "kids": {"ID": [t], "myid": [node]}, "absent": ("NEWLINE",), "nchildren": 3}))
        return node

    qual_m = f"{VIS}.visitMyid"
    site_m = fn_label(prog, qual_m)
    n_sig = 0
    for names in (["a"], ["b", "p"], ["b", "p", "f", "w"], ["x_1", "Y", "a-b"]):
        for nl in ("\n", "\r\n", "\r"):
            held = {}

            def visit_tree(I, args, kwargs, node, held=held):
                x = args[0] if args else None
                o = I.deref(x) if isinstance(x, Ref) else None
                if isinstance(o, HOpaque) and o.typ == "ParseNode":
                    m_ = prog.lookup_method(VIS, o.attrs["visit"])
                    if m_ is None:
                        raise AnalysisError(f"{VIS}.{o.attrs['visit']} not found")
                    return I.call_function(m_, [held["s"], x], {}, node)
                raise AnalysisError(f"{site_m}: visit() of something that is not a node of the tree: {x!r}")

            def setup_m(I, names=names, nl=nl, held=held):
                s_ = I.alloc(HObj(VIS, {"sigcheck": I.alloc(HList()), "signature": Sym("sig"), "visit": ExtV("antlr4.ParseTreeVisitor.visit")}))
                held["s"] = s_
                return [s_, myid_tree(I, names, nl)], {}

            I_ = Interp(prog, models={"antlr4.ParseTreeVisitor.visit": visit_tree}, summaries=summ)
            I_.max_depth = 12
            I_.unfold_recursion = True
            I_.unroll_while = 8
            mpaths = I_.explore(qual_m, setup_m)
            if ex.report is not None:
                ex.report.absorb_stats(I_)
            slot = f"signature {','.join(names)} + {nl!r}"
            if len(mpaths) != 1 or mpaths[0].outcome[0] != "return":
                raise AnalysisError(f"{site_m}: evaluation on a concrete tree did not give one result ({slot}: {[p.outcome[0] for p in mpaths]})")
            vw = view(mpaths[0].state, mpaths[0].outcome[1])
            got = [sg[1].value if sg[0] == "one" and isinstance(sg[1], Const) else repr(sg) for sg in vw[1]] if isinstance(vw, tuple) and vw[0] == "list" else repr(vw)
            n_sig += 1
            rep.check(got == names, "VISIT.order", site_m, slot, "the declared atoms are the identifiers of the signature line, in order, nothing else (whatever the line end is)", extracted=repr(got)[:120], required=repr(names), function=site_m)
    rep.floor("signature trees evaluated", n_sig, 12)
    # visitCondition, by evaluation on concrete parse trees of `condition` ('(' f '|' f ')' ',' NEWLINE* condition | '(' f '|'
    # f ')' NEWLINE*) for one to three conditionals: the result is the list of conditionals in file order, each with the
    # formula before the bar as consequence, the one after it as antecedence, and the text "(consequent|antecedent)"
    def var_node(I, name):
        # "name" or "name=text": a formula node that is visited as the atom `name` and whose source text is `text` (the text of a
        # compound formula: the visitor's text handling sees it, its meaning is not the point here)
        name, _, text = name.partition("=")
        return I.alloc(HOpaque("ParseNode", {"rule": "formula", "visit": "visitVar", "text": Const(text or name), "labels": {"atom": tok(I, name)}, "kids": {"ID": [tok(I, name)]}, "nchildren": 1}))

    def condition_tree(I, pairs):
        node = None
        for c, a in reversed(pairs):
            cn, an = var_node(I, c), var_node(I, a)
            own = f"({c.partition('=')[2] or c}|{a.partition('=')[2] or a})"
            if node is None:
                node = I.alloc(HOpaque("ParseNode", {"rule": "condition", "visit": "visitCondition", "text": Const(own), "labels": {"consequent": cn, "antecedent": an},
                                                     "kids": {"formula": [cn, an]}, "many": {"formula": True, "NEWLINE": True}, "absent": ("condition", "NEWLINE"), "nchildren": 5}))
            else:
                node = I.alloc(HOpaque("ParseNode", {"rule": "condition", "visit": "visitCondition", "text": Const(own + "," + I.deref(node).attrs["text"].value), "labels": {"consequent": cn, "antecedent": an},
                                                     "kids": {"formula": [cn, an], "condition": [node]}, "many": {"formula": True, "NEWLINE": True}, "absent": ("NEWLINE",), "nchildren": 7}))
        return node

    qual_c = f"{VIS}.visitCondition"
    site_c = fn_label(prog, qual_c)
    n_cond = 0
    for pairs in ([("b", "p")], [("f", "b"), ("b", "p")], [("w", "x_1"), ("f", "b"), ("Y", "w")], [("a", "a"), ("a", "a")],
                  [("k=(a;b),(c;d)", "e"), ("e", "m=(a;b),(c;d)"), ("n=(a,b)", "o=(c)"), ("q=!(a)", "r=((a))")]):
        held = {}

        def visit_tree_c(I, args, kwargs, node, held=held):
            x = args[0] if args else None
            o = I.deref(x) if isinstance(x, Ref) else None
            if isinstance(o, HOpaque) and o.typ == "ParseNode":
                m_ = prog.lookup_method(VIS, o.attrs["visit"])
                if m_ is None:
                    raise AnalysisError(f"{VIS}.{o.attrs['visit']} not found")
                return I.call_function(m_, [held["s"], x], {}, node)
            raise AnalysisError(f"{site_c}: visit() of something that is not a node of the tree: {x!r}")

        def setup_c(I, pairs=pairs, held=held):
            s_ = I.alloc(HObj(VIS, {"sigcheck": I.alloc(HList()), "signature": Sym("sig"), "visit": ExtV("antlr4.ParseTreeVisitor.visit")}))
            held["s"] = s_
            return [s_, condition_tree(I, pairs)], {}

        I_ = Interp(prog, models={"antlr4.ParseTreeVisitor.visit": visit_tree_c}, summaries=summ)
        I_.max_depth = 12
        I_.unfold_recursion = True
        I_.unroll_while = 8
        cpaths = I_.explore(qual_c, setup_c)
        if ex.report is not None:
            ex.report.absorb_stats(I_)
        slot = "conditionals " + ",".join(f"({c}|{a})" for c, a in pairs)
        if len(cpaths) != 1 or cpaths[0].outcome[0] != "return":
            raise AnalysisError(f"{site_c}: evaluation on a concrete tree did not give one result ({slot}: {[p.outcome[0] for p in cpaths]})")
        st = cpaths[0].state
        rv = cpaths[0].outcome[1]
        o = st.heap.get(rv.oid) if isinstance(rv, Ref) else None
        items = [sg[1] for sg in o.segs] if isinstance(o, HList) and not o.is_set and all(sg[0] == "one" for sg in o.segs) else None
        n_cond += 1
        got = []
        for it in items or []:
            parts = cond_parts_state(st, it)
            oc = st.heap.get(it.oid) if isinstance(it, Ref) else None
            txt = oc.attrs.get("textRepresentation") if isinstance(oc, HObj) else None
            weak = oc.attrs.get("weak") if isinstance(oc, HObj) else None
            got.append((F.show(parts[1]) if parts else "?", F.show(parts[0]) if parts else "?", txt.value if isinstance(txt, Const) else repr(txt), weak.value if isinstance(weak, Const) else repr(weak)))
        want = [(F.show(("atom", ("name", ("c", c.partition("=")[0])), "v")), F.show(("atom", ("name", ("c", a.partition("=")[0])), "v")), f"({c.partition('=')[2] or c}|{a.partition('=')[2] or a})", False) for c, a in pairs]
        got_cmp = [(g[0], g[1]) for g in got]
        want_cmp = [(w[0], w[1]) for w in want]
        rep.check(items is not None and len(got) == len(want) and sorted(got_cmp) == sorted(want_cmp) and all(_same_atom(g, w) for g, w in zip(sorted(got_cmp), sorted(want_cmp))), "VISIT.meaning", site_c, f"conditional ({slot})",
                  "(B|A): the formula before the bar becomes the consequence, after it the antecedence",
                  extracted=("; ".join(f"consequence={g[0]}, antecedence={g[1]}" for g in got) if items is not None else repr(view(st, rv)))[:300], required="; ".join(f"consequence={w[0]}, antecedence={w[1]}" for w in want), function=site_c)
        rep.check(items is not None and got_cmp == want_cmp, "VISIT.order", site_c, slot, "the conditional read here comes first, followed by those of the rest of the input (file order, none lost)",
                  extracted=(f"{len(got)} conditional(s): " + ", ".join(f"({g[0]}|{g[1]})" for g in got) if items is not None else repr(view(st, rv)))[:300], required=", ".join(f"({w[0]}|{w[1]})" for w in want), function=site_c)
        rep.check(items is not None and [g[2] for g in got] == [w[2] for w in want] if got_cmp == want_cmp else True, "VISIT.meaning", site_c, f"text representation ({slot})",
                  "the text is (consequent|antecedent), which re-parses to the same conditional", extracted=repr([g[2] for g in got])[:200], required=repr([w[2] for w in want]), function=site_c)
        rep.check(all(g[3] is False for g in got), "VISIT.meaning", site_c, f"strength ({slot})", "the conditionals of the file are strong ones", extracted=repr([g[3] for g in got]), required="weak=False", function=site_c)
    rep.floor("condition trees evaluated", n_cond, 5)
    # REJECT.signature, by evaluation on concrete atom lists (what `visit(ctx.myid())` hands back): a list with a repeated
    # atom or with one of the reserved names Top / Bottom raises ValueError, any other list is returned as it is
    qual_s = f"{VIS}.visitSignature"
    site = fn_label(prog, qual_s)
    n_sigs = 0
    SIGS = [(["a"], None), (["a", "b"], None), (["b", "p", "f", "w"], None), (["top", "bottom", "TOP"], None),
            (["a", "a"], "duplicate"), (["a", "b", "a"], "duplicate"), (["a", "b", "b", "c"], "duplicate"), (["c", "a", "b", "c"], "duplicate"),
            (["Top"], "Top"), (["a", "Top"], "Top"), (["Top", "a", "b"], "Top"),
            (["Bottom"], "Bottom"), (["a", "Bottom", "b"], "Bottom"), (["a", "b", "Bottom"], "Bottom")]
    msgs = {"duplicate": "an atom declared twice", "Top": "the reserved name Top as atom", "Bottom": "the reserved name Bottom as atom"}
    verdict = {k: None for k in msgs}
    accepted_ok = None
    for names, kind in SIGS:
        def visit_sig(I, args, kwargs, node, names=names):
            return I.new_list([Const(x) for x in names])

        def setup_s(I):
            s_ = I.alloc(HObj(VIS, {"sigcheck": I.alloc(HList()), "signature": Sym("sig"), "visit": ExtV("antlr4.ParseTreeVisitor.visit")}))
            return [s_, CTX], {}

        spaths = ex.run(qual_s, setup_s, summaries=summ, key="vis-sig-" + ",".join(names), models={"antlr4.ParseTreeVisitor.visit": visit_sig})
        if len(spaths) != 1:
            raise AnalysisError(f"{site}: {len(spaths)} paths for the concrete atom list {names!r} ({[k for p in spaths for k, v in p.decisions][:2]!r})")
        p = spaths[0]
        n_sigs += 1
        if kind is None:
            vw = view(p.state, p.outcome[1]) if p.outcome[0] == "return" else None
            got = [sg[1].value if sg[0] == "one" and isinstance(sg[1], Const) else repr(sg) for sg in vw[1]] if isinstance(vw, tuple) and vw[0] == "list" else None
            if got != names and accepted_ok is None:
                accepted_ok = f"{names!r}: {p.outcome[0]} {got if got is not None else ''}"
        else:
            is_verr = p.outcome[0] == "raise" and "ValueError" in repr(p.outcome[1])
            if not is_verr and verdict[kind] is None:
                verdict[kind] = f"{names!r} is accepted" if p.outcome[0] == "return" else f"{names!r}: {p.outcome!r}"[:120]
    for kind, msg in msgs.items():
        rep.check(verdict[kind] is None, "REJECT.signature", site, kind, f"a signature with {msg} is rejected", extracted=verdict[kind] or "rejected (every sample list)", required="ValueError", function=site)
    rep.check(accepted_ok is None, "VISIT.order", site, "accepted signature", "a signature of distinct, unreserved atoms is returned as declared", extracted=accepted_ok or "returned unchanged", required="the declared atoms", function=site)
    rep.floor("signature lists evaluated", n_sigs, 14)
    # VISIT.keys (by evaluation): the base built for a `conditionals` block holds the conditionals the rest of the input
    # yields, keyed by position + 1 in that order, and nothing else
    qual, paths = run("visitConditionals")
    site = fn_label(prog, qual)
    REST = ("members", ("rest", "condition"))
    nk = 0
    for p in paths:
        if p.outcome[0] != "return":
            continue
        some = None
        for key, val in p.decisions:
            if key[0] == "isnone" and isinstance(key[1], tuple) and key[1][:1] == ("mcall",) and key[1][2] == "condition":
                some = not val
        bbv = p.outcome[1]
        o = p.state.heap.get(bbv.oid) if isinstance(bbv, Ref) else None
        cd = o.attrs.get("conditionals") if isinstance(o, HObj) else None
        d = p.state.heap.get(cd.oid) if isinstance(cd, Ref) else None
        if not isinstance(d, HDict) or some is None:
            raise AnalysisError(f"{site}: the conditionals of the base built here are not a mapping decided by the presence of a condition list")
        nk += 1
        if not some:
            rep.check(not d.entries and not d.each and not d.sym, "VISIT.keys", site, "keys (empty block)", "a block without conditionals yields an empty base", extracted=f"{len(d.entries)} entries, {len(d.each)} groups", required="empty", function=site)
            continue
        ok = False
        det = f"{len(d.entries)} literal entries, {len(d.each)} group(s)"
        if not d.entries and not d.sym and len(d.each) == 1:
            _, b, fam, g, kt, vt = d.each[0]
            want = F.lin_add(F.lin_term(("pos", b, fam)), F.lin_const(1))
            ok = fam == REST and g == PTRUE and isinstance(kt, LinV) and kt.lin == want and isinstance(vt, ElemV) and vt.var == b
            det = f"{kt!r} -> {vt!r} over {F.show_desc(fam)}"
        rep.check(ok, "VISIT.keys", site, "keys", "conditionals are keyed 1..n in file order", extracted=det[:200], required="{position+1: conditional} over the conditionals read", function=site)
    rep.floor("visitConditionals paths", nk, 2)


# ----------------------------------------------------------------------------------------------
# rejection
# ----------------------------------------------------------------------------------------------
def reject(rep, ex: Explorer, grammar):
    prog = ex.prog

    def opaque_cls(name):
        def h(I, fi, args, kwargs, node):
            r = I.alloc(HOpaque(name, {"args": TupleV(tuple(args))}))
            I.log("opaque.new", node, obj=r, typ=name, args=tuple(args))
            return r

        return h

    summ = {"parser.CKBLexer.CKBLexer": opaque_cls("CKBLexer"), "parser.CKBParser.CKBParser": opaque_cls("CKBParser"),
            f"{VIS}": opaque_cls("myVisitor")}
    def _input_stream(I, a, k, n):
        I.log("input.stream", n, arg=a[0] if a else None)
        return I.alloc(HOpaque("InputStream"))

    models = {"antlr4.InputStream": _input_stream,
              "antlr4.CommonTokenStream": lambda I, a, k, n: _cts(I, a, n)}

    def _cts(I, a, n):
        r = I.alloc(HOpaque("CommonTokenStream", {"lexer": a[0] if a else Const(None)}))
        return r

    # the listener raises on every path
    qual = f"{WR}._ThrowingErrorListener.syntaxError"
    site = fn_label(prog, qual)

    def setup_l(I):
        s = I.alloc(HObj(f"{WR}._ThrowingErrorListener", {}))
        return [s, Sym("rec"), Sym("sym"), Sym("line", "int"), Sym("col", "int"), Sym("msg", "str"), Sym("e")], {}

    paths = ex.run(qual, setup_l, summaries={}, key="listener")
    ok = bool(paths) and all(p.outcome[0] == "raise" for p in paths)
    rep.check(ok, "REJECT.listeners", site, "listener raises", "a syntax error is turned into an exception on every path", extracted=str([p.outcome[0] for p in paths]), required="raise", function=site)

    # what the listener raises must get out of the parser: the generated rule methods catch the runtime's
    # RecognitionException (error recovery) - an exception of that family raised by the listener is swallowed there and
    # parsing goes on
    caught = set()
    gen = prog.modules.get("parser.CKBParser")
    for fi_ in prog.functions.values():
        if fi_.module == "parser.CKBParser":
            for n_ in ast.walk(fi_.node):
                if isinstance(n_, ast.ExceptHandler) and n_.type is not None:
                    for t_ in (n_.type.elts if isinstance(n_.type, ast.Tuple) else [n_.type]):
                        caught.add(ast.unparse(t_).rsplit(".", 1)[-1])
    if not caught:
        raise AnalysisError("parser/CKBParser.py: no exception handler found in the generated rule methods (anchor vanished)")
    for p in paths:
        if p.outcome[0] == "raise":
            cls_ = getattr(p.outcome[1], "cls", "")
            mro_ = [c.rsplit(".", 1)[-1] for c in (prog.mro(cls_) if cls_ in prog.classes else [cls_])]
            hit = sorted(set(mro_) & caught)
            rep.check(not hit, "REJECT.listeners", site, "exception gets out", "the listener's exception is not one the generated parser catches itself (its rule methods recover from RecognitionException and carry on)",
                      extracted=f"raises {cls_.rsplit('.', 1)[-1]} (bases {mro_[1:]})" + (f": caught by the rule methods as {hit}" if hit else ""), required=f"not a subclass of {sorted(caught)}", function=site)
    # the text of a file is what the file holds: bytes that are not text are an error, not something to skip
    for fn_ in ("parse_belief_base", "parse_queries"):
        qual_ = f"{WR}.{fn_}"
        if qual_ not in prog.functions:
            continue
        site_ = fn_label(prog, qual_)

        def setup_f(I):
            return [Sym("text", "str")], {}

        I_ = Interp(prog, models=models, summaries={f"{WR}.parseCKB": lambda I, fi, a, k, n: Sym(("parsed", desc(a[0]) if a else None)), f"{WR}.parse_queries_from_str": lambda I, fi, a, k, n: Sym(("parsed", desc(a[0]) if a else None))})
        for p in I_.explore(qual_, setup_f):
            for ev, Q in iter_events(p.events):
                if ev.kind == "file.open":
                    er = ev.data.get("kwargs", {}).get("errors")
                    lenient = isinstance(er, Const) and er.value not in (None, "strict")
                    rep.check(not lenient, "REJECT.input", f"{site_}:{ev.node.lineno}", "file decoded strictly", "a file is parsed as what it holds: bytes that do not decode are an error (dropping or replacing them makes malformed input well formed)",
                              extracted=f"open(..., errors={er!r})", required="errors='strict' (the default)", function=site_)
        if ex.report is not None:
            ex.report.absorb_stats(I_)

    entry_eof = {}
    for rule in ("ckbs", "formula"):
        alts = grammar.get(rule, [])
        entry_eof[rule] = bool(alts) and all(a["elems"] and a["elems"][-1] == "EOF" for a in alts)
    n = 0
    for fn, entry in (("_getParseTree", "ckbs"), ("parse_formula", "formula")):
        qual = f"{WR}.{fn}"
        site = fn_label(prog, qual)

        def setup(I):
            return [Sym("text", "str")], {}

        I = Interp(prog, models=models, summaries=summ)
        paths = I.explore(qual, setup)
        if ex.report is not None:
            ex.report.absorb_stats(I)
        n_entry = 0
        for p in paths:
            evs = [ev for ev, Q in iter_events(p.events)]
            calls = [(i, ev) for i, ev in enumerate(evs) if ev.kind == "opaque.call"]
            entries = [(i, ev) for i, ev in calls if ev.method == entry and ev.typ == "CKBParser"]
            if not entries:
                rv_ = p.outcome[1] if p.outcome[0] == "return" else None
                if isinstance(rv_, Sym) and any(m in repr(rv_.label) for m in ("dictitem", "global", "'item'", "mcall")):
                    raise AnalysisError(f"{site}: a path returns a stored value ({rv_!r}) without parsing; whether it is what parsing this text gave cannot be decided"[:300])
                if p.outcome[0] == "return":
                    # a path that hands something back without the parser having read the text: whatever it returns was not
                    # checked against the grammar (constants, keywords, malformed text all slip through)
                    rep.violation("REJECT.input", site, "every accepted text is parsed", "a result is returned only after the entry rule of the grammar has read the whole text",
                                  extracted=f"a path returns {p.outcome[1]!r} without invoking parser.{entry}() (decided by: {'; '.join(show_pred(k)[:60] for k, v in p.decisions[:3])})"[:300],
                                  required=f"parser.{entry}() on every returning path", function=site)
                continue
            n_entry += 1
            ei, eev = entries[0]
            # REJECT.input: the lexer reads the caller's text itself
            for ev in evs:
                if ev.kind == "input.stream":
                    a = ev.arg
                    same = isinstance(a, Sym) and a.label == "text"
                    if same:
                        rep.ok("REJECT.input", f"{site}:{ev.node.lineno}", "text handed to the lexer", "the lexer reads the caller's text unchanged")
                    elif any(m in repr(desc(a)) for m in ("'join'", "'replace'", "'split'", "'translate'", "'lower'", "'upper'")) and "text" in repr(desc(a)):
                        rep.violation("REJECT.input", f"{site}:{ev.node.lineno}", "text handed to the lexer", "the lexer reads the caller's text unchanged: rewriting it first (dropping or replacing characters) makes malformed input well formed",
                                      extracted=repr(a)[:160], required="the text argument itself", function=site)
                    else:
                        raise AnalysisError(f"{site}: cannot relate the lexer's input {a!r} to the text argument")
            for typ in ("CKBLexer", "CKBParser"):
                rem = [i for i, ev in calls if ev.typ == typ and ev.method == "removeErrorListeners"]
                add = [i for i, ev in calls if ev.typ == typ and ev.method == "addErrorListener" and ev.args and isinstance(ev.args[0], Ref) and isinstance(p.state.heap.get(ev.args[0].oid), HObj) and p.state.heap[ev.args[0].oid].cls.endswith("_ThrowingErrorListener")]
                ok = bool(rem) and bool(add) and min(rem) < ei and min(add) < ei
                rep.check(ok, "REJECT.listeners", f"{site}:{eev.node.lineno}", f"{typ} listeners", f"the {typ[3:].lower()} has its default listeners removed and the throwing listener added before the entry rule runs",
                          extracted=f"removed before entry: {bool(rem) and min(rem) < ei}, throwing listener before entry: {bool(add) and min(add) < ei}", required="both before the entry rule", function=site)
            # REJECT.eof
            if p.outcome[0] != "return":
                continue
            n += 1
            if entry_eof.get(entry):
                rep.ok("REJECT.eof", site, f"entry rule {entry}", "the entry rule itself ends with EOF")
                continue
            # the NEXT token (lookahead 1) must be end of input.  The runtime offers it as stream.LA(1), stream.LT(1).type and
            # parser.getCurrentToken().type (after the entry rule returned, the current token is the first unconsumed one)
            def _next_token_type(x):
                r = repr(x)
                return ("'LA'" in r) or ("'LT'" in r and "'type'" in r) or ("'getCurrentToken'" in r and "'type'" in r)

            la = [(i, ev) for i, ev in calls if i > ei and ((ev.method in ("LA", "LT") and ev.typ == "CommonTokenStream" and ev.args and ev.args[0] == Const(1)) or (ev.method == "getCurrentToken" and ev.typ == "CKBParser"))]
            # (every look-ahead after the entry rule is at distance 1)
            far = [ev for i, ev in calls if i > ei and ev.method in ("LA", "LT") and ev.typ == "CommonTokenStream" and not (ev.args and ev.args[0] == Const(1))]
            if far:
                la = []
            checked = False
            eof_tests = []
            for k, v in p.decisions:
                if k[0] == "cmp" and k[1] == "==" and any(isinstance(x, tuple) and x[:1] == ("ext",) and str(x[1]).endswith("EOF") for x in k[2:]):
                    eof_tests.append(k)
                    if any(_next_token_type(x) for x in k[2:]):
                        checked = v is True
            if eof_tests and not (la and checked) and not any(_next_token_type(x) for k in eof_tests for x in k[2:]):
                raise AnalysisError(f"{site}: a comparison with EOF that the analysis cannot relate to the next token: {show_pred(eof_tests[0])[:160]}")
            rep.check(bool(la) and checked, "REJECT.eof", site, f"entry rule {entry}", "text after a well-formed prefix is rejected: the entry rule ends with EOF or the wrapper checks that the token stream is at end of input before returning",
                      extracted=f"grammar rule '{entry}' does not end with EOF; end-of-input check after parsing: {'present' if la else 'absent'}", required="EOF in the rule or a check that the next token is EOF", function=site)
        rep.floor(f"entry-rule invocations in {fn}", n_entry, 1)
    rep.floor("wrapper return paths", n, 2)


# ----------------------------------------------------------------------------------------------
# generated lexer: the serialized ATN against the grammar
# ----------------------------------------------------------------------------------------------
def fresh_results(rep, ex: Explorer):
    """PARSE.fresh: every parse builds its own objects.  What the wrappers and the visitor hand back is mutable (a base with
    its conditionals dictionary and signature list, a query collection) and callers change it; a result that is kept and
    handed out again for the same text is the earlier caller's edited object.  Decided on the definitions: no function of
    parser/Wrappers.py or parser/myVisitor.py is wrapped in a memoising decorator."""
    prog = ex.prog
    n = 0
    MEMO = ("lru_cache", "cache", "cached_property", "memoize", "memoized", "cached")
    for q, fi in sorted(prog.functions.items()):
        if fi.module not in ("parser.Wrappers", "parser.myVisitor"):
            continue
        # (formulas are immutable, hash-consed pysmt nodes: keeping those is harmless; bases, query collections, lists and
        # dictionaries are not)
        ret = ast.unparse(fi.node.returns) if getattr(fi.node, "returns", None) is not None else ""
        name = q.rsplit(".", 1)[1]
        mutable = any(t in ret for t in ("BeliefBase", "Queries", "list", "dict", "List", "Dict")) or name in ("parseCKB", "parseQuery", "visitCkbs", "visitConditionals", "visitCondition", "visitSignature", "visitMyid")
        if not mutable:
            continue
        n += 1
        site = fn_label(prog, q)
        bad = [d for d in fi.decorators if d.rsplit(".", 1)[-1].split("(")[0] in MEMO]
        rep.check(not bad, "PARSE.fresh", site, "result not shared", "every parse builds its own base / query collection / formula list (callers edit what they get)",
                  extracted=f"decorated with {bad[0]}: a second parse of the same text returns the object the first caller got" if bad else "no memoising decorator", required="a new object per call", function=site)
    rep.floor("parser functions looked at for shared results", n, 4)


def decode_atn(data):
    """Deserialize an ANTLR 4 (serialization version 4) ATN into states, rules, sets, edges and lexer actions."""
    pos = [0]

    def rd():
        v = data[pos[0]]
        pos[0] += 1
        return v

    ver = rd()
    if ver != 4:
        raise AnalysisError(f"generated lexer: unsupported ATN serialization version {ver}")
    gtype, max_tok = rd(), rd()
    states = []
    for _ in range(rd()):
        st = rd()
        if st == 0:
            states.append(None)
            continue
        rule = rd()
        extra = rd() if st in (12, 3, 4, 5) else None
        states.append((st, rule, extra))
    nongreedy = [rd() for _ in range(rd())]
    _prec = [rd() for _ in range(rd())]
    rules = []
    for _ in range(rd()):
        s = rd()
        tok = rd() if gtype == 0 else None
        rules.append((s, tok))
    modes = [rd() for _ in range(rd())]
    sets = []
    for _ in range(rd()):
        n = rd()
        eof = rd()
        iv = [(rd(), rd()) for _ in range(n)]
        sets.append((iv, bool(eof)))
    edges = [(rd(), rd(), rd(), rd(), rd(), rd()) for _ in range(rd())]
    decisions = [rd() for _ in range(rd())]
    actions = []
    if gtype == 0:
        actions = [(rd(), rd(), rd()) for _ in range(rd())]
    return {"type": gtype, "max_token": max_tok, "states": states, "nongreedy": nongreedy, "rules": rules, "modes": modes, "sets": sets,
            "edges": edges, "decisions": decisions, "actions": actions}


def _g4_charset(tok):
    """Characters of a quoted literal or a bracket set of the grammar, as a set of code points."""
    def unesc(s):
        out, i = [], 0
        while i < len(s):
            if s[i] == "\\" and i + 1 < len(s):
                out.append({"n": "\n", "r": "\r", "t": "\t"}.get(s[i + 1], s[i + 1]))
                i += 2
            else:
                out.append(s[i])
                i += 1
        return out

    if tok.startswith("'"):
        return {ord(c) for c in unesc(tok[1:-1])}, "".join(unesc(tok[1:-1]))
    if tok.startswith("["):
        cs = unesc(tok[1:-1])
        out, i = set(), 0
        while i < len(cs):
            if i + 2 < len(cs) and cs[i + 1] == "-":
                out |= set(range(ord(cs[i]), ord(cs[i + 2]) + 1))
                i += 3
            else:
                out.add(ord(cs[i]))
                i += 1
        return out, None
    return None, None


def lexer_atn(rep, ex: Explorer, g):
    """LEX.generated: the generated lexer (its serialized ATN) implements the token rules of the grammar: the same literal
    tokens, the same named tokens in the same order, per named token the same characters, wildcards, (non-)greedy loops
    and skip actions."""
    import ast as _ast

    path = os.path.join(ex.prog.root, "parser", "CKBLexer.py")
    site = "parser/CKBLexer.py:serializedATN"
    try:
        tree = _ast.parse(open(path, encoding="utf-8").read())
    except (OSError, SyntaxError) as e:
        raise AnalysisError(f"generated lexer unreadable: {e}")
    data = None
    for nd in _ast.walk(tree):
        if isinstance(nd, _ast.FunctionDef) and nd.name == "serializedATN":
            for r in _ast.walk(nd):
                if isinstance(r, _ast.Return):
                    try:
                        data = _ast.literal_eval(r.value)
                    except ValueError:
                        data = None
    if not isinstance(data, list):
        raise AnalysisError("generated lexer: serializedATN() is not a literal list (anchor vanished)")
    try:
        atn = decode_atn(data)
    except IndexError:
        raise AnalysisError("generated lexer: serialized ATN is truncated")
    if atn["type"] != 0:
        raise AnalysisError("generated lexer: the ATN is not a lexer ATN")
    # grammar side: implicit literal tokens in order of first appearance in the parser rules, then the named lexer rules
    literals = []
    for name, alts in g.items():
        if name[:1].isupper():
            continue
        for a in alts:
            for e in a["elems"]:
                if e.startswith("'") and e not in literals:
                    literals.append(e)
    named = [n for n in g if n[:1].isupper()]
    nrules = len(atn["rules"])
    rep.check(nrules == len(literals) + len(named), "LEX.generated", site, "token rules", "one lexer rule per literal of the parser rules and per named token of the grammar",
              extracted=f"{nrules} rules", required=f"{len(literals)} literals + {len(named)} named tokens", function=site)
    if nrules != len(literals) + len(named):
        return
    by_rule = {}
    for e in atn["edges"]:
        st = atn["states"][e[0]]
        if st is not None:
            by_rule.setdefault(st[1], []).append(e)
    ng_rules = {atn["states"][s][1] for s in atn["nongreedy"] if atn["states"][s] is not None}
    # which rule carries which action: ACTION transitions (type 6) name the action index in arg2
    act_rules = {}
    for e in atn["edges"]:
        if e[2] == 6:
            st = atn["states"][e[0]]
            act_rules.setdefault(st[1], []).append(atn["actions"][e[4]][0] if e[4] < len(atn["actions"]) else None)

    def chars_of(rule):
        pos_chars, neg_chars, wild = set(), set(), 0
        for e in by_rule.get(rule, []):
            if e[2] == 5:
                pos_chars.add(e[3])
            elif e[2] == 2:
                pos_chars |= set(range(e[3], e[4] + 1))
            elif e[2] in (7, 8):
                cs = set()
                for a, b in atn["sets"][e[3]][0]:
                    cs |= set(range(a, b + 1))
                (pos_chars if e[2] == 7 else neg_chars).update(cs)
            elif e[2] == 9:
                wild += 1
        return pos_chars, neg_chars, wild

    # literal tokens: the atoms along the rule spell the literal
    got_lits = []
    for k in range(len(literals)):
        atoms = {}
        for e in by_rule.get(k, []):
            if e[2] == 5:
                atoms[e[0]] = (e[1], e[3])
        start = atn["rules"][k][0]
        # follow: rule start -epsilon-> first, then atoms
        nxt = {e[0]: e[1] for e in by_rule.get(k, []) if e[2] == 1}
        cur, word, guard = start, "", 0
        while guard < 200:
            guard += 1
            if cur in atoms:
                cur, ch = atoms[cur][0], atoms[cur][1]
                word += chr(ch)
            elif cur in nxt:
                cur = nxt[cur]
            else:
                break
        got_lits.append(word)
    want_lits = [_g4_charset(l)[1] for l in literals]
    rep.check(got_lits == want_lits, "LEX.generated", site, "literal tokens", "the implicit tokens of the generated lexer spell the literals of the grammar, in the grammar's order (token types follow this order)",
              extracted=str(got_lits), required=str(want_lits), function=site)
    for j, name in enumerate(named):
        k = len(literals) + j
        pos_c, neg_c, wild = chars_of(k)
        gp, gn, gw, g_ng = set(), set(), 0, False
        for a in g[name]:
            el = a["elems"]
            for i, t in enumerate(el):
                cs, _ = _g4_charset(t)
                negated = i > 0 and el[i - 1] == "~" or (i > 1 and el[i - 1] == "(" and el[i - 2] == "~")
                # a negated group ~( 'a' | 'b' ): every literal until the closing parenthesis
                if cs is not None:
                    depth_neg = False
                    d = 0
                    for b in range(i - 1, -1, -1):
                        if el[b] == ")":
                            d += 1
                        elif el[b] == "(":
                            if d == 0:
                                depth_neg = b > 0 and el[b - 1] == "~"
                                break
                            d -= 1
                    (gn if (negated or depth_neg) else gp).update(cs)
                if t == ".":
                    gw += 1
                if t in "*+" and i + 1 < len(el) and el[i + 1] == "?":
                    g_ng = True
        skip_g = all(a["skip"] for a in g[name])
        skip_a = 6 in act_rules.get(k, [])
        rep.check(pos_c == gp and neg_c == gn, "LEX.generated", site, f"{name} characters", f"the generated rule for {name} accepts the characters the grammar names",
                  extracted=f"+{sorted(pos_c)[:12]} -{sorted(neg_c)}", required=f"+{sorted(gp)[:12]} -{sorted(gn)}", function=site)
        rep.check(wild == gw, "LEX.generated", site, f"{name} wildcards", "as many wildcard transitions as the grammar rule has '.'", extracted=str(wild), required=str(gw), function=site)
        rep.check((k in ng_rules) == g_ng, "LEX.generated", site, f"{name} loop greediness", "a loop is non-greedy in the generated lexer exactly when the grammar writes '*?' / '+?'",
                  extracted="non-greedy" if k in ng_rules else "greedy", required="non-greedy" if g_ng else "greedy", function=site)
        rep.check(skip_a == skip_g, "LEX.generated", site, f"{name} skip action", "the generated rule skips the token exactly when the grammar says '-> skip'", extracted=str(skip_a), required=str(skip_g), function=site)
    rep.floor("named lexer rules compared with the ATN", len(named), 5)


# ----------------------------------------------------------------------------------------------
# the query container
# ----------------------------------------------------------------------------------------------
def queries_forward(rep, ex: Explorer):
    """QUERIES.forward (by evaluation): a `Queries` object built from a parsed base or from a mapping of conditionals presents
    exactly the conditionals it was given - same keys, same conditional under each key, same order - and, when built from a
    base, that base's signature.  Evaluated on concrete mappings (dense 1..n, sparse, a single entry, empty) with opaque
    conditionals; a copy of the mapping is as good as the mapping itself."""
    prog = ex.prog
    QC = "inference.queries.Queries"
    qual = f"{QC}.__init__"
    if qual not in prog.functions:
        raise AnalysisError("Queries.__init__ not found")
    site = fn_label(prog, qual)
    tables = [[1, 2, 3], [1], [], [3, 7], [0, 5], [2, 1]]
    n = 0
    for from_base in (True, False):
        for keys in tables:
            def setup(I, keys=keys, from_base=from_base):
                d = I.alloc(HDict(entries={k: Sym(("cond", k), "cond") for k in keys}))
                if from_base:
                    sig = I.alloc(HList([("one", Const("a")), ("one", Const("b"))]))
                    arg = I.alloc(HObj("inference.belief_base.BeliefBase", {"signature": sig, "conditionals": d, "name": Const("kb")}))
                else:
                    arg = d
                me = I.alloc(HObj(QC, {}))
                I._q_self = me
                return [me, arg], {}

            paths = ex.run(qual, setup, key=f"queries-{from_base}-{keys}")
            slot = ("from a base" if from_base else "from a mapping") + f" with keys {keys}"
            if len(paths) != 1:
                raise AnalysisError(f"{site}: {len(paths)} paths on a concrete {slot}")
            p = paths[0]
            n += 1
            if p.outcome[0] != "return":
                rep.violation("QUERIES.forward", site, slot, "every mapping of conditionals is accepted", extracted=f"{p.outcome[0]} {p.outcome[1]!r}"[:100], required="return", function=site)
                continue
            me = next((o for o in p.state.heap.values() if isinstance(o, HObj) and o.cls == QC), None)
            cd = me.attrs.get("conditionals") if me is not None else None
            d = p.state.heap.get(cd.oid) if isinstance(cd, Ref) else None
            if not (isinstance(d, HDict) and not d.each and not d.sym):
                raise AnalysisError(f"{site}: the conditionals of the query container are not a mapping the analysis can read ({slot})")
            got = [(k, v.label if isinstance(v, Sym) else repr(v)) for k, v in d.entries.items()]
            want = [(k, ("cond", k)) for k in keys]
            rep.check(got == want, "QUERIES.forward", site, slot, "the query container holds the given conditionals under their own keys, in the given order",
                      extracted=str([(k, F.show_desc(v) if isinstance(v, tuple) else v) for k, v in got])[:200], required=str([(k, f"conditional {k}") for k in keys]), function=site)
            if from_base:
                sg = me.attrs.get("signature")
                so = p.state.heap.get(sg.oid) if isinstance(sg, Ref) else None
                vals = [x[1].value for x in so.segs if x[0] == "one" and isinstance(x[1], Const)] if isinstance(so, HList) else None
                rep.check(vals == ["a", "b"], "QUERIES.forward", site, slot + " signature", "the query container carries the signature of the base it was read from",
                          extracted=repr(vals), required="['a', 'b']", function=site)
    rep.floor("Queries constructions evaluated", n, 12)


# ----------------------------------------------------------------------------------------------
# the chain behind the public wrappers: query template, first base of the file, visitCkbs
# ----------------------------------------------------------------------------------------------
_SIG_BLOCK = re.compile(r"^\s*signature\s+[A-Za-z_][\w-]*(\s*,\s*[A-Za-z_][\w-]*)*\s*\n\s*conditionals\s+[A-Za-z_][\w-]*\s*\{\s*$")
_MARK = "⟪QUERYTEXT⟫"


def wrapper_chain(rep, ex: Explorer):
    """WRAP.chain (by evaluation, the grammar and the visitor summarised): what the public wrappers hand to the grammar and
    what they hand back.  (a) `parseQuery` wraps the caller's query text - unchanged, exactly once - into a belief-base
    template that is itself well formed, and returns the conditionals mapping of the parsed template; (b)
    `parse_queries_from_str` returns the query container of `parseCKB(text)` or of `parseQuery(text)`, never of anything
    else; (c) `parseCKB` returns the base the visitor built for the (single) block of the text it was given; (d) `visitCkbs`
    visits the signature first, then every block once, and its result holds every base it built, in file order; (e) the base
    built for a block carries the declared signature and the block's name."""
    prog = ex.prog

    def summ(name):
        def h(I, fi, a, k, n):
            I.log("chain.call", n, callee=name, args=tuple(a))
            return Sym((name, tuple(desc(x) for x in a)))
        return h

    # (a) parseQuery -----------------------------------------------------------------------------
    qual = f"{WR}.parseQuery"
    if qual in prog.functions:
        site = fn_label(prog, qual)
        paths = ex.run(qual, lambda I: ([Const(_MARK)], {}), summaries={f"{WR}.parseCKB": summ("parseCKB")}, key="chain-parseQuery")  # (a concrete, unmistakable text: every way of building the template folds to a constant)
        rets = [p for p in paths if p.outcome[0] == "return"]
        if not rets:
            raise AnalysisError(f"{site}: no returning path")
        for p in rets:
            calls = [ev for ev, Q in iter_events(p.events) if ev.kind == "chain.call" and ev.callee == "parseCKB"]
            if len(calls) != 1 or len(calls[0].args) != 1:
                raise AnalysisError(f"{site}: {len(calls)} calls of parseCKB on a returning path")
            a = calls[0].args[0]
            if type(a).__name__ == "NameV" and all(isinstance(x, str) for x in a.parts):
                a = Const("".join(a.parts))
            if not (isinstance(a, Const) and isinstance(a.value, str)):
                raise AnalysisError(f"{site}: the text handed to parseCKB is not a constant template around the query text ({a!r})"[:200])
            t = a.value
            cnt = t.count(_MARK)
            rep.check(cnt == 1, "WRAP.chain", site, "query text in the template", "the caller's query text is parsed exactly once, unchanged",
                      extracted=f"the template holds the query text {cnt} time(s)", required="once", function=site)
            if cnt == 1:
                pre, post = t.split(_MARK)
                okp = bool(_SIG_BLOCK.match(pre))
                oks = bool(re.match(r"^\s*\}\s*$", post))
                rep.check(okp, "WRAP.chain", site, "template before the query text", "the query text is the content of one conditionals block behind a well-formed signature section, with nothing but white space in front of it",
                          extracted=repr(pre)[:160], required="signature <atoms> NEWLINE conditionals <name> { <white space>", function=site)
                rep.check(oks, "WRAP.chain", site, "template after the query text", "nothing but the closing brace follows the query text (anything else is parsed as part of the caller's queries or hides a trailing error)",
                          extracted=repr(post)[:80], required="<white space> } <white space>", function=site)
            rv = p.outcome[1]
            d = desc(rv)
            want = ("parseCKB", (desc(a),))
            ok = getattr(rv, "name", None) == "conditionals" and isinstance(getattr(rv, "obj", None), Sym) and rv.obj.label == want
            if not ok and "conditionals" not in repr(d):
                rep.violation("WRAP.chain", site, "result", "the queries are the conditionals mapping of the parsed template", extracted=repr(rv)[:160], required="parseCKB(template).conditionals", function=site)
            elif not ok:
                raise AnalysisError(f"{site}: cannot relate the result {rv!r} to the conditionals of the parsed template"[:240])
            else:
                rep.ok("WRAP.chain", site, "result", "the queries are the conditionals mapping of the parsed template")
        rep.floor("parseQuery returning paths", len(rets), 1)

    # (b) parse_queries_from_str -----------------------------------------------------------------
    qual = f"{WR}.parse_queries_from_str"
    site = fn_label(prog, qual)
    S = {f"{WR}.parseCKB": summ("parseCKB"), "inference.queries.Queries": summ("Queries")}
    if f"{WR}.parseQuery" in prog.functions:
        S[f"{WR}.parseQuery"] = summ("parseQuery")
    # (explored without the report: the path on which parseQuery yields no query at all ends in an error of its own - an
    # UnboundLocalError today -, which is a rejection and no concern of this rule)
    I_b = Interp(prog, summaries=S)
    paths = I_b.explore(qual, lambda I: ([Sym("text", "str")], {}))
    if ex.report is not None:
        ex.report.absorb_stats(I_b)
    nret = 0
    for p in paths:
        if p.outcome[0] != "return":
            continue
        nret += 1
        rv = p.outcome[1]
        lab = rv.label if isinstance(rv, Sym) else None
        TXT = desc(Sym("text", "str"))
        good = (("Queries", (("parseCKB", (TXT,)),)), ("Queries", (("parseQuery", (TXT,)),)))
        # with parseQuery gone (inlined), the template check above does not apply; accept Queries(parseCKB(<template>).conditionals)
        if lab in good:
            rep.ok("WRAP.chain", site, f"result ({'base format' if lab == good[0] else 'query list'})", "the container is built from what parsing the caller's text gave")
            if lab == good[1]:
                # the template puts the text inside the braces of one block and parseCKB hands out the first block only: a text
                # that closes the block and opens another one (`... } conditionals X { ...`) would be accepted with its tail
                # dropped.  It cannot get here as long as no text containing the keyword is routed to the template.
                kw = [(k, v) for k, v in p.decisions if "conditionals" in repr(k) and "text" in repr(k)]
                free = any(k[0] == "in" and v is False for k, v in kw)
                if kw and not free:
                    raise AnalysisError(f"{site}: the route to the query template depends on {show_pred(kw[0][0])[:120]}; cannot tell whether texts with a second block are kept away from it")
                rep.check(free, "REJECT.template", site, "texts routed to the query template", "a text that can close the template's block and open another one (it needs the keyword `conditionals` for that) is not pasted into the template: only the first block would be read and the rest dropped without an error",
                          extracted="decided by: " + ("; ".join(f"{show_pred(k)[:70]}={v}" for k, v in p.decisions[:4]) or "nothing"), required="'conditionals' not in text on the way to parseQuery", function=site)
        elif isinstance(lab, tuple) and lab[:1] == ("Queries",):
            inner = repr(lab[1])
            if "parseCKB" in inner or "parseQuery" in inner:
                if "text" in inner:
                    raise AnalysisError(f"{site}: a query container built from {inner[:160]}: cannot relate it to the parse of the caller's text")
                rep.violation("WRAP.chain", site, "result", "the container is built from what parsing the caller's text gave", extracted=inner[:160], required="Queries(parseCKB(text)) or Queries(parseQuery(text))", function=site)
            else:
                rep.violation("WRAP.chain", site, "result", "the container is built from what parsing the caller's text gave", extracted=inner[:160], required="Queries(parseCKB(text)) or Queries(parseQuery(text))", function=site)
        else:
            raise AnalysisError(f"{site}: returns {rv!r}, not a query container the analysis can read"[:200])
    rep.floor("parse_queries_from_str returning paths", nret, 2)

    # (c) parseCKB -------------------------------------------------------------------------------
    qual = f"{WR}.parseCKB"
    site = fn_label(prog, qual)
    for nkb in (1,):
        held = {}

        def vis_new(I, fi, a, k, n):
            from ..absvals import ExtV as _ExtV
            return I.alloc(HObj(VIS, {"visit": _ExtV("antlr4.ParseTreeVisitor.visit")}))

        def hook_visit(I, args, kwargs, node, held=held):
            I.log("chain.call", node, callee="visit", args=tuple(args))
            d = I.alloc(HDict(entries={("kb", 1): Sym("BASE1")}))
            return d

        I_ = Interp(prog, models={"antlr4.ParseTreeVisitor.visit": hook_visit}, summaries={f"{WR}._getParseTree": summ("tree"), f"{VIS}": vis_new})
        try:
            cp = I_.explore(qual, lambda I: ([Sym("text", "str")], {}))
        except AnalysisError:
            raise
        if ex.report is not None:
            ex.report.absorb_stats(I_)
        rets = [p for p in cp if p.outcome[0] == "return"]
        if len(rets) != 1 or len(cp) != 1:
            raise AnalysisError(f"{site}: {len(cp)} paths / {len(rets)} returning on a text with one block")
        p = rets[0]
        vis = [ev for ev, Q in iter_events(p.events) if ev.kind == "chain.call" and ev.callee == "visit"]
        tr = [ev for ev, Q in iter_events(p.events) if ev.kind == "chain.call" and ev.callee == "tree"]
        ok_tree = len(tr) == 1 and len(tr[0].args) == 1 and isinstance(tr[0].args[0], Sym) and tr[0].args[0].label == "text"
        if not ok_tree and tr and "text" in repr([desc(x) for x in tr[0].args]) and any(m in repr([desc(x) for x in tr[0].args]) for m in ("'join'", "'replace'", "'split'", "'splitlines'", "'translate'", "'lower'", "'upper'")):
            rep.violation("REJECT.input", site, "text handed to the grammar", "the grammar reads the caller's text unchanged: rewriting it first (dropping, replacing or re-splitting characters) makes malformed input well formed or changes what a comment covers",
                          extracted=repr(tr[0].args[0])[:160], required="the text argument itself", function=site)
            ok_tree = None
        elif not ok_tree and tr and "text" in repr([desc(x) for x in tr[0].args]):
            raise AnalysisError(f"{site}: the text handed to the grammar is {tr[0].args!r}; cannot relate it to the argument"[:200])
        if ok_tree is not None:
          rep.check(ok_tree, "WRAP.chain", site, "text parsed", "the grammar reads the text the caller passed", extracted=repr([e.args for e in tr])[:160], required="_getParseTree(text), once", function=site)
        ok_vis = len(vis) == 1 and len(vis[0].args) == 1 and isinstance(vis[0].args[0], Sym) and vis[0].args[0].label == ("tree", (desc(Sym("text", "str")),))
        if ok_tree is None:
            vis = []
            ok_vis = True
        rep.check(ok_vis or not ok_tree, "WRAP.chain", site, "tree visited", "the visitor walks the tree of that text", extracted=repr([e.args for e in vis])[:160], required="visitor.visit(tree)", function=site)
        rv = p.outcome[1]
        got = view(p.state, rv)
        is_base = isinstance(rv, Sym) and rv.label == "BASE1" or (getattr(rv, "label", None) == "BASE1")
        if not is_base:
            dd = repr(desc(rv))
            if "BASE1" in dd and dd.count("BASE1") == 1 and not isinstance(rv, Ref):
                is_base = True
        rep.check(is_base, "WRAP.chain", site, "result", "the base returned is the one the visitor built for the block of the text", extracted=repr(rv)[:160], required="the single value of visitor.visit(tree)", function=site)
    rep.floor("parseCKB evaluations", 1, 1)

    # (d) visitCkbs on concrete trees with one and two blocks -------------------------------------
    qual = f"{VIS}.visitCkbs"
    site = fn_label(prog, qual)
    from ..absvals import ExtV
    nck = 0
    for names in (["kb"], ["kb", "other"], ["kb", "kb"]):
        held = {"order": []}

        def visit_ck(I, args, kwargs, node, held=held):
            x = args[0] if args else None
            o = I.deref(x) if isinstance(x, Ref) else None
            if isinstance(o, HOpaque) and o.typ == "ParseNode":
                if o.attrs["rule"] == "signature":
                    held["order"].append("signature")
                    return I.new_list([Const("a"), Const("b")])
                if o.attrs["rule"] == "conditionals":
                    me = I.deref(held["s"])
                    sg = me.attrs.get("signature")
                    vw = view(I.state, sg) if sg is not None else None
                    held["order"].append(("block", o.attrs["idx"], repr(vw)))
                    return I.alloc(HObj("inference.belief_base.BeliefBase", {"name": Const(o.attrs["name"]), "tag": Const(o.attrs["idx"])}))
            raise AnalysisError(f"{site}: visit() of something that is not a node of the tree: {x!r}")

        def setup_k(I, names=names, held=held):
            s_ = I.alloc(HObj(VIS, {"visit": ExtV("antlr4.ParseTreeVisitor.visit")}))
            held["s"] = s_
            held["order"].clear()
            sgn = I.alloc(HOpaque("ParseNode", {"rule": "signature", "visit": "visitSignature", "text": Const("a,b\n"), "labels": {}, "kids": {}, "nchildren": 2}))
            blocks = [I.alloc(HOpaque("ParseNode", {"rule": "conditionals", "visit": "visitConditionals", "idx": i, "name": nm, "text": Const(nm + "{}"), "labels": {"name": I.alloc(HOpaque("Token", {"text": Const(nm)}))}, "kids": {}, "nchildren": 4}))
                      for i, nm in enumerate(names)]
            ctx = I.alloc(HOpaque("ParseNode", {"rule": "ckbs", "visit": "visitCkbs", "text": Const("..."), "labels": {}, "kids": {"signature": [sgn], "conditionals": blocks}, "many": {"conditionals": True}, "nchildren": 2 + len(names)}))
            return [s_, ctx], {}

        I_ = Interp(prog, models={"antlr4.ParseTreeVisitor.visit": visit_ck})
        I_.max_depth = 8
        kp = I_.explore(qual, setup_k)
        if ex.report is not None:
            ex.report.absorb_stats(I_)
        slot = f"file with block(s) {names}"
        if len(kp) != 1 or kp[0].outcome[0] != "return":
            raise AnalysisError(f"{site}: evaluation on a concrete tree did not give one result ({slot}: {[p.outcome for p in kp]!r})"[:300])
        nck += 1
        order = list(held["order"])
        want_order = ["signature"] + [("block", i, repr(("list", [("one", Const("a")), ("one", Const("b"))]))) for i in range(len(names))]
        sig_first = order[:1] == ["signature"] and order.count("signature") == 1
        rep.check(sig_first, "WRAP.chain", site, f"signature first ({slot})", "the signature section is read once, before any block (the blocks are built with it)", extracted=repr([o if isinstance(o, str) else o[:2] for o in order])[:160], required="signature, then the blocks", function=site)
        blocks_seen = [o[1] for o in order if isinstance(o, tuple)]
        rep.check(blocks_seen == list(range(len(names))), "WRAP.chain", site, f"blocks visited ({slot})", "every block is visited once, in file order", extracted=repr(blocks_seen), required=repr(list(range(len(names)))), function=site)
        sig_seen = [o[2] for o in order if isinstance(o, tuple)]
        if sig_first and any("'a'" not in s_ or "'b'" not in s_ for s_ in sig_seen):
            rep.violation("WRAP.chain", site, f"signature known to the blocks ({slot})", "when a block is built the visitor's signature is the declared one", extracted=repr(sig_seen)[:200], required="['a', 'b']", function=site)
        else:
            rep.ok("WRAP.chain", site, f"signature known to the blocks ({slot})", "when a block is built the visitor's signature is the declared one")
        st = kp[0].state
        rv = kp[0].outcome[1]
        d = st.heap.get(rv.oid) if isinstance(rv, Ref) else None
        if not (isinstance(d, HDict) and not d.each and not d.sym):
            raise AnalysisError(f"{site}: the result is not a mapping the analysis can read ({slot}): {view(st, rv)!r}"[:240])
        tags = []
        for k_, v_ in d.entries.items():
            o_ = st.heap.get(v_.oid) if isinstance(v_, Ref) else None
            t_ = o_.attrs.get("tag") if isinstance(o_, HObj) else None
            tags.append(t_.value if isinstance(t_, Const) else repr(v_))
        rep.check(tags == list(range(len(names))), "WRAP.chain", site, f"result ({slot})", "the result holds every base built, each once, in file order (parseCKB hands out the first)", extracted=repr(tags), required=repr(list(range(len(names)))), function=site)
    rep.floor("visitCkbs trees evaluated", nck, 3)

    # (e) visitConditionals: signature and name of the base ---------------------------------------
    qual = f"{VIS}.visitConditionals"
    site = fn_label(prog, qual)
    CTX = ElemV(("ctx",), "ctx")

    def visit_model(I, args, kwargs, node):
        return I.alloc(HList([("sym", ("rest", "condition"))]))

    def setup_e(I):
        s = I.alloc(HObj(VIS, {"sigcheck": I.alloc(HList()), "signature": Sym("DECLARED"), "visit": ExtV("antlr4.ParseTreeVisitor.visit")}))
        return [s, CTX], {}

    ne = 0
    for p in ex.run(qual, setup_e, key="chain-visitConditionals", models={"antlr4.ParseTreeVisitor.visit": visit_model}):
        if p.outcome[0] != "return":
            continue
        bbv = p.outcome[1]
        o = p.state.heap.get(bbv.oid) if isinstance(bbv, Ref) else None
        if not isinstance(o, HObj):
            raise AnalysisError(f"{site}: does not return an object built here")
        ne += 1
        sg = o.attrs.get("signature")
        rep.check(isinstance(sg, Sym) and sg.label == "DECLARED", "WRAP.chain", site, "signature of the base", "a parsed base has the declared signature", extracted=repr(view(p.state, sg))[:120], required="the visitor's signature (read from the signature section)", function=site)
        nm = o.attrs.get("name")
        okn = "name" in repr(desc(nm)) and "ctx" in repr(desc(nm))
        if not okn and isinstance(nm, Const):
            rep.violation("WRAP.chain", site, "name of the base", "the base is named as its block", extracted=repr(nm), required="ctx.name.text", function=site)
        elif not okn:
            raise AnalysisError(f"{site}: cannot read the name given to the base ({nm!r})")
        else:
            rep.ok("WRAP.chain", site, "name of the base", "the base is named as its block")
    rep.floor("visitConditionals bases looked at", ne, 2)
