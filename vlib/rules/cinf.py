"""c-inference (C05): C.minima-roles, C.relations, C.query-edges, C.empty-minimum, C.selffulfilling; and the
index-discipline rules KEY.no-positional on the η / mv / mf name families (C05.D6, C12.D2, C17.D2)."""
from __future__ import annotations

import ast

from .. import formula as F
from ..absint import iter_events, Interp
from ..absvals import Const, Sym, PredV, LinV, Ref, ElemV, TupleV, HObj, HDict, HList, PTRUE, desc, show_pred
from ..front import AnalysisError
from ..harness import (Explorer, make_belief_base, make_epistemic_state, make_query, A, B, QUERY, material, verification,
                       falsification, fn_label, decided, rc2_state, view, KEYS_D, canon_items, canon_item, show_items,
                       RC2_SUMMARIES, RC2_HOOKS, wcnf_view, truth_rows, returned_bool, early_exits)
from . import wrappers

CI = "inference.c_inference.CInference"
MOD = "inference.c_inference"


def _mk(I, cls=CI, extra=None):
    bb = make_belief_base(I)
    st = rc2_state(I, v=True)
    st["vMin"] = I.alloc(HDict())
    st["fMin"] = I.alloc(HDict())
    if extra:
        st.update(extra(I))
    es = make_epistemic_state(I, bb, "c-inference", extra=st, pmaxsat=Const("rc2"))
    return I.alloc(HObj(cls, {"epistemic_state": es})), es


def _summ():
    s = dict(wrappers.SUMMARIES)
    s.update(RC2_SUMMARIES)
    return s


def _slot_names(state):
    slots = {}
    for oid, o in state.heap.items():
        if isinstance(o, HDict) and "vMin" in o.entries and "belief_base" in o.entries:
            for name in ("vMin", "fMin", "v_cnf_dict", "f_cnf_dict", "nf_cnf_dict"):
                r = o.entries.get(name)
                if isinstance(r, Ref):
                    slots[r.oid] = name
    return slots


# ----------------------------------------------------------------------------------------------
def minima_roles(rep, ex: Explorer, cls=CI):
    """C.minima-roles: correction sets computed under verification(c_i) go to vMin[i], under falsification(c_i) to
    fMin[i]; soft = ¬falsification(c_j), j≠i; ignore=[i].  Query: element 0 of query_to_cnf is the V side."""
    qual = f"{cls}.compile_constraint"
    site = fn_label(ex.prog, qual)

    def setup(I):
        s, es = _mk(I, cls)
        return [s, Sym("deadline")], {}

    paths = ex.run(qual, setup, summaries=_summ(), key="cc", hooks=RC2_HOOKS)
    seen = set()
    for p in paths:
        slots = _slot_names(p.state)
        for ev, Q in iter_events(p.events):
            if ev.kind != "dict.set" or not isinstance(ev.obj, Ref) or slots.get(ev.obj.oid) not in ("vMin", "fMin") or not Q:
                continue
            name = slots[ev.obj.oid]
            loop_ev, case = Q[-1]
            evar = loop_ev.evar
            where = f"{site}:{ev.node.lineno}"
            # the value stored: which computation?
            val = ev.value
            mcs = None
            for e2, Q2 in iter_events(case.events):
                if e2.kind == "mcs" and isinstance(val, ElemV) and val.var == ("mcs", e2.cid):
                    mcs = e2
            if mcs is None:
                rep.violation("C.minima-roles", where, f"{name} value", "the stored family is the result of the minimal-correction-set computation for that conditional", extracted=repr(val), required="minimal_correction_subsets(...)", function=site)
                continue
            hard, soft = wcnf_view(mcs.snap)
            want_f = verification(evar) if name == "vMin" else falsification(evar)
            okh = len(hard) == 1 and hard[0][0] == "f" and F.equiv(hard[0][1], want_f)
            rep.check(okh, "C.minima-roles", where, f"{name} hard side", f"{name}[i] is computed with {'verification' if name == 'vMin' else 'falsification'}(c_i) as hard constraint",
                      extracted=show_items(hard), required=F.show(want_f), function=site)
            x = ("var", "_j")
            want_soft = [("each", x, KEYS_D, ("not", ("cmp", "==", *sorted([("elem", evar, "key"), ("elem", x, "key")], key=repr))), ("soft", ("f", material(x)), ("c", 1)))]
            oks = canon_items(soft) == canon_items(want_soft)
            rep.check(oks, "C.minima-roles", where, f"{name} soft side", "soft = ¬falsification(c_j), weight 1, for every other conditional j≠i",
                      extracted=show_items(soft), required=show_items(want_soft), function=site)
            okk = isinstance(ev.key, ElemV) and ev.key.var == evar and ev.key.role == "key"
            rep.check(okk, "C.minima-roles", where, f"{name} key", "stored under the conditional's own key", extracted=repr(ev.key), required="key i", function=site)
            iv = mcs.ignore_view
            oki = isinstance(iv, tuple) and iv[0] == "list" and len(iv[1]) == 1 and iv[1][0][0] == "one" and isinstance(iv[1][0][1], ElemV) and iv[1][0][1].var == evar
            rep.check(oki, "C.minima-roles", where, f"{name} ignore", "the leading conditional itself is ignored when reading off violated owners", extracted=repr(iv)[:120], required="[i]", function=site)
            okd = mcs.deadline == Sym("deadline")
            rep.check(okd, "TIMEOUT.flow", where, f"{name} deadline", "the preprocessing deadline reaches the enumeration", extracted=repr(mcs.deadline), required="deadline", function=site)
            seen.add(name)
    rep.floor("C.minima-roles stores", len(seen), 2)


def query_encoding(rep, ex: Explorer, cls=CI):
    """C.minima-roles (query), C.relations (query constraint), C.query-edges, C.empty-minimum on
    compile_and_encode_query."""
    qual = f"{cls}.compile_and_encode_query"
    site = fn_label(ex.prog, qual)

    def setup(I):
        s, es = _mk(I, cls)
        return [s, make_query(), Sym("deadline")], {}

    paths = ex.run(qual, setup, summaries=_summ(), key="caeq", hooks=RC2_HOOKS)
    n = 0
    for p in paths:
        if p.outcome[0] != "return":
            continue
        mcs = [ev for ev, Q in iter_events(p.events) if ev.kind == "mcs"]
        side = {}
        for e in mcs:
            hard, soft = wcnf_view(e.snap)
            role = None
            if len(hard) == 1 and hard[0][0] == "f":
                if F.equiv(hard[0][1], verification(QUERY)):
                    role = "v"
                elif F.equiv(hard[0][1], falsification(QUERY)):
                    role = "f"
            where = f"{site}:{e.node.lineno}"
            if role is None:
                rep.violation("C.minima-roles", where, "query side", "the query's correction sets are computed under its verification / falsification", extracted=show_items(hard), required="Q.A∧Q.B or Q.A∧¬Q.B", function=site)
                continue
            x = ("var", "_j")
            want_soft = [("each", x, KEYS_D, PTRUE, ("soft", ("f", material(x)), ("c", 1)))]
            rep.check(canon_items(soft) == canon_items(want_soft), "C.minima-roles", where, f"query {role}-side soft", "soft = ¬falsification(c_j) for every conditional of the base",
                      extracted=show_items(soft), required=show_items(want_soft), function=site)
            # nothing is ignored when the query's correction sets are read off: every conditional of the base counts, whatever
            # its key (an ignore list handed over, or the parameter's default, must be empty)
            iv_ = e.ignore_view if e.ignore is not None else e.data.get("ignore_default")
            ok_ign = iv_ is None or (isinstance(iv_, tuple) and iv_[0] in ("list", "tuple") and not iv_[1])
            rep.check(ok_ign, "C.minima-roles", where, f"query {role}-side ignore", "no conditional of the base is ignored when the query's correction sets are read off (a key in the default of `ignore` would drop the conditional stored under it)",
                      extracted=("default of the parameter: " if e.ignore is None else "") + repr(iv_)[:100], required="nothing ignored", function=site)
            side[role] = ("mcs", e.cid)
        if set(side) != {"v", "f"}:
            # a returning path on which one family was never computed (the loop over the two sides left early: an expiry seen
            # between them, a guard): what is returned may rest only on the family that was computed and found empty - V=∅ gives
            # "no constraint", F=∅ the unsatisfiable constraint, whatever the other is.  Anything else reads the missing family
            # as empty without anybody having looked
            if not mcs:
                rep.violation("C.query-edges", site, "result without any family", "a query constraint is returned only after the query's correction sets were computed",
                              extracted=f"returns on a path that computes no correction sets at all (decided by: {'; '.join(show_pred(k)[:50] + '=' + str(v) for k, v in p.decisions[-3:])})"[:300], required="both families computed, or TimeoutError", function=site)
                continue
            if not side:
                continue  # (reported above as a wrong hard side)
            have = next(iter(side), None)
            emp = decided(p, ("empty", side[have])) if have else None
            rv_ = p.outcome[1]
            csp_ = rv_.items[0] if isinstance(rv_, TupleV) and rv_.items else rv_
            vw_ = view(p.state, csp_)
            if vw_ == ("list", ()):
                got_ = "no constraint"
            elif isinstance(vw_, tuple) and vw_[0] == "list" and len(vw_[1]) == 1 and vw_[1][0][0] == "one" and _is_false_constraint(vw_[1][0][1]):
                got_ = "unsatisfiable constraint"
            else:
                got_ = "minimum encoding"
            ok_ = emp is True and got_ == ("no constraint" if have == "v" else "unsatisfiable constraint")
            missing = "falsifying" if have == "v" else "verifying"
            n += 1
            rep.check(ok_, "C.query-edges", site, f"result without the {missing} family", f"a query constraint is returned only after both families of correction sets were computed, or after the one computed was found empty (an unflagged answer must not rest on a family nobody enumerated)",
                      extracted=f"returns '{got_}' on a path that never computes the {missing} correction sets (decided by: {'; '.join(show_pred(k)[:50] + '=' + str(v) for k, v in p.decisions[-3:])})"[:300],
                      required="both families computed, or TimeoutError", function=site)
            continue
        EV = decided(p, ("empty", side["v"]))
        EF = decided(p, ("empty", side["f"]))
        rv = p.outcome[1]
        csp = rv.items[0] if isinstance(rv, TupleV) and rv.items else rv
        vw = view(p.state, csp)
        n += 1
        if EV is None or EF is None:
            # (a truth value the path did decide but that the analysis cannot tie to one of the two families - a list rebuilt
            # at a computed position, say - may be that very emptiness: no verdict then)
            other = [k for k, v in p.decisions if k[0] in ("truthy", "empty", "cmp") and k not in (("empty", side["v"]), ("empty", side["f"])) and "log-enabled" not in repr(k)]
            if other:
                raise AnalysisError(f"{site}: the result depends on {show_pred(other[0])[:120]}, which the analysis cannot relate to the emptiness of the query's two families")
            # the result is fixed on this path although an emptiness it depends on was not consulted: it must be right for
            # every value of the unconsulted one
            def kind(v):
                if v == ("list", ()):
                    return "no constraint"
                if isinstance(v, tuple) and v[0] == "list" and len(v[1]) == 1 and v[1][0][0] == "one" and _is_false_constraint(v[1][0][1]):
                    return "unsatisfiable constraint"
                return "minimum encoding"
            got = kind(vw)
            bad = None
            for ev_ in ((EV,) if EV is not None else (True, False)):
                for ef_ in ((EF,) if EF is not None else (True, False)):
                    want = "no constraint" if ev_ else ("unsatisfiable constraint" if ef_ else "minimum encoding")
                    if ev_ and ef_:
                        continue  # unreachable behind the shared short cut
                    if got != want and bad is None:
                        bad = (ev_, ef_, want)
            rep.check(bad is None, "C.query-edges", site, f"result without consulting {'V' if EV is None else 'F'}=∅", "the query's constraints follow the emptiness of its two correction-set families: V=∅ ⇒ none (not entailed), F=∅ ⇒ unsatisfiable (entailed), else the minimum encoding",
                      extracted=f"{got} although for V{'=' if bad and bad[0] else '≠'}∅, F{'=' if bad and bad[1] else '≠'}∅ {bad[2] if bad else ''} is required"[:200], required="decided by V=∅ / F=∅", function=site)
            continue
        if EV and not EF:
            ok = vw == ("list", ())
            rep.check(ok, "C.query-edges", site, "V=∅, F≠∅", "no verifying world but a falsifying one ⇒ no query constraint (the base CSP stays satisfiable: not entailed)", extracted=repr(vw)[:160], required="[]", function=site)
        elif EF and not EV:
            ok = isinstance(vw, tuple) and vw[0] == "list" and len(vw[1]) == 1 and vw[1][0][0] == "one" and isinstance(vw[1][0][1], type(vw[1][0][1])) and _is_false_constraint(vw[1][0][1])
            rep.check(ok, "C.query-edges", site, "F=∅, V≠∅", "no falsifying world ⇒ an unsatisfiable query constraint (entailed)", extracted=repr(vw)[:160], required="an unsatisfiable constraint", function=site)
        elif EV and EF:
            rep.ok("C.query-edges", site, "V=∅, F=∅", "cannot occur behind the shared short cut; unconstrained")
        else:
            # C.relations: mv ≤ every v-sum, attained; mf likewise; mv - mf ≥ 0
            rels = _collect_constraints(vw)
            mvn, mfn = _min_names(rels)
            ok = mvn is not None and mfn is not None
            got = "; ".join(F.show(f) for f in rels["plain"])
            qc = [f for f in rels["plain"] if f[0] == "rel"]
            okq = False
            for f in qc:
                terms = dict(f[1][0])
                if f[2] == ">=" and f[1][1] == 0 and len(terms) == 2 and mvn in terms and mfn in terms and terms[mvn] == 1 and terms[mfn] == -1:
                    okq = True
            rep.check(ok and okq, "C.relations", site, "query constraint", "the query contributes min(verifying sums) − min(falsifying sums) ≥ 0 (satisfiable ⇒ not entailed)",
                      extracted=got[:300], required="mv_Q − mf_Q ≥ 0", function=site)
            # which minimum variable is tied to which family
            for sd, nm in (("v", mvn), ("f", mfn)):
                okf = nm is not None and rels["minfam"].get(nm) == side[sd]
                rep.check(okf, "C.minima-roles", site, f"query {sd}-minimum", f"m{sd}_Q is the minimum over the {'verifying' if sd == 'v' else 'falsifying'} correction sets of the query",
                          extracted=F.show_desc(rels["minfam"].get(nm)), required=F.show_desc(side[sd]), function=site)
            # C.empty-minimum: both families known non-empty here
            rep.ok("C.empty-minimum", site, "query minima guarded", "the minimum encodings of the query are built only for non-empty families")
    rep.floor("query encoding paths", n, 3)


def _is_false_constraint(v):
    from ..absvals import FormulaV

    if isinstance(v, FormulaV):
        f = v.f
        if f[0] == "rel" and not f[1][0]:
            c = f[1][1]
            return not ((c >= 0) if f[2] == ">=" else (c > 0) if f[2] == ">" else (c == 0))
        if f == F.FALSE:
            return True
    return False


def _collect_constraints(vw):
    """Split a constraint list view into plain formulas and per-family 'm ≤ s' items; find which minimum variable
    ranges over which family."""
    from ..absvals import FormulaV

    out = {"plain": [], "each": [], "minfam": {}}
    if not (isinstance(vw, tuple) and vw[0] == "list"):
        return out
    for s in vw[1]:
        if s[0] == "one" and isinstance(s[1], FormulaV):
            out["plain"].append(s[1].f)
        elif s[0] == "each" and isinstance(s[4], FormulaV):
            out["each"].append((s[1], s[2], s[3], s[4].f))
            f = s[4].f
            if f[0] == "rel":
                for t, c in f[1][0]:
                    if isinstance(t, tuple) and t[0] == "isym" and c == -1 and f[2] == ">=":
                        out["minfam"][t] = s[2][1] if s[2][0] == "members" else s[2]
    return out


def _min_names(rels):
    mv = mf = None
    for t in rels["minfam"]:
        nm = t[1]
        txt = nm[1] if nm[0] == "c" else (nm[1][0] if nm[0] == "name" else "")
        if isinstance(txt, str) and txt.startswith("mv_"):
            mv = t
        if isinstance(txt, str) and txt.startswith("mf_"):
            mf = t
    return mv, mf


# ----------------------------------------------------------------------------------------------
def minima_encoding(rep, ex: Explorer):
    """C.relations: minima_encoding(m, S) ≡ ⋀_{s∈S} m ≤ s  ∧  ¬⋀_{s∈S} m < s."""
    qual = f"{MOD}.minima_encoding"
    site = fn_label(ex.prog, qual)
    S = ("members", ("sums",))

    def setup(I):
        b = I.fresh_var("s")
        lst = I.alloc(HList([("each", b, S, PTRUE, LinV(F.lin_term(("sum", b)), "term"))]))
        return [LinV(F.lin_term("m"), "term"), lst], {}

    paths = ex.run(qual, setup, summaries=dict(wrappers.SUMMARIES), key="minenc")
    n = 0
    for p in paths:
        if p.outcome[0] != "return":
            continue
        vw = view(p.state, p.outcome[1])
        n += 1
        ok_le = ok_att = False
        got = repr(vw)[:300]
        if isinstance(vw, tuple) and vw[0] == "list":
            from ..absvals import FormulaV

            parts = []
            for s in vw[1]:
                if s[0] == "each" and s[2] == S and s[3] == PTRUE and isinstance(s[4], FormulaV):
                    f = F.subst_any(s[4].f, {s[1]: ("var", "_s")})
                    parts.append("∀s: " + F.show(f))
                    want = F.rel(F.lin_term("m"), "<=", F.lin_term(("sum", ("var", "_s"))))
                    if f == want:
                        ok_le = True
                elif s[0] == "one" and isinstance(s[1], FormulaV):
                    f = s[1].f
                    parts.append(F.show(f))
                    if f[0] == "not":
                        g = f[1]
                        if g[0] == "and" and len(g[1]) == 1:
                            g = g[1][0]
                        if g[0] == "big" and g[1] == "and" and g[3] == S and g[4] == PTRUE:
                            body = F.subst_any(g[5], {g[2]: ("var", "_s")})
                            if body == F.rel(F.lin_term("m"), "<", F.lin_term(("sum", ("var", "_s")))):
                                ok_att = True
                    if f[0] == "or" and len(f[1]) == 1:
                        f = f[1][0]
                    if f[0] == "big" and f[1] == "or" and f[3] == S:
                        body = F.subst_any(f[5], {f[2]: ("var", "_s")})
                        if body == F.rel(F.lin_term("m"), ">=", F.lin_term(("sum", ("var", "_s")))):
                            ok_att = True
            got = " ; ".join(parts)
        rep.check(ok_le, "C.relations", site, "lower bound", "m ≤ s for every sum s", extracted=got, required="∀s∈S: m ≤ s", function=site)
        rep.check(ok_att, "C.relations", site, "attained", "m is attained: not every sum is strictly larger", extracted=got, required="¬∀s∈S: m < s", function=site)
    rep.floor("minima_encoding paths", n, 1)


def summation(rep, ex: Explorer):
    """C.relations on makeSummation: every correction set S of index i contributes exactly one summand Σ_{j∈S} η_j to the
    sums of index i (0 for the empty set), η named by the member's key."""
    qual = f"{MOD}.makeSummation"
    site = fn_label(ex.prog, qual)

    def setup(I):
        b = I.fresh_var("n")
        d = I.alloc(HDict(each=[("each", b, KEYS_D, PTRUE, ElemV(b, "key"), ElemV(("mins", b), "coll", "set", "key"))]))
        return [d], {}

    paths = ex.run(qual, setup, summaries=dict(wrappers.SUMMARIES), key="makesum")
    n = 0
    for p in paths:
        if p.outcome[0] != "return":
            continue
        d = p.state.heap.get(p.outcome[1].oid) if isinstance(p.outcome[1], Ref) else None
        ok_shape = isinstance(d, HDict) and not d.entries and not d.sym and len(d.each) == 1 and d.each[0][2] == KEYS_D and d.each[0][3] == PTRUE \
            and isinstance(d.each[0][4], ElemV) and d.each[0][4].var == d.each[0][1]
        rep.check(ok_shape, "C.relations", site, "sums per index", "every index of the minima gets its own list of sums, under the same index", extracted=repr(p.outcome[1])[:80], required="{i: [...] for i in minima}", function=site)
        if not ok_shape:
            continue
        ib = d.each[0][1]
        vw = view(p.state, d.each[0][5])
        segs = list(vw[1]) if isinstance(vw, tuple) and vw[0] == "list" else []
        n += 1
        for empty in (True, False):
            app = []
            for sg in segs:
                if sg[0] != "each" or sg[2] != ("members", ("mins", ib)):
                    app.append(("other", sg))
                    continue
                g = sg[3]
                sb = sg[1]
                if g == PTRUE or (g == ("empty", sb) and empty) or (g == ("not", ("empty", sb)) and not empty):
                    app.append(("sum", sb, sg[4]))
                elif g in (("empty", sb), ("not", ("empty", sb))):
                    continue
                else:
                    app.append(("other", sg))
            case = "empty correction set" if empty else "non-empty correction set"
            ok1 = len(app) == 1 and app[0][0] == "sum"
            rep.check(ok1, "C.relations", site, f"one summand per correction set ({case})", "every correction set contributes exactly one summand", extracted=f"{len(app)} item(s)", required="1", function=site)
            if not ok1:
                continue
            _, sb, val = app[0]
            want_sum = ((((("bigsum", ("var", "_s"), ("members", sb), PTRUE, (((("isym", ("name", ("eta_", ("elem", ("var", "_s"), "key")))), 1),), 0)), 1),), 0))
            if empty:
                okv = isinstance(val, LinV) and (val.lin == ((), 0) or val.lin == want_sum)
                rep.check(okv, "C.relations", site, "summand of the empty set", "the empty correction set costs 0", extracted=repr(val)[:120], required="0", function=site)
            else:
                okv = isinstance(val, LinV) and val.lin == want_sum
                rep.check(okv, "C.relations", site, "summand of a correction set", "a correction set S costs Σ_{j∈S} η_j, η named by the member's key", extracted=repr(val)[:160], required="Σ_{j∈S} eta_j", function=site)
    rep.floor("makeSummation paths", n, 1)


def encoding_relation(rep, ex: Explorer, cls=CI):
    """C.relations on CInference.encoding / translate: per conditional η_i − mv_i + mf_i > 0, η_i ≥ 0; and
    C.empty-minimum: the minimum over the falsifying sums is only encoded when that family is non-empty."""
    qual = f"{cls}.encoding"
    site = fn_label(ex.prog, qual)
    VS, FS = ("vsums",), ("fsums",)

    def sums(I, tag):
        b = I.fresh_var("n")
        fam = ElemV((tag, b), "coll", "plain")
        # vSums[i] / fSums[i]: a list of sums per key
        inner = I.fresh_var("s")
        return I.alloc(HDict(each=[("each", b, KEYS_D, PTRUE, ElemV(b, "key"), ElemV((tag, b), "coll", "term"))]))

    def setup(I):
        s, es = _mk(I, cls)
        b = I.fresh_var("n")
        etas = I.alloc(HDict(each=[("each", b, KEYS_D, PTRUE, ElemV(b, "key"), LinV(F.lin_term(("isym", ("eta", b))), "term"))]))
        return [s, etas, sums(I, "vsums"), sums(I, "fsums")], {}

    summ = dict(wrappers.SUMMARIES)

    def me_summary(I, fi, args, kwargs, node):
        I.log("minima_encoding", node, m=args[0], sums=args[1], sums_pred=I.pred_of(args[1]))
        return I.alloc(HList([("sym", ("minenc", desc(args[0]), desc(args[1])))]))

    summ[f"{MOD}.minima_encoding"] = me_summary
    paths = ex.run(qual, setup, summaries=summ, key="encoding")
    n_rel = n_me = 0
    for p in paths:
        if p.outcome[0] != "return":
            continue
        for lev, case in early_exits(p, KEYS_D):
            if case.sig[0] in ("break", "return"):
                g = " ∧ ".join(show_pred(k if v else ("not", k))[:60] for k, v in case.guard) or "always"
                rep.violation("C.relations", f"{site}:{lev.node.lineno}", "every conditional", "every conditional with a falsifying world gets its acceptance constraint: the loop over the conditionals runs to its end",
                              extracted=f"the loop is left by {case.sig[0]} at a conditional with {g}: the conditionals after it get no constraint", required="skip that conditional only (continue)", function=site)
        seen_rel = set()
        for ev, Q in iter_events(p.events):
            if ev.kind == "minima_encoding" and Q:
                loop_ev, case = Q[-1]
                evar = loop_ev.evar
                n_me += 1
                s = ev.sums
                is_f = isinstance(s, ElemV) and isinstance(s.var, tuple) and s.var[:1] == ("fsums",)
                is_v = isinstance(s, ElemV) and isinstance(s.var, tuple) and s.var[:1] == ("vsums",)
                where = f"{site}:{ev.node.lineno}"
                if is_f:
                    # guard: the path must have excluded emptiness of fSums[i]
                    g = dict(case.guard)
                    ne = g.get(("empty", s.var))
                    rep.check(ne is False, "C.empty-minimum", where, "falsifying minimum guarded", "the minimum over the falsifying sums is encoded only when some world falsifies the conditional (an empty minimum makes the constraint system unsatisfiable)",
                              extracted=f"emptiness of fSums[i] {'tested' if ne is not None else 'not tested'}", required="guarded by fSums[i] non-empty", function=site)
                    m = ev.m
                    okm = isinstance(m, LinV) and any(_name_prefix(t) == "mf_" for t, c in m.lin[0])
                    rep.check(okm, "C.minima-roles", where, "mf over falsifying sums", "mf_i is the minimum over the falsifying sums of conditional i", extracted=repr(m), required="mf_i", function=site)
                elif is_v:
                    m = ev.m
                    okm = isinstance(m, LinV) and any(_name_prefix(t) == "mv_" for t, c in m.lin[0])
                    rep.check(okm, "C.minima-roles", where, "mv over verifying sums", "mv_i is the minimum over the verifying sums of conditional i", extracted=repr(m), required="mv_i", function=site)
                ok_idx = isinstance(s, ElemV) and len(s.var) == 2 and s.var[1] == evar
                rep.check(ok_idx, "C.relations", where, "sums of the same conditional", "the minima of conditional i range over the sums of conditional i", extracted=repr(s), required="vSums[i] / fSums[i]", function=site)
            if ev.kind == "list.append" and Q:
                from ..absvals import FormulaV

                v = ev.value
                if isinstance(v, FormulaV) and v.f[0] == "rel":
                    loop_ev, case = Q[-1]
                    evar = loop_ev.evar
                    n_rel += 1
                    seen_rel.add(v.f)
                    terms = dict(v.f[1][0])
                    eta = ("isym", ("eta", evar))
                    mv = [t for t in terms if _name_prefix(t) == "mv_"]
                    mf = [t for t in terms if _name_prefix(t) == "mf_"]
                    ok = v.f[2] == ">" and v.f[1][1] == 0 and len(terms) == 3 and terms.get(eta) == 1 and len(mv) == 1 and len(mf) == 1 and terms[mv[0]] == -1 and terms[mf[0]] == 1
                    rep.check(ok, "C.relations", f"{site}:{ev.node.lineno}", "acceptance constraint", "η_i − mv_i + mf_i > 0 for every conditional",
                              extracted=F.show(v.f), required="η_i − mv_i + mf_i > 0", function=site)
                    if mv and mf:
                        same = _name_index(mv[0]) == _name_index(mf[0])
                        rep.check(same, "KEY.no-positional", f"{site}:{ev.node.lineno}", "mv/mf index", "mv and mf of one constraint carry the same index", extracted=f"{_name_index(mv[0])} / {_name_index(mf[0])}", required="equal", function=site)
        # the result: per conditional with a falsifying world both minimum encodings and the acceptance constraint
        rv = view(p.state, p.outcome[1])
        if isinstance(rv, tuple) and rv[0] == "list":
            from ..absvals import FormulaV

            have = set()
            stray = []
            for sg in rv[1]:
                if sg[0] in ("each", "each*") and sg[2] == KEYS_D and sg[3] == ("not", ("empty", ("fsums", sg[1]))):
                    it = sg[4]
                    if isinstance(it, tuple) and it[:1] == ("sym",) and it[1][0] == "minenc":
                        nm, fam = it[1][1], it[1][2]
                        have.add((_name_prefix(nm) if nm[0] == "isym" else "?", fam[1][0] if isinstance(fam, tuple) and len(fam) > 1 and isinstance(fam[1], tuple) else "?"))
                    elif isinstance(it, FormulaV):
                        have.add("rel")
                        if it.f[0] == "rel" and it.f not in seen_rel:
                            # the acceptance constraint put into the result without an append of its own (csp += [...]):
                            # the same obligations, read off the result
                            seen_rel.add(it.f)
                            evar = sg[1]
                            n_rel += 1
                            terms = dict(it.f[1][0])
                            eta = ("isym", ("eta", evar))
                            mv = [t for t in terms if _name_prefix(t) == "mv_"]
                            mf = [t for t in terms if _name_prefix(t) == "mf_"]
                            ok = it.f[2] == ">" and it.f[1][1] == 0 and len(terms) == 3 and terms.get(eta) == 1 and len(mv) == 1 and len(mf) == 1 and terms[mv[0]] == -1 and terms[mf[0]] == 1
                            rep.check(ok, "C.relations", site, "acceptance constraint", "η_i − mv_i + mf_i > 0 for every conditional",
                                      extracted=F.show(it.f), required="η_i − mv_i + mf_i > 0", function=site)
                            if mv and mf:
                                same = _name_index(mv[0]) == _name_index(mf[0])
                                rep.check(same, "KEY.no-positional", site, "mv/mf index", "mv and mf of one constraint carry the same index", extracted=f"{_name_index(mv[0])} / {_name_index(mf[0])}", required="equal", function=site)
                else:
                    stray.append(repr(sg)[:60])
            want = {("mv_", "vsums"), ("mf_", "fsums"), "rel"}
            rep.check(have == want and not stray, "C.relations", site, "result holds all three parts", "for a conditional with a falsifying world the result holds both minimum encodings and the acceptance constraint, and nothing else",
                      extracted=str(sorted(map(str, have))) + (f" + {stray}" if stray else ""), required=str(sorted(map(str, want))), function=site)
    rep.floor("acceptance constraints", n_rel, 1)
    rep.floor("minimum encodings in encoding()", n_me, 1)


def _name_prefix(t):
    if isinstance(t, tuple) and t and t[0] == "isym":
        nm = t[1]
        if nm[0] == "c" and isinstance(nm[1], str):
            return nm[1].split("_")[0] + "_"
        if nm[0] == "name" and nm[1] and isinstance(nm[1][0], str):
            return nm[1][0]
    return None


def _name_index(t):
    nm = t[1]
    if nm[0] == "name":
        return nm[1][1:]
    if nm[0] == "c":
        return nm[1].split("_", 1)[1:]
    return nm


# ----------------------------------------------------------------------------------------------
def preprocess_flow(rep, ex: Explorer, cls=CI):
    """C.preprocess-flow: what compile_constraint / translate / _inference read from the state is what preprocessing
    wrote: all three CNF families of the base, then the minima under the caller's deadline, then the constraint system
    of the base, kept in the epistemic state (the object that survives between calls)."""
    from .mcsops import summary_b2c

    qual = f"{cls}._preprocess_belief_base"
    site = fn_label(ex.prog, qual)

    def cc(I, fi, args, kwargs, node):
        I.log("cinf.compile", node, args=tuple(args[1:]), kwargs=dict(kwargs))
        return Const(None)

    def tr(I, fi, args, kwargs, node):
        I.log("cinf.translate", node, args=tuple(args[1:]))
        return I.alloc(HList([("sym", "BASECSP")]))

    summ = _summ()
    summ["inference.tseitin_transformation.TseitinTransformation.belief_base_to_cnf"] = summary_b2c
    summ[f"{cls}.compile_constraint"] = cc
    summ[f"{cls}.translate"] = tr

    def setup(I):
        s, es = _mk(I, cls)
        return [s, Sym("weakly", "bool"), Sym("deadline")], {}

    paths = ex.run(qual, setup, summaries=summ, key="cinf-pre")
    n = 0
    for p in paths:
        if p.outcome[0] != "return":
            continue
        n += 1
        evs = [ev for ev, Q in iter_events(p.events)]
        b2c = [i for i, e in enumerate(evs) if e.kind == "b2c"]
        comp = [i for i, e in enumerate(evs) if e.kind == "cinf.compile"]
        tra = [i for i, e in enumerate(evs) if e.kind == "cinf.translate"]
        okc = len(b2c) == 1 and len(evs[b2c[0]].args) >= 3 and all(isinstance(a, Const) and a.value is True for a in evs[b2c[0]].args[:3])
        rep.check(okc, "CNF.roles", site, "slots filled", "preprocessing fills the verification, falsification and non-falsification CNF slots that the compilation of the minima reads",
                  extracted=repr(evs[b2c[0]].args) if b2c else "no call", required="belief_base_to_cnf(True, True, True)", function=site)
        oko = len(comp) == 1 and len(tra) == 1 and bool(b2c) and b2c[0] < comp[0] < tra[0]
        rep.check(oko, "C.preprocess-flow", site, "order", "CNFs, then the minima, then the constraint system of the base (each step reads what the one before wrote)",
                  extracted=f"cnf at {b2c}, minima at {comp}, constraints at {tra}", required="cnf < minima < constraints, once each", function=site)
        es = None
        for oid, o in p.state.heap.items():
            if isinstance(o, HDict) and "vMin" in o.entries and "belief_base" in o.entries:
                es = o
        val = es.entries.get("base_csp") if es is not None else None
        vw = p.state.heap.get(val.oid) if isinstance(val, Ref) else None
        oks = isinstance(vw, HList) and vw.segs == [("sym", "BASECSP")]
        rep.check(oks, "C.preprocess-flow", site, "base constraints kept", "the constraint system of the base is stored in the epistemic state, where the answering step reads it",
                  extracted=repr(val)[:80], required="translate() in state['base_csp']", function=site)
    rep.floor("c-inference preprocessing paths", n, 1)
    return {"cinf_preprocess_paths": n}


# ----------------------------------------------------------------------------------------------
def answer(rep, ex: Explorer, cls=CI, state_rule=True):
    """C.relations (answer = ¬SAT(base ∪ query)), C.selffulfilling on `_inference`."""
    qual = f"{cls}._inference"
    site = fn_label(ex.prog, qual)
    BASE = ("members", "BASECSP")
    QC = ("members", "QUERYCSP")

    def caeq(I, fi, args, kwargs, node):
        I.log("caeq", node, args=tuple(args))
        return TupleV((I.alloc(HList([("sym", "QUERYCSP")])), Sym("time")))

    summ = _summ()
    summ[f"{cls}.compile_and_encode_query"] = caeq

    def setup(I):
        s, es = _mk(I, cls)
        base = I.alloc(HList([("sym", "BASECSP")]))
        I.deref(s).attrs["base_csp"] = base
        I.deref(es).entries["base_csp"] = base
        return [s, make_query(), Sym("weakly", "bool"), Sym("deadline")], {}

    paths = ex.run(qual, setup, summaries=summ, key="cinf", hooks=RC2_HOOKS)
    n = 0
    for p in paths:
        if p.outcome[0] != "return":
            continue
        n += 1
        sf = None
        sfkey = None
        for key, val in p.decisions:
            if key[0] == "exists" and key[2] == KEYS_D:
                sfkey, sf = key, val
        qs = {ev.qid: ev for ev, Q in iter_events(p.events) if ev.kind == "query"}
        if sfkey is not None:
            body = sfkey[4]
            okb = False
            if body[0] == "sat" and body[1] in qs:
                fr = qs[body[1]].frames
                f = fr[0][0][1] if fr and fr[0] and fr[0][0][0] == "f" else None
                okb = f is not None and F.equiv(F.subst_any(f, {sfkey[1]: ("var", "_c")}), falsification(("var", "_c")))
            rep.check(okb, "C.selffulfilling", site, "test", "the early exit tests whether some conditional of the base can be falsified at all", extracted=show_pred(sfkey)[:200], required="∃c: SAT(c.A∧¬c.B)", function=site)
        rv = p.outcome[1]
        if sf is False:
            rep.check(isinstance(rv, Const) and rv.value is False, "C.selffulfilling", site, "no conditional falsifiable", "if no conditional of the base can be falsified every ranking is a model: a non-trivial query is not entailed",
                      extracted=repr(rv), required="False", function=site)
            continue
        main = [ev for ev, Q in iter_events(p.events) if ev.kind == "query" and not Q and ev.how == "solve"]
        ok = len(main) == 1
        if ok:
            items = [i for fr in main[0].frames for i in fr]
            fams = {(i[2] if i[0] == "each" else None) for i in items}
            ok_items = fams == {BASE, QC}
            rep.check(ok_items, "C.relations", f"{site}:{main[0].node.lineno}", "constraint system", "the satisfiability test is asked over the base constraints together with the query constraints",
                      extracted=str(sorted(map(str, fams))), required="base CSP ∪ query CSP", function=site)
            pr = returned_bool(None, rv)
            d_sat = decided(p, ("sat", main[0].qid))
            if pr[0] == "const" and d_sat is not None:
                # the test was branched on and each branch returns a constant: the constant must be the negated verdict
                okp = bool(pr[1]) == (not d_sat)
                shown = f"{bool(pr[1])} when the test says {'satisfiable' if d_sat else 'unsatisfiable'}"
            else:
                okp = pr == ("not", ("sat", main[0].qid))
                shown = show_pred(pr)
            rep.check(okp, "C.relations", site, "answer polarity", "entailed exactly when base ∪ query constraints are unsatisfiable", extracted=shown, required="¬SAT", function=site)
        else:
            rep.violation("C.relations", site, "constraint system", "the answer is one satisfiability test of base ∪ query constraints", extracted=f"{len(main)} tests", required="1", function=site)
    rep.floor("c-inference answer paths", n, 2)


# ----------------------------------------------------------------------------------------------
def key_discipline(rep, ex: Explorer, cls=CI):
    """KEY.no-positional on c-inference: the η variables of `translate` must be named by the same index the sums of
    `makeSummation` use (the base keys), and the per-conditional dictionaries must be looked up with that index."""
    qual = f"{cls}.translate"
    site = fn_label(ex.prog, qual)

    def mins(I, tag):
        b = I.fresh_var("n")
        return I.alloc(HDict(each=[("each", b, KEYS_D, PTRUE, ElemV(b, "key"), ElemV((tag, b), "coll", "set", "key"))]))

    def setup(I):
        s, es = _mk(I, cls, lambda I: {"vMin": mins(I, "vmin"), "fMin": mins(I, "fmin")})
        return [s], {}

    paths = ex.run(qual, setup, summaries=_summ(), key="translate", hooks=RC2_HOOKS)
    n_fam = 0
    for p in paths:
        # (a) every lookup in a dictionary keyed by base keys uses a base key
        for ev, Q in iter_events(p.events):
            if ev.kind == "dict.get.unknown":
                key = ev.key
                keyed = any(isinstance(e[1], tuple) and e[1][:1] == ("elem",) and e[1][-1] == "key" for e in ev.each)
                if keyed and isinstance(key, LinV) and any(isinstance(t, tuple) and t[:1] == ("pos",) for t, c in key.lin[0]):
                    fn = ev.fn.split(":", 1)[1] if ":" in ev.fn else ev.fn
                    rep.violation("KEY.no-positional", f"{ev.fn.split(':')[0]}:{fn.split('.', 1)[-1]}:{ev.node.lineno}", "positional lookup in a key-indexed mapping",
                                  "a mapping filled per base key (vSums/fSums from vMin/fMin) is read with a running position", extracted=repr(key), required="the conditional's key",
                                  function=f"{ev.fn.split(':')[0]}:{fn.split('.', 1)[-1]}")
        # (b) name families: all sites of one family carry the same qualifier
        fams = {}
        for ev, Q in iter_events(p.events):
            pass
        if p.outcome[0] == "return":
            # C.relations: η_i ≥ 0 for every conditional (non-negative integer impacts)
            from ..absvals import FormulaV

            vw0 = view(p.state, p.outcome[1])
            nonneg = []
            if isinstance(vw0, tuple) and vw0[0] == "list":
                for sg in vw0[1]:
                    if sg[0] == "each" and sg[2] == KEYS_D and sg[3] == PTRUE and isinstance(sg[4], FormulaV) and sg[4].f[0] == "rel":
                        f = sg[4].f
                        terms = dict(f[1][0])
                        if len(terms) == 1 and all(_name_prefix(t) == "eta_" for t in terms):
                            nonneg.append(f)
            okn = any(f[2] == ">=" and f[1][1] == 0 and list(dict(f[1][0]).values()) == [1] for f in nonneg)
            rep.check(okn and len(nonneg) == 1, "C.relations", site, "non-negative impacts", "η_i ≥ 0 for every conditional", extracted="; ".join(F.show(f) for f in nonneg) or "none", required="η_i ≥ 0", function=site)
            quals = _name_qualifiers(view(p.state, p.outcome[1]))
            for prefix, qs in quals.items():
                n_fam += 1
                rep.check(len(qs) <= 1, "KEY.no-positional", site, f"name family {prefix}", f"all variables {prefix}<i> of the constraint system are named by one kind of index",
                          extracted=" vs ".join(sorted(qs)), required="one qualifier (the base key)", function=site)
    rep.floor("name families in translate", n_fam, 1)


def _name_qualifiers(x, acc=None):
    """Walk any nested value / formula structure and classify every symbolic variable name `prefix_{index}` by the
    provenance of its index: 'pos' (enumerate / range counter), 'key' (base key), 'lit' (literal)."""
    if acc is None:
        acc = {}
    from ..absvals import FormulaV

    def visit(t):
        if isinstance(t, FormulaV):
            visit(t.f)
        elif isinstance(t, LinV):
            visit(t.lin)
        elif isinstance(t, tuple):
            if len(t) == 2 and t[0] == "isym":
                nm = t[1]
                if nm[0] == "name" and len(nm[1]) >= 2 and isinstance(nm[1][0], str):
                    idx = nm[1][1]
                    acc.setdefault(nm[1][0], set()).add(_qualifier(idx))
                elif nm[0] == "c" and isinstance(nm[1], str) and "_" in nm[1]:
                    acc.setdefault(nm[1].split("_")[0] + "_", set()).add("lit")
                return
            for i in t:
                visit(i)
        elif isinstance(t, (list, frozenset)):
            for i in t:
                visit(i)

    visit(x)
    return acc


def _qualifier(idx):
    s = repr(idx)
    if "'pos'" in s or "'range'" in s:
        return "pos"
    if "'key'" in s:
        return "key"
    if isinstance(idx, tuple) and idx and idx[0] == "c":
        return "lit"
    return "other:" + s[:40]


def query_names(rep, ex: Explorer, cls=CI):
    """KEY.no-reserved on the query's minimum variables: with the mv_/mf_ family named by base keys, the query's own
    variables must carry an index that no base key can equal."""
    qual = f"{cls}.compile_and_encode_query"
    site = fn_label(ex.prog, qual)

    def setup(I):
        s, es = _mk(I, cls)
        return [s, make_query(), Sym("deadline")], {}

    paths = ex.run(qual, setup, summaries=_summ(), key="caeq", hooks=RC2_HOOKS)
    # how is the family keyed at its other sites?  (encoding: mv_{key})
    n = 0
    for p in paths:
        if p.outcome[0] != "return":
            continue
        rv = p.outcome[1]
        csp = rv.items[0] if isinstance(rv, TupleV) and rv.items else rv
        quals = _name_qualifiers(view(p.state, csp))
        for prefix in ("mv_", "mf_"):
            if prefix in quals or any(k.startswith(prefix[:2]) for k in quals):
                pass
        # computed names: an index that is an integer expression (a count, a position) can equal a key of the base
        quals = _name_qualifiers(view(p.state, csp))
        for prefix in ("mv_", "mf_"):
            for q in quals.get(prefix, ()):
                if q != "lit":
                    n += 1
                    rep.violation("KEY.no-reserved", site, f"query variable {prefix}<computed>", "the query's minimum variables cannot coincide with the variables mv_<key>/mf_<key> of a conditional (integer keys)",
                                  extracted=f"index computed at run time ({q})", required="a non-integer index", function=site)
        lits = _literal_names(view(p.state, csp))
        for nm in lits:
            if nm.startswith("mv_") or nm.startswith("mf_"):
                idx = nm.split("_", 1)[1]
                n += 1
                is_int = idx.lstrip("-").isdigit()
                rep.check(not is_int, "KEY.no-reserved", site, f"query variable {nm}", "the query's minimum variables cannot coincide with the variables mv_<key>/mf_<key> of a conditional (integer keys)",
                          extracted=nm, required="a non-integer index", function=site)
    rep.floor("query minimum variables", n, 1)


def _literal_names(x, acc=None):
    if acc is None:
        acc = set()
    from ..absvals import FormulaV

    def visit(t):
        if isinstance(t, FormulaV):
            visit(t.f)
        elif isinstance(t, LinV):
            visit(t.lin)
        elif isinstance(t, tuple):
            if len(t) == 2 and t[0] == "isym" and isinstance(t[1], tuple) and t[1][0] == "c" and isinstance(t[1][1], str):
                acc.add(t[1][1])
                return
            for i in t:
                visit(i)

    visit(x)
    return acc
