"""C15 (second half) and C14.D1: enumeration of minimal correction sets.

MCS.violated / MCS.block / MCS.minimal / MCS.loop on inference/optimizer.py (rc2)
Z3MCS.soft / Z3MCS.loop / Z3MCS.block and CHECK.three-way on get_all_xi_i (z3)
"""
from __future__ import annotations

from itertools import product

from .. import formula as F
from ..absint import iter_events, Interp
from ..absvals import Const, Sym, PredV, LinV, Ref, ElemV, HObj, HDict, HList, HWcnf, HSolver, PTRUE, desc, show_pred
from ..front import AnalysisError
from ..harness import (Explorer, make_belief_base, make_epistemic_state, make_query, A, B, QUERY, material, verification,
                       falsification, fn_label, decided, rc2_state, view, KEYS_D, canon_items, canon_item, flat, show_items,
                       P_value, PVAR, K, CONDZ3_CLASS, each_item, layer_fam)
from ..merge import case_guard
from . import wrappers
from .sysz import not_falsified

OP = "inference.optimizer.Optimizer"
RC2 = "inference.optimizer.OptimizerRC2"


def _mk(I, cls=OP, pmaxsat=None):
    bb = make_belief_base(I)
    st = rc2_state(I)
    es = make_epistemic_state(I, bb, "x", extra=st, pmaxsat=pmaxsat if pmaxsat is not None else Const("rc2"))
    return I.alloc(HObj(cls, {"epistemic_state": es})), es


def _guards(Q, p=None):
    g = {}
    for loop_ev, case in Q:
        for k, v in case.guard:
            g[k] = v
    if p is not None:
        for k, v in p.decisions:
            g.setdefault(k, v)
    return g


# ----------------------------------------------------------------------------------------------
def _violated_instances():
    """Concrete clause tables, models, ignore lists; the cost is what the solver reports for that model: the number of
    unsatisfied clauses among the owners that are not ignored (the soft clauses)."""
    tables = [
        {3: [[1, 2], [-1, 4]], 7: [[5]], 8: [[-5, 6], [2]]},
        {10: [[1]], 4: [[-1], [2, 3]], 6: [[-2, -3]], 9: []},
        {5: [[1, -2], [2, -1], [3]]},
        # clauses that several owners share: a conditional stated twice, a conditional whose CNF contains another one's
        # (every owner of an unsatisfied clause is violated, however often that clause occurs in the table)
        {1: [[-1, 2]], 2: [[-1, 2], [-1, 4]], 3: [[-5, 6]]},
        {2: [[1, 2]], 5: [[1, 2]], 6: [[3], [1, 2]]},
    ]
    from .. import depth
    if depth.thorough():
        tables += [{1: [[1], [2]], 2: [[2], [1]], 3: [[1], [2], [-3]]}, {4: [[-1, -2], [3]], 9: [[3], [-1, -2]], 11: [[3]]}]
    models = [[1, 2, 3, 4, 5, 6], [-1, -2, -3, -4, -5, -6], [1, -2, 3, -4, 5, -6], [-1, 2, -3, 4, -5, 6], [1, 2, -3, -4, -5, 6], [-1, -2, 3, 4, 5, -6]]
    for t in tables:
        keys = list(t)
        ignores = [[], keys[:1], keys[1:], keys[-1:]]
        for m in models:
            for ign in ignores:
                unsat = [(k, c) for k, cl in t.items() if k not in ign for c in cl if not any(x in c for x in m)]
                yield t, m, ign, len(unsat), {k for k, _ in unsat}


def violated(rep, ex: Explorer):
    """MCS.violated: the owners read off a model are exactly the conditionals outside the ignore list that have a
    non-falsification clause without a literal of the model.  Decided by evaluating `get_violated_conditional` on concrete
    clause tables, models and ignore lists, with the cost the solver reports for that model (the number of such clauses),
    however the scan is written and wherever it stops."""
    qual = f"{OP}.get_violated_conditional"
    site = fn_label(ex.prog, qual)
    n = 0
    first = {}
    fi = ex.prog.function(qual)
    init = ex.prog.lookup_method(OP, "__init__")
    insts = list(_violated_instances())
    for pos, (t, m, ign, cost, want) in enumerate(insts):
        # the object is one the constructor made, and it has answered another question before (another model, another
        # ignore list over the same clauses): what it may have kept from that must not show in this answer
        prev = next((q for q in insts[pos + 1:] + insts[:pos] if q[0] is t and q[2] != ign and q[3] > 0), None)

        def setup(I, t=t, m=m, ign=ign, cost=cost, prev=prev):
            s, es = _mk(I)
            nf = I.alloc(HDict(entries={k: I.alloc(HList([("one", I.new_list([Const(x) for x in c])) for c in cl])) for k, cl in t.items()}))
            I.deref(es).entries["nf_cnf_dict"] = nf
            if init is not None:
                I.deref(s).attrs.clear()
                I.call_function(init, [s, es], {}, None)
            if prev is not None:
                I.call_function(fi, [s, I.new_list([Const(x) for x in prev[1]]), Const(prev[3]), I.new_list([Const(x) for x in prev[2]])], {}, None, force_inline=True)
            return [s, I.new_list([Const(x) for x in m]), Const(cost), I.new_list([Const(x) for x in ign])], {}

        paths = ex.run(qual, setup, summaries=dict(wrappers.SUMMARIES), key=f"violated-{n}", unroll_while=12)
        n += 1
        slot = f"clauses {t}, model {m}, ignore {ign}, cost {cost}"
        if len(paths) != 1:
            raise AnalysisError(f"{site}: {len(paths)} paths on concrete data ({slot}): {[k for p in paths for k, v in p.decisions][:2]!r}"[:400])
        p = paths[0]
        got = None
        if p.outcome[0] == "return":
            rv = p.outcome[1]
            o = p.state.heap.get(rv.oid) if isinstance(rv, Ref) else None
            if isinstance(o, HList) and all(sg[0] == "one" and isinstance(sg[1], Const) for sg in o.segs):
                got = {sg[1].value for sg in o.segs}
            else:
                raise AnalysisError(f"{site}: the result on concrete data is not a collection of keys ({slot}): {view(p.state, rv)!r}"[:400])
        if got == want:
            continue
        if got is None:
            kind, text = "result", f"{p.outcome[0]} {p.outcome[1]!r}"[:120]
        elif got - want:
            extra = sorted(got - want)
            if any(k in ign for k in extra):
                kind, text = "ignored owners skipped", f"ignored owner(s) {[k for k in extra if k in ign]} reported"
            else:
                kind, text = "clause unsatisfied", f"owner(s) {extra} reported although every clause of theirs holds a literal of the model"
        else:
            kind, text = "every unsatisfied clause", f"owner(s) {sorted(want - got)} with an unsatisfied clause are not reported"
        first.setdefault(kind, f"{text} ({slot}: {sorted(got) if got is not None else got}, expected {sorted(want)})")
    descr = {"result": "the owners are handed back as a collection of keys",
             "ignored owners skipped": "owners listed in `ignore` are never reported",
             "clause unsatisfied": "a clause counts as violated iff no literal of the model occurs in it; the conditional recorded is the owner of that clause",
             "every unsatisfied clause": "every owner of an unsatisfied clause is reported: the scan stops early only when as many unsatisfied clauses were found as the optimum costs"}
    for kind, d in descr.items():
        rep.check(kind not in first, "MCS.violated", site, kind, d, extracted=first.get(kind, f"as required on {n} concrete instances")[:400], required="{c ∉ ignore : some nf clause of c has no literal of the model}", function=site)
    rep.floor("MCS.violated instances evaluated", n, 60)


def block(rep, ex: Explorer):
    """MCS.block: for found set S: clause ∨ ¬h_c for each nf clause of each c∈S, plus ⋁_{c∈S} h_c; clauses are copied,
    not mutated (CACHE.readonly)."""
    qual = f"{OP}.exclude_violated"
    site = fn_label(ex.prog, qual)
    S = ("violated",)

    def setup(I):
        s, es = _mk(I)
        return [s, ElemV(S, "set", "key")], {}

    paths = ex.run(qual, setup, summaries=dict(wrappers.SUMMARIES), key="block")
    n = 0
    for p in paths:
        if p.outcome[0] != "return":
            continue
        muts = [(ev, Q) for ev, Q in iter_events(p.events) if ev.kind == "elem.mutate"]
        for ev, Q in muts:
            where = f"{site}:{ev.node.lineno}"
            tgt = ev.obj
            is_copy = isinstance(tgt, ElemV) and isinstance(tgt.var, tuple) and tgt.var[:1] == ("copy",)
            rep.check(is_copy, "CACHE.readonly", where, "clause copied before extension", "the cached clause is copied, never extended in place", extracted=repr(tgt), required="a copy of the clause", function=site)
            if len(Q) >= 1 and ev.method == "append":
                outer = Q[0][0]
                hid = ("id", ("elem", outer.evar, "key"))
                a = ev.args[0] if ev.args else None
                ok = isinstance(a, ElemV) and a.var == ("neg", hid)
                n += 1
                rep.check(ok, "MCS.block", where, "relaxed clause", "each nf clause of a found conditional is relaxed with the NEGATED helper variable of that conditional",
                          extracted=repr(a), required="¬h_c", function=site)
        # relaxed clauses built as new lists (clause + [¬h], [*clause, ¬h]): read off the value itself
        ro = p.state.heap.get(p.outcome[1].oid) if isinstance(p.outcome[1], Ref) else None
        for sg in (ro.segs if isinstance(ro, HList) else []):
            if sg[0] == "each*" and sg[2] == ("members", S) and isinstance(sg[4], tuple) and sg[4][0] == "each" and isinstance(sg[4][4], Ref):
                owner, cl = sg[1], sg[4][1]
                built = p.state.heap.get(sg[4][4].oid)
                if isinstance(built, HList):
                    lits = [x for x in built.segs if x[0] == "each" and x[2] == ("members", cl) and x[3] == PTRUE and isinstance(x[4], ElemV) and x[4].var == x[1]]
                    extra = [x for x in built.segs if x not in lits]
                    n += 1
                    rep.check(len(lits) == 1 and built.segs and built.segs[0] in lits, "MCS.block", site, "relaxed clause keeps the clause", "a relaxed clause holds all literals of the nf clause", extracted=f"{len(lits)} copy of the clause's literals", required="the clause's literals", function=site)
                    okx = len(extra) == 1 and extra[0][0] == "one" and isinstance(extra[0][1], ElemV) and extra[0][1].var == ("neg", ("id", ("elem", owner, "key")))
                    rep.check(okx, "MCS.block", site, "relaxed clause", "each nf clause of a found conditional is relaxed with the NEGATED helper variable of that conditional",
                              extracted="; ".join(repr(x[1]) if x[0] == "one" else x[0] for x in extra)[:120] or "nothing added", required="¬h_c", function=site)
        vw = view(p.state, p.outcome[1])
        # helper clause: positive helper variables of all members
        helper_ok = relaxed_ok = False
        if isinstance(vw, tuple) and vw[0] == "list":
            for s in vw[1]:
                if s[0] == "one" and isinstance(s[1], tuple) and s[1][0] == "list":
                    inner = s[1][1]
                    if len(inner) == 1 and inner[0][0] == "each" and inner[0][2] == ("members", S) and inner[0][3] == PTRUE:
                        val = inner[0][4]
                        helper_ok = isinstance(val, ElemV) and val.var == ("id", ("elem", inner[0][1], "key"))
                if s[0] == "each*" and s[2] == ("members", S):
                    relaxed_ok = True
        rep.check(helper_ok, "MCS.block", site, "helper clause", "the blocking constraint ends with the clause ⋁_{c∈S} h_c over the POSITIVE helper variables", extracted="found" if helper_ok else repr(vw)[:200], required="[h_c for c in S]", function=site)
        rep.check(relaxed_ok, "MCS.block", site, "relaxed clauses emitted", "the relaxed clauses of every member of S are part of the blocking constraint", extracted="found" if relaxed_ok else "missing", required="for each c∈S, each nf clause", function=site)
    rep.floor("MCS.block relaxations", n, 1)


def minimal(rep, ex: Explorer):
    """MCS.minimal: remove_supersets keeps a iff no kept b with b⊆a, scanning by ascending size - decided by running
    the function on three abstract sets with ⊆ as an uninterpreted predicate."""
    qual = "inference.optimizer.remove_supersets"
    site = fn_label(ex.prog, qual)
    names = [("w", "s1"), ("w", "s2"), ("w", "s3")]
    I = Interp(ex.prog, summaries=dict(wrappers.SUMMARIES))

    def setup(I):
        lst = I.alloc(HList([("one", ElemV(n, "set", "key")) for n in names]))
        return [lst], {}

    paths = I.explore(qual, setup)
    if ex.report is not None:
        ex.report.absorb_stats(I)
    n = 0
    sorted_ok = None
    for p in paths:
        if p.outcome[0] != "return":
            continue
        for ev, Q in iter_events(p.events):
            if ev.kind == "sorted":
                k = ev.key
                rv = ev.reverse
                sorted_ok = (k is not None and getattr(k, "name", "") == "builtins.len") and (rv is None or (isinstance(rv, Const) and not rv.value))
            if ev.kind == "list.sort":
                kw = ev.kwargs
                k = kw.get("key")
                rv = kw.get("reverse")
                sorted_ok = (k is not None and getattr(k, "name", "") == "builtins.len") and (rv is None or (isinstance(rv, Const) and not rv.value))
        sub = {}
        for key, val in p.decisions:
            if key[0] == "subset":
                sub[(key[1], key[2])] = val
            elif key[0] == "loopexit":
                continue
            else:
                raise AnalysisError(f"{site}: result depends on {key!r}")
        vw = view(p.state, p.outcome[1])
        got = []
        if isinstance(vw, tuple) and vw[0] == "list":
            for s in vw[1]:
                if s[0] == "one":
                    x = s[1]
                    if isinstance(x, tuple) and x[0] == "list" and len(x[1]) == 1 and x[1][0][0] == "each":
                        got.append(x[1][0][2][1])  # list(s): each over members(s)
                    elif isinstance(x, ElemV):
                        got.append(x.var)
        # specification under every completion of the undecided ⊆ facts
        pairs = [(a, b) for a in names for b in names if a != b]
        free = [pr for pr in pairs if pr not in sub]
        bad = None
        for bits in product((True, False), repeat=len(free)):
            s2 = dict(sub)
            s2.update(zip(free, bits))
            kept = []
            for a in names:
                if not any(s2[(b, a)] for b in kept):
                    kept.append(a)
            if kept != got:
                bad = (s2, kept)
                break
        n += 1
        rep.check(bad is None, "MCS.minimal", site, "kept sets: " + ",".join(x[1] for x in got), "a set is kept iff no kept set before it (in ascending size) is a subset of it",
                  extracted=",".join(x[1] for x in got) + (f" but {','.join(x[1] for x in bad[1])} for " + " ".join(f"{a[1]}⊆{b[1]}" for (a, b), v in bad[0].items() if v) if bad else ""),
                  required="inclusion-minimal members", function=site)
    rep.check(sorted_ok is True, "MCS.minimal", site, "scan order", "the sets are scanned by ascending size", extracted=str(sorted_ok), required="sorted by len, ascending", function=site)
    rep.floor("MCS.minimal paths", n, 4)


def loop(rep, ex: Explorer, rules=None):
    rep.only = set(rules) if rules else None
    try:
        return _loop(rep, ex)
    finally:
        rep.only = None


def _loop(rep, ex: Explorer):
    """MCS.loop: no model ⇒ stop; model with empty violated set ⇒ record, stop; else record, block, continue; the
    result is the inclusion-minimal members; the deadline is polled before every solver call."""
    qual = f"{RC2}.minimal_correction_subsets"
    site = fn_label(ex.prog, qual)

    def viol_summary(I, fi, args, kwargs, node):
        cid = I.fresh_id("viol")
        I.log("viol", node, cid=cid, args=tuple(args))
        return ElemV(("violset", cid), "set", "key")

    def excl_summary(I, fi, args, kwargs, node):
        I.log("excl", node, args=tuple(args))
        return ElemV(("blocking", desc(args[1])), "coll", "clause")

    def rs_summary(I, fi, args, kwargs, node):
        I.log("remove_supersets", node, arg=args[0], argview=view(I.state, args[0]))
        return Sym(("minimal", "xMins"))

    summ = dict(wrappers.SUMMARIES)
    summ[f"{OP}.get_violated_conditional"] = viol_summary
    summ[f"{OP}.exclude_violated"] = excl_summary
    summ["inference.optimizer.remove_supersets"] = rs_summary
    # a method that only hands its arguments on to a function of the module (the object replaced by its state): the loop may
    # call that function directly - it is the same step
    import ast as _ast

    for mname, h in (("get_violated_conditional", viol_summary), ("exclude_violated", excl_summary)):
        mfi = ex.prog.lookup_method(OP, mname)
        body = [st for st in (mfi.node.body if mfi else []) if not (isinstance(st, _ast.Expr) and isinstance(st.value, _ast.Constant))]
        if len(body) == 1 and isinstance(body[0], _ast.Return) and isinstance(body[0].value, _ast.Call) and isinstance(body[0].value.func, _ast.Name):
            tgt = ex.prog.resolve_name(mfi.module, body[0].value.func.id)
            if tgt in ex.prog.functions and len(body[0].value.args) + len(body[0].value.keywords) == len(mfi.node.args.args):
                summ[tgt] = h

    def setup(I):
        s, es = _mk(I, RC2, pmaxsat=Sym(("pmaxsat_solver",), "str"))
        w = I.alloc(HWcnf(hard=[("sym", "H")], soft=[("sym", "S")]))
        kw = {"ignore": ElemV(("ignore",), "coll", "key"), "deadline": Sym("deadline")}
        # any further parameter is whatever a caller may pass: the enumeration must be complete for every value of it
        fi_ = ex.prog.function(qual)
        for a_ in (fi_.node.args.posonlyargs + fi_.node.args.args)[4:] + fi_.node.args.kwonlyargs:
            kw[a_.arg] = Sym(("parameter", a_.arg), "bool")
        return [s, w], kw

    paths = ex.run(qual, setup, summaries=summ, key="mcsloop")
    n = 0
    # (is the step that reads the falsified set off a model seen on any path at all?  If not, the loop obtains it in a way this
    #  rule has no summary for and cannot judge the loop's tests)
    step_seen = any(ev.kind == "viol" for p_ in paths for ev, Q in iter_events(p_.events))
    for p in paths:
        evs = [ev for ev, Q in iter_events(p.events)]
        expired = None
        none_model = None
        viol_empty = None
        for key, val in p.decisions:
            if key[0] == "truthy" and isinstance(key[1], tuple) and key[1][:3] == ("mcall", "deadline", "expired"):
                expired = val
            elif key[0] == "isnone" and isinstance(key[1], tuple) and key[1][:1] == ("rc2model",):
                none_model = val
            elif key[0] == "empty" and isinstance(key[1], tuple) and key[1][:1] == ("violset",):
                viol_empty = val
        computes = [e for e in evs if e.kind == "rc2.compute"]
        if p.outcome[0] == "raise":
            exc = p.outcome[1]
            ok = exc.cls == "TimeoutError" and expired is True and decided(p, ("truthy", "deadline")) is True and not computes
            rep.check(ok, "TIMEOUT.guarded-raise", site, "expiry", "TimeoutError is raised exactly when a deadline exists and is expired, before the solver is called again",
                      extracted=f"{exc.cls}, expired={expired}, solver calls before={len(computes)}", required="TimeoutError under deadline ∧ expired", function=site)
            continue
        if expired is True:
            # an observed expiry must leave through TimeoutError: only that is turned into a flagged row by the wrappers; a
            # (partial) family of correction sets handed back would be consumed as if it were complete
            rep.violation("TIMEOUT.guarded-raise", site, "expiry", "an expired deadline observed in the enumeration ends it with TimeoutError",
                          extracted=f"deadline expired, outcome {p.outcome[0]} (the sets found so far are returned)", required="raise TimeoutError", function=site)
            continue
        n += 1
        news = [e for e in evs if e.kind == "rc2.new"]
        if not news and not computes and p.outcome[0] == "return":
            # a family handed back without the solver ever having looked at the hard clauses (they may be unsatisfiable: then
            # there is no correction set at all, not even the empty one)
            rv_ = view(p.state, p.outcome[1])
            empty_ = isinstance(rv_, tuple) and rv_[0] == "list" and not rv_[1]
            rep.check(False, "MCS.loop", site, "result without a solver call", "every family of correction sets that is returned was found by the MaxSAT solver on the given hard clauses",
                      extracted=f"returns {'[]' if empty_ else repr(rv_)[:80]} without creating a solver", required="a solver call on the WCNF first", function=site)
            continue
        if news:
            e = news[0]
            okw = isinstance(e.wcnf, Ref) and e.snap[2] == (("sym", "H"),) and e.snap[3] == (("sym", "S"),)
            rep.check(okw, "MCS.loop", f"{site}:{e.node.lineno}", "solver input", "the MaxSAT solver is created on the WCNF that was handed in", extracted=repr(e.snap[2:]), required="the argument", function=site)
        appends = [e for e in evs if e.kind == "list.append" and isinstance(e.value, ElemV) and isinstance(e.value.var, tuple) and e.value.var[:1] == ("violset",)]
        adds = [e for e in evs if e.kind == "rc2.add_clause"]
        back = p.outcome[0] == "loopback"
        if none_model is True:
            rep.check(not back and not appends and not adds, "MCS.loop", site, "no model", "no further model ⇒ the enumeration stops", extracted=f"loop back={back}, recorded={len(appends)}", required="stop, nothing recorded", function=site)
        elif none_model is False and viol_empty is True:
            rep.check(not back and len(appends) == 1 and not adds, "MCS.loop", site, "empty correction set", "a model that falsifies nothing is recorded (the empty set) and ends the enumeration",
                      extracted=f"loop back={back}, recorded={len(appends)}, blocked={len(adds)}", required="record ∅, stop", function=site)
        elif none_model is False and viol_empty is None and computes:
            others = [(k, v) for k, v in p.decisions if not (k[0] == "truthy" and isinstance(k[1], tuple) and k[1][:1] == ("mcall",)) and k[0] not in ("isnone", "truthy", "loopexit")]
            if others and not step_seen:
                raise AnalysisError(f"{site}: the enumeration does not obtain the falsified set through a step this rule knows (get_violated_conditional or what it delegates to)")
            if others:
                rep.violation("MCS.loop", site, "termination test", "after a model was found the enumeration stops exactly when it falsifies nothing; every other found set is recorded, blocked and the search goes on",
                              extracted="stops / continues on " + "; ".join(show_pred(k if v else ("not", k))[:120] for k, v in others), required="found set == ∅", function=site)
        elif none_model is False and viol_empty is False:
            okb = False
            for e in adds:
                okb = True
            rep.check(back and len(appends) == 1 and okb, "MCS.loop", site, "non-empty correction set", "a found set is recorded, blocked and the enumeration continues",
                      extracted=f"loop back={back}, recorded={len(appends)}, blocked={bool(adds)}", required="record, block, continue", function=site)
            # the blocking clauses are those of exclude_violated(found set)
            ex_ev = [e for e in evs if e.kind == "excl"]
            vi_ev = [e for e in evs if e.kind == "viol"]
            ok2 = bool(ex_ev) and bool(vi_ev) and isinstance(ex_ev[0].args[1], ElemV) and ex_ev[0].args[1].var == ("violset", vi_ev[0].cid)
            rep.check(ok2, "MCS.block", site, "blocked set", "the blocking constraint is built from the set just found", extracted=repr(ex_ev[0].args[1:]) if ex_ev else "none", required="exclude_violated(found set)", function=site)
            if vi_ev:
                a = vi_ev[0].args
                ign_ok = len(a) >= 4 and isinstance(a[3], ElemV) and a[3].var == ("ignore",)
                if len(a) >= 4 and isinstance(a[3], Ref) and isinstance(p.state.heap.get(a[3].oid), HList):
                    # a collection made of the ignore list (a copy, a set of it): the same members
                    sg_ = p.state.heap[a[3].oid].segs
                    ign_ok = len(sg_) == 1 and ((sg_[0][0] == "sym" and sg_[0][1] == ("ignore",)) or (sg_[0][0] == "each" and sg_[0][2] == ("members", ("ignore",)) and sg_[0][3] == PTRUE and isinstance(sg_[0][4], ElemV) and sg_[0][4].var == sg_[0][1]))
                ok3 = len(a) >= 4 and isinstance(a[1], ElemV) and a[1].var[:1] == ("rc2model",) and ign_ok
                rep.check(ok3, "MCS.violated", site, "arguments", "the violated owners are read off the model just computed, skipping the ignore list", extracted=repr(a[1:]), required="(model, cost, ignore)", function=site)
        if not back and p.outcome[0] == "return":
            rs = [e for e in evs if e.kind == "remove_supersets"]
            rv = p.outcome[1]
            ok = bool(rs) and isinstance(rv, Sym) and rv.label == ("minimal", "xMins")
            rep.check(ok, "MCS.minimal", site, "result", "the result is the inclusion-minimal members of the recorded sets", extracted=repr(rv), required="remove_supersets(recorded sets)", function=site)
        # deadline polled before each solver call
        if computes and decided(p, ("truthy", "deadline")) is True:
            rep.check(expired is False, "TIMEOUT.guarded-raise", site, "poll before solving", "the deadline is polled before the solver is called", extracted=f"expired={expired}", required="checked", function=site)
    # the same entry on a WCNF without soft clauses and with nothing ignored (a base nobody can falsify): the hard clauses may
    # still be unsatisfiable, so also here every returned family comes out of a solver call
    def setup_nosoft(I):
        s, es = _mk(I, RC2, pmaxsat=Sym(("pmaxsat_solver",), "str"))
        w = I.alloc(HWcnf(hard=[("sym", "H")], soft=[]))
        kw = {"ignore": I.alloc(HList()), "deadline": Const(None)}
        fi_ = ex.prog.function(qual)
        for a_ in (fi_.node.args.posonlyargs + fi_.node.args.args)[4:] + fi_.node.args.kwonlyargs:
            kw[a_.arg] = Sym(("parameter", a_.arg), "bool")
        return [s, w], kw

    m = 0
    for p in ex.run(qual, setup_nosoft, summaries=summ, key="mcsloop-nosoft"):
        evs = [ev for ev, Q in iter_events(p.events)]
        if p.outcome[0] != "return":
            continue
        m += 1
        called = any(e.kind in ("rc2.new", "rc2.compute") for e in evs)
        rv_ = view(p.state, p.outcome[1])
        rep.check(called, "MCS.loop", site, "no soft clauses, nothing ignored", "every family of correction sets that is returned was found by the MaxSAT solver on the given hard clauses (they may be unsatisfiable: then there is no correction set at all, not even the empty one)",
                  extracted=(f"returns {repr(rv_)[:80]} without a solver call" if not called else "solver consulted"), required="a solver call on the WCNF first", function=site)
    rep.floor("MCS.loop paths", n, 3)


# ----------------------------------------------------------------------------------------------
def z3mcs(rep, ex: Explorer, cls: str, prop_three_way=True):
    """Z3MCS.soft / loop / block and CHECK.three-way on <cls>.get_all_xi_i."""
    qual = f"{cls}.get_all_xi_i"
    site = fn_label(ex.prog, qual)
    L = ("at", PVAR, ("lin", K))

    def setup(I):
        bb = make_belief_base(I)
        es = make_epistemic_state(I, bb, "x", extra={"partition": P_value("cond", CONDZ3_CLASS)})
        s = I.alloc(HObj(cls, {"epistemic_state": es}))
        o = I.alloc(HSolver("z3.Optimize", frames=[[("sym", "H")]]))
        return [s, o, ElemV(L, "layer", "cond", CONDZ3_CLASS)], {}

    paths = ex.run(qual, setup, summaries=dict(wrappers.SUMMARIES), key="z3mcs")
    n = 0
    for p in paths:
        evs = [(ev, Q) for ev, Q in iter_events(p.events)]
        enter = [ev for ev, Q in evs if ev.kind == "while.enter"]
        if not enter:
            raise AnalysisError(f"{site}: no enumeration loop found")
        entry = enter[0].entry
        opt_names = [nm for nm, sn in entry.items() if sn[0] == "solver"]
        # ---- Z3MCS.soft
        for nm in opt_names:
            soft = flat(entry[nm][4])
            want = [("each", ("var", "_s"), ("members", L), PTRUE, ("soft", ("f", not_falsified(("var", "_s"))), ("c", 1), None))]
            ok = canon_items(soft) == canon_items(want)
            rep.check(ok, "Z3MCS.soft", site, "soft items", "soft = ¬falsification(c), weight 1, for every c of the layer", extracted=show_items(soft), required=show_items(want), function=site)
        chk = None
        for key, val in p.decisions:
            if key[0] == "check":
                chk = val
        models = [ev for ev, Q in evs if ev.kind == "solver.model"]
        n += 1
        # ---- CHECK.three-way
        if chk is not None:
            if chk == "sat":
                pass
            elif chk == "unsat":
                rep.check(not models and p.outcome[0] == "return", "Z3MCS.loop", site, "unsat", "no further optimum ⇒ the enumeration returns what it found", extracted=f"{p.outcome[0]}, model reads={len(models)}", required="return", function=site)
            else:
                flagged = p.outcome[0] == "raise" and p.outcome[1].cls == "TimeoutError"
                rep.check(not models and flagged, "CHECK.three-way", site, "unknown", "when the optimizer gives up (`unknown`, e.g. budget exhausted) no model is read and the expiry is flagged",
                          extracted=f"outcome {p.outcome[0]}{'' if p.outcome[0] != 'raise' else ' ' + p.outcome[1].cls}, model reads={len(models)}", required="raise TimeoutError, no model()", function=site)
                continue
        if chk == "sat":
            rep.check(len(models) == 1, "CHECK.three-way", site, "sat", "a model is read only after the check answered sat", extracted=f"{len(models)} read(s)", required="1", function=site)
            # found set = {c in layer | model makes falsification(c) true}
            found_empty = None
            found_desc = None
            for key, val in p.decisions:
                if key[0] == "empty" and isinstance(key[1], tuple) and key[1][:1] == ("list",):
                    segs = key[1][1]
                    if len(segs) == 1 and segs[0][0] == "each" and segs[0][2] == ("members", L):
                        g = F.subst_any(segs[0][3], {segs[0][1]: ("var", "_x")})
                        okg = g[0] == "modeltrue" and len(g) >= 3 and g[2][0] == "f" and F.equiv(g[2][1], falsification(("var", "_x")))
                        rep.check(okg, "Z3MCS.loop", site, "found set", "the found set consists of the layer's conditionals whose falsification the model makes true",
                                  extracted=show_pred(g), required="model ⊨ c.A∧¬c.B", function=site)
                        found_empty = val
            back = p.outcome[0] == "loopback"
            appended = [ev for ev, Q in evs if ev.kind == "list.append" and not Q]
            if found_empty is None:
                # the loop is steered by something else than "the found set is empty"
                others = [(k, v) for k, v in p.decisions if k[0] not in ("check", "partfalse")]
                if others:
                    rep.violation("Z3MCS.loop", site, "termination test", "after recording a found set the enumeration stops exactly when that set is empty (nothing more can be falsified less); every other set is blocked and the search goes on",
                                  extracted="stops / continues on " + "; ".join(show_pred(k if v else ("not", k))[:120] for k, v in others), required="found set == ∅", function=site)
                continue
            if found_empty is True:
                rep.check(not back and len(appended) == 1, "Z3MCS.loop", site, "empty set", "the empty set is recorded and ends the enumeration", extracted=f"loop back={back}, recorded={len(appended)}", required="record, stop", function=site)
            elif found_empty is False:
                asserts = [ev for ev, Q in evs if ev.kind == "solver.assert" and not Q]
                okb = False
                got = "none"
                for ev in asserts:
                    it = ev.item
                    if it[0] == "f":
                        f = it[1]
                        if f[0] == "or" and len(f[1]) == 1:
                            f = f[1][0]
                        got = F.show(f)
                        if f[0] == "big" and f[1] == "or" and f[3] == ("members", L):
                            gb = F.subst_any(f[4], {f[2]: ("var", "_x")})
                            body = F.subst_any(f[5], {f[2]: ("var", "_x")})
                            okb = gb[0] == "modeltrue" and F.equiv(body, not_falsified(("var", "_x")))
                rep.check(back and len(appended) == 1 and okb, "Z3MCS.block", site, "blocking constraint", "a found set S is recorded and blocked by ⋁_{c∈S} ¬falsification(c); the enumeration continues",
                          extracted=f"loop back={back}, recorded={len(appended)}, constraint {got}", required="⋁_{c∈S} ¬(c.A∧¬c.B)", function=site)
    rep.floor(f"Z3MCS paths of {cls.rsplit('.', 1)[1]}", n, 4)


def budgeted_checks(rep, ex: Explorer, be):
    """CHECK.three-way outside the enumeration: every check() of a z3.Optimize (it carries the remaining budget as its
    timeout, so it may answer `unknown`) in the operator's `_inference` and `_rec_inference`: on the path where it answers
    `unknown` nothing is returned - the expiry is raised.  (A plain z3.Solver has no timeout; its checks are two-valued.)"""
    from . import mcsops

    n = 0
    groups = []
    site_e, paths_e = mcsops.entry_paths(None, ex, be)
    groups.append((site_e, paths_e))
    qual = f"{be.cls}._rec_inference"
    groups.append((fn_label(ex.prog, qual), ex.run(qual, be.rec_setup(), summaries=be.summaries(), key=f"wrec-{be.name}", hooks=be.hooks())))
    for site, paths in groups:
        seen = set()
        for p in paths:
            api = {}
            line = {}
            for ev, Q in iter_events(p.events):
                if ev.kind == "query":
                    api[ev.data.get("qid")] = ev.data.get("api")
                    line[ev.data.get("qid")] = getattr(ev.node, "lineno", "?")
            for key, val in p.decisions:
                if key[0] != "check" or api.get(key[1]) != "z3.Optimize":
                    continue
                n += 1
                if val != "unknown":
                    continue
                flagged = p.outcome[0] == "raise" and p.outcome[1].cls == "TimeoutError"
                where = f"{site}:{line.get(key[1])}"
                if (where, flagged) in seen:
                    continue
                seen.add((where, flagged))
                rep.check(flagged, "CHECK.three-way", where, "unknown outside the enumeration", "an optimizer that gives up (`unknown`: its timeout is the remaining budget) is not read as an answer: the expiry is raised",
                          extracted=f"outcome {p.outcome[0]} {p.outcome[1]!r}"[:120], required="raise TimeoutError", function=site)
    return n


def shared_defaults(rep, ex: Explorer, modules=("inference.optimizer", "inference.tseitin_transformation")):
    """MCS.loop [defaults]: a parameter whose default is a mutable literal (`ignore=[]`) is one object shared by every call
    that omits the argument.  Reading it is harmless; a function that changes it in place (`+=`, append / extend / add /
    update / item store ...) leaves the change for every later call, on any optimizer and any base."""
    import ast as _ast

    n = 0
    MUT = ("append", "extend", "insert", "add", "update", "remove", "discard", "pop", "clear", "sort", "setdefault", "popitem")
    for q, fi in sorted(ex.prog.functions.items()):
        if fi.module not in modules:
            continue
        a = fi.node.args
        params = a.posonlyargs + a.args
        defaults = dict(zip([p_.arg for p_ in params[len(params) - len(a.defaults):]], a.defaults))
        defaults.update({p_.arg: d for p_, d in zip(a.kwonlyargs, a.kw_defaults) if d is not None})
        for name, d in defaults.items():
            mutable = isinstance(d, (_ast.List, _ast.Dict, _ast.Set)) or (isinstance(d, _ast.Call) and isinstance(d.func, _ast.Name) and d.func.id in ("list", "dict", "set"))
            if not mutable:
                continue
            n += 1
            site = fn_label(ex.prog, q)
            rebinds = [x for x in _ast.walk(fi.node) if isinstance(x, _ast.Assign) and any(isinstance(t, _ast.Name) and t.id == name for t in x.targets)]
            rebound = bool(rebinds)
            hit = None
            for x in _ast.walk(fi.node):
                if isinstance(x, _ast.AugAssign) and isinstance(x.target, _ast.Name) and x.target.id == name:
                    hit = (x.lineno, f"{name} {type(x.op).__name__}= ...")
                elif isinstance(x, _ast.Call) and isinstance(x.func, _ast.Attribute) and isinstance(x.func.value, _ast.Name) and x.func.value.id == name and x.func.attr in MUT:
                    hit = (x.lineno, f"{name}.{x.func.attr}(...)")
                elif isinstance(x, _ast.Subscript) and isinstance(x.ctx, (_ast.Store, _ast.Del)) and isinstance(x.value, _ast.Name) and x.value.id == name:
                    hit = (x.lineno, f"{name}[...] = ...")
                if hit:
                    break
            if hit and rebound and all(not (isinstance(x.value, _ast.Name) and x.value.id == name) for x in rebinds) and min(x.lineno for x in rebinds) < hit[0] \
                    and not any(isinstance(a_, (_ast.If, _ast.For, _ast.While, _ast.Try)) and any(x in _ast.walk(a_) for x in rebinds) for a_ in fi.node.body):
                hit = None  # the name is bound to a new object (a copy) at the top level of the function before it is changed
            if hit and rebound:
                raise AnalysisError(f"{site}: the parameter {name} (mutable default) is both rebound and changed in place")
            rep.check(hit is None, "MCS.loop", f"{site}:{hit[0]}" if hit else site, f"default of {name}", "the shared default object of a parameter is never changed in place (what one call adds is there for every later call that omits the argument)",
                      extracted=f"{hit[1]} on the parameter whose default is the literal {_ast.unparse(d)}" if hit else "read only", required="copy before changing", function=site)
    return n
