"""Rules on the shared wrappers of inference/inference.py and inference/inference_manager.py:

SHORTCUT.guard, SHORTCUT.dominance, DISPATCH, REFUSE, PREPROC.once, TIMEOUT.flow/row/guarded-raise,
ROWS.key, PAR.key, PAR.join, BACKEND.dispatch
"""
from __future__ import annotations

import ast

from .. import formula as F
from ..absint import iter_events
from ..absvals import Const, Sym, PredV, LinV, Ref, TupleV, ElemV, HDict, HObj, HList, PTRUE, desc, show_pred
from ..front import AnalysisError
from ..harness import (Explorer, make_belief_base, make_epistemic_state, make_query, summary_consistency, delegate,
                       falsification, verification, A, B, QUERY, sat_literals, fn_label, decided, returned_bool,
                       KEYS_D, view)

INF = "inference.inference.Inference"
OPERATOR_HOOKS = ("_inference", "_preprocess_belief_base")
WRAPPER_METHODS = ("general_inference", "inference", "single_inference", "multi_inference", "_multi_inference_worker",
                   "preprocess_belief_base")

SUMMARIES = {
    f"{INF}._inference": delegate("_inference", raises=("TimeoutError", "ValueError")),
    f"{INF}._preprocess_belief_base": delegate("_preprocess_belief_base", raises=("TimeoutError", "ValueError")),
    "inference.consistency_sat.consistency": summary_consistency("cond"),
    "inference.consistency_sat.consistency_indices": summary_consistency("key"),
}


def _self(I, extra=None):
    bb = make_belief_base(I)
    es = make_epistemic_state(I, bb, "system-z", extra=extra)
    return I.alloc(HObj(INF, {"epistemic_state": es})), es, bb


def _queries(I):
    b = I.fresh_var("qq")
    return I.alloc(HDict(each=[("each", b, ("members", ("keys", "Q")), PTRUE, ElemV(b, "key"), ElemV(b, "cond"))]))


# ----------------------------------------------------------------------------------------------
def shortcut_guard(rep, ex: Explorer):
    """general_inference returns True before calling _inference exactly under UNSAT(Q.A ∧ ¬Q.B); otherwise it
    returns what _inference(query, weakly, deadline) returns - whether the mode is left to the state (weakly omitted) or
    given by the caller."""
    total = 0
    for mode in (None, True, False):
        total += _shortcut_guard(rep, ex, mode)
    return total


def _shortcut_guard(rep, ex: Explorer, mode):
    qual = f"{INF}.general_inference"
    site = fn_label(ex.prog, qual)

    def setup(I):
        s, es, bb = _self(I)
        kw = {"deadline": Sym("deadline")}
        if mode is not None:
            kw["weakly"] = Const(mode)
        return [s, make_query()], kw

    paths = ex.run(qual, setup, summaries=SUMMARIES, key=f"shortcut-{mode}")
    if mode is None:
        # the short cut runs once per query on an operator object that answers the whole batch: a solver kept on it (or in
        # the state) carries whatever an early return left asserted into the next query
        kept_solver_clean(rep, site, paths)
    true_guards, n_del = [], 0
    # first pass: answers other than True that are given without the operator (positive evidence on their own)
    flagged = False
    for p in paths:
        if p.outcome[0] != "return":
            continue
        if not any(ev.kind == "delegate" for ev, Q in iter_events(p.events)) and not (isinstance(p.outcome[1], Const) and p.outcome[1].value is True):
            lits0, other0 = sat_literals(p)
            other0 = [(k, v) for k, v in other0 if k[0] != "delegate-outcome"]
            rep.violation("SHORTCUT.guard", site, "shortcut answer", "a path that does not consult the operator returns something other than True",
                          extracted=repr(p.outcome[1]) + (" under " + "; ".join(show_pred(k if v else ("not", k))[:100] for k, v in other0) if other0 else ""), required="True", function=site)
            flagged = True
    if flagged:
        return len(paths)
    mode_branch = False
    for p in paths:
        lits, other = sat_literals(p)
        other = [(k, v) for k, v in other if k[0] != "delegate-outcome"]
        if mode is None and any(k == ("truthy", "weakly") for k, v in other):
            mode_branch = True
            continue  # (a branch on the mode itself: each mode is judged by its own run, with the flag a constant)
        g = ("and", tuple(lits))
        dele = [ev for ev, Q in iter_events(p.events) if ev.kind == "delegate"]
        if p.outcome[0] == "raise":
            continue  # exception propagated from the operator
        rv = p.outcome[1]
        if not dele and not (isinstance(rv, Const) and rv.value is True):
            # positive evidence whatever else the path tested: an answer other than True is given without the operator
            rep.violation("SHORTCUT.guard", site, "shortcut answer", "a path that does not consult the operator returns something other than True",
                          extracted=repr(rv) + (" under " + "; ".join(show_pred(k if v else ("not", k))[:100] for k, v in other) if other else ""), required="True", function=site)
            continue
        if other:
            raise AnalysisError(f"{site}: shortcut depends on an unknown predicate {other[0][0]!r}")
        if dele:
            n_del += 1
            d = dele[0]
            ok = isinstance(rv, Sym) and rv.label[:1] == ("delegated",) and rv.label[2] == d.cid
            rep.check(ok, "SHORTCUT.guard", site, "delegation result", "non-trivial queries return the operator's own answer",
                      extracted=repr(rv), required="value of _inference(query, weakly, deadline)", function=site)
            args = d.args
            ok = len(args) >= 4 and isinstance(args[1], ElemV) and args[1].var == QUERY and args[3] == Sym("deadline") and \
                (returned_bool(None, args[2]) == ("truthy", "weakly") if mode is None else args[2] == Const(mode))
            rep.check(ok, "SHORTCUT.guard", site, "delegation arguments", "operator receives the query, the state's mode flag and the deadline",
                      extracted=repr(args[1:]), required="(query, state.weakly, deadline)" if mode is None else f"(query, {mode}, deadline)", function=site)
            # the operator is reached only when the shortcut does not apply
            okg, wit = F.guard_equiv(g, ("and", (g, ("sat", falsification(QUERY)))))
            rep.check(okg, "SHORTCUT.guard", site, "delegation guard", "operator is called only when A∧¬B is satisfiable",
                      extracted=F.show_guard(g), required="⊆ SAT(A∧¬B)", function=site)
        else:
            if isinstance(rv, Const) and rv.value is True:
                true_guards.append(g)
            else:
                rep.violation("SHORTCUT.guard", site, "shortcut answer", "a path that does not consult the operator returns something other than True",
                              extracted=repr(rv), required="True", function=site)
    if mode_branch:
        return len(paths)
    got = ("or", tuple(true_guards)) if true_guards else ("const", False)
    want = ("not", ("sat", falsification(QUERY)))
    okg, wit = F.guard_equiv(got, want)
    rep.check(okg, "SHORTCUT.guard", site, "shortcut guard", "True without consulting the operator exactly when A∧¬B is unsatisfiable (⊇ A unsatisfiable)",
              extracted=F.show_guard(got) + (f" differs on {wit}" if wit else ""), required=F.show_guard(want), function=site)
    if n_del == 0:
        rep.violation("SHORTCUT.guard", site, "delegation", "the operator is never consulted", extracted="no call of _inference", required="call on SAT(A∧¬B)", function=site)
    return len(paths)


# ----------------------------------------------------------------------------------------------
def operator_classes(prog):
    return sorted(c for c in prog.subclasses(INF))


def shortcut_dominance(rep, ex: Explorer):
    """Who-may-call: `_inference` is called only by general_inference, `_preprocess_belief_base` only by
    preprocess_belief_base; no operator overrides a wrapper."""
    prog = ex.prog
    n_sites = 0
    # (who calls general_inference is free: the guard is inside it)
    allowed = {"_inference": {f"{INF}.general_inference"}, "_preprocess_belief_base": {f"{INF}.preprocess_belief_base"}}
    rules = {"_inference": "SHORTCUT.dominance", "_preprocess_belief_base": "REFUSE"}
    for fi in prog.functions.values():
        for n in ast.walk(fi.node):
            if isinstance(n, ast.Call) and isinstance(n.func, ast.Attribute) and n.func.attr in allowed:
                n_sites += 1
                ok = fi.qualname in allowed[n.func.attr]
                rep.check(ok, rules[n.func.attr], f"{fi.path}:{fi.qualname[len(fi.module) + 1:]}:{n.lineno}", f"caller of {n.func.attr}",
                          f"{n.func.attr} is called from {fi.qualname.rsplit('.', 1)[1]}", extracted=fi.qualname,
                          required=" | ".join(sorted(allowed[n.func.attr])), function=f"{fi.path}:{fi.qualname[len(fi.module) + 1:]}")
            # indirect use: the hook passed as a value (target=self._inference, getattr(self, '_inference'))
            elif isinstance(n, ast.Attribute) and n.attr in ("_inference", "_preprocess_belief_base") and not isinstance(getattr(n, "ctx", None), ast.Store):
                pass
    # attribute loads of the hooks that are not the callee of a call (passed around as values)
    for fi in prog.functions.values():
        callees = {id(n.func) for n in ast.walk(fi.node) if isinstance(n, ast.Call)}
        for n in ast.walk(fi.node):
            if isinstance(n, ast.Attribute) and n.attr in OPERATOR_HOOKS and id(n) not in callees:
                rep.violation("SHORTCUT.dominance", f"{fi.path}:{fi.qualname[len(fi.module) + 1:]}:{n.lineno}", f"escaping reference to {n.attr}",
                              "operator hook used as a value (bypasses the shared wrapper)", extracted=ast.unparse(n), required="called only through the wrapper",
                              function=f"{fi.path}:{fi.qualname[len(fi.module) + 1:]}")
    ops = operator_classes(prog)
    for c in ops:
        ci = prog.classes[c]
        for m in WRAPPER_METHODS:
            ok = m not in ci.methods
            rep.check(ok, "SHORTCUT.dominance" if m != "preprocess_belief_base" else "REFUSE", f"{ci.module.replace('.', '/')}.py:{c.rsplit('.', 1)[1]}", f"override of {m}",
                      f"operator class does not override the shared wrapper {m}", extracted="overridden" if not ok else "inherited", required="inherited",
                      function=f"{ci.module.replace('.', '/')}.py:{c.rsplit('.', 1)[1]}.{m}")
    rep.floor("call sites of operator hooks", n_sites, 2)
    rep.floor("operator classes", len(ops), 7)
    return ops


# ----------------------------------------------------------------------------------------------
def dispatch(rep, ex: Explorer, report=True):
    """The string -> class table of create_inference_instance."""
    qual = "inference.inference_manager.create_inference_instance"
    site = fn_label(ex.prog, qual)

    # decided by evaluating the factory on every operator name the manager documents (and a name it does not know) with
    # a z3 and two non-z3 back-end names: the table is what it returns, however the selection is written
    table = {}
    names = ("p-entailment", "system-z", "system-w", "c-inference", "lex_inf", "no-such-operator")
    for name in names:
        per_backend = {}
        for backend in ("z3", "rc2", "rc2-g4", ""):
          for done in (False, True):
            held_es = {}

            def setup(I, name=name, backend=backend, held_es=held_es, done=done):
                bb = make_belief_base(I)
                es = make_epistemic_state(I, bb, name, pmaxsat=Const(backend), extra={"preprocessing_done": Const(done)})
                held_es["es"] = es
                return [es], {}

            paths = ex.run(qual, setup, summaries={}, key=f"dispatch-{name}-{backend}-{done}")
            for p in paths:
                rv_ = p.outcome[1] if p.outcome[0] == "return" else None
                if rv_ is not None and not isinstance(rv_, Ref):
                    # not an object made here: e.g. one kept in module-level state under a key that does not name this state
                    why = "; ".join(show_pred(k if v else ("not", k))[:80] for k, v in p.decisions if k[0] == "in")
                    rep.violation("DISPATCH", site, f"operator object of {name} (preprocessing_done={done})", "every call builds an operator object over the state it is given (an object kept elsewhere belongs to whatever state it was built for)",
                                  extracted=f"returns {rv_!r}"[:120] + (f" when {why}" if why else ""), required="a new operator over this state", function=site)
            paths = [p for p in paths if not (p.outcome[0] == "return" and not isinstance(p.outcome[1], Ref))]
            if not paths:
                continue
            outs = set()
            for p in paths:
                if p.outcome[0] == "return" and isinstance(p.outcome[1], Ref):
                    o = p.state.heap[p.outcome[1].oid]
                    outs.add(o.cls if isinstance(o, HObj) else None)
                    if isinstance(o, HObj) and held_es.get("es") is not None:
                        got_es = o.attrs.get("epistemic_state")
                        same = isinstance(got_es, Ref) and got_es.oid == held_es["es"].oid
                        rep.check(same, "DISPATCH", site, f"state of {name}", "the operator works on the caller's epistemic state itself (what preprocessing records there - flags, times, partition - is what the manager reads afterwards)",
                                  extracted="a copy / another object" if not same else "the state handed in", required="the state handed in", function=site)
                elif p.outcome[0] == "raise":
                    outs.add("raise")
                else:
                    outs.add(repr(p.outcome))
            if len(outs) != 1:
                # (several paths with one and the same result differ in something else, e.g. whether a log record is written)
                raise AnalysisError(f"{site}: the class selected for operator {name!r} and back-end {backend!r} depends on {[k for p in paths for k, v in p.decisions][:2]!r}")
            per_backend[backend] = outs.pop()
        key_name = None if name == "no-such-operator" else name
        non_z3 = {per_backend[b_] for b_ in ("rc2", "rc2-g4", "")}
        if len(non_z3) == 1 and per_backend["z3"] in non_z3:
            table[(key_name, None)] = per_backend["z3"]
        elif len(non_z3) == 1:
            table[(key_name, True)] = per_backend["z3"]
            table[(key_name, False)] = non_z3.pop()
        else:
            table[(key_name, True)] = per_backend["z3"]
            for b_ in ("rc2", "rc2-g4", ""):
                table[(key_name, f"back-end {b_!r}")] = per_backend[b_]
    want = {
        ("p-entailment", None): "PEntailment", ("system-z", None): "SystemZ",
        ("system-w", True): "SystemWZ3", ("system-w", False): "SystemW",
        ("c-inference", None): "CInference", ("lex_inf", True): "LexInfZ3", ("lex_inf", False): "LexInf",
        (None, None): "raise",
    }
    result = {}
    for key, w in want.items():
        got = table.get(key)
        short = got.rsplit(".", 1)[-1] if isinstance(got, str) else got
        slot = f"{key[0]}{'' if key[1] is None else (' z3' if key[1] else ' rc2*')}"
        if w == "raise":
            ok = got == "raise"
        elif got is None or got == "raise" or got not in ex.prog.classes:
            ok = False
        elif short == w:
            ok = True
        else:
            # a different class name: a violation when the class that implements this operator still exists (it is
            # simply not selected); after a rename the dispatched class is judged by the obligations it discharges
            ok = not any(c.rsplit(".", 1)[-1] == w for c in ex.prog.classes)
        if report:
            rep.check(ok, "DISPATCH", site, slot, f"{key[0]} / back-end {'z3' if key[1] else ('any' if key[1] is None else 'not z3')} -> {short}",
                      extracted=str(short), required=w, function=site)
        result[key] = got if ok else None
    extra = set(table) - set(want)
    if extra and report:
        for k in extra:
            rep.violation("DISPATCH", site, f"{k}", "unexpected dispatch row", extracted=str(table[k]), required="no such row", function=site)
    if report:
        rep.floor("dispatch rows", len(table), 8)
    return result


# ----------------------------------------------------------------------------------------------
def refuse(rep, ex: Explorer, rules=None):
    rep.only = set(rules) if rules else None
    try:
        return _refuse(rep, ex)
    finally:
        rep.only = None


def _refuse(rep, ex: Explorer):
    """REFUSE / PREPROC.once / TIMEOUT.preproc on Inference.preprocess_belief_base."""
    qual = f"{INF}.preprocess_belief_base"
    site = fn_label(ex.prog, qual)

    def setup(I):
        s, es, bb = _self(I, extra={"preprocessing_done": Sym("done", "bool")})
        return [s, Sym("pt", "int")], {}

    paths = ex.run(qual, setup, summaries=SUMMARIES, key="refuse")
    n_del = 0
    for p in paths:
        evs = [ev for ev, Q in iter_events(p.events)]
        dele = [e for e in evs if e.kind == "delegate"]
        sets = [e for e in evs if e.kind == "dict.set" and isinstance(e.key, Const)]
        done = decided(p, ("truthy", "done"))
        if done is True:
            ok = not dele and not sets
            rep.check(ok, "PREPROC.once", site, "skip branch", "already preprocessed: no work and no state change",
                      extracted=f"{len(dele)} hook calls, {len(sets)} state writes", required="none", function=site)
            continue
        if not dele:
            # refused (or failed) before the operator-specific work
            rep.check(p.outcome[0] == "raise", "REFUSE", site, "refusal outcome", "a base that is not preprocessed and not handed to the operator is refused with an error",
                      extracted=repr(p.outcome[:2]), required="raise", function=site)
            continue
        n_del += 1
        idx = evs.index(dele[0])
        before = evs[:idx]
        asserts = [e for e in before if e.kind == "assert"]
        cons = [e for e in before if e.kind == "summary.consistency"]
        # (1) emptiness refusal passed
        ok = any(e.pred == ("not", ("empty", ("keys", "D"))) and decided(p, e.pred[1]) is False for e in asserts)
        rep.check(ok, "REFUSE", site, "emptiness refusal", "operator-specific preprocessing is reached only after the non-empty check",
                  extracted="; ".join(show_pred(e.pred) for e in asserts) or "no check", required="assert not empty(base) before _preprocess_belief_base", function=site)
        # (2) consistency refusal passed, with the mode flag of the state
        ok2 = False
        det = "no consistency test"
        for c in cons:
            pvar = ("part", c.pid)
            same_bb = c.bbdesc[1] == () and len(c.bbdesc[2]) == 1 and c.bbdesc[2][0][0] == KEYS_D
            flag = returned_bool(None, c.weakly) == ("truthy", "weakly")
            passed = any(e.pred == ("not", ("partfalse", pvar)) for e in asserts) and decided(p, ("partfalse", pvar)) is False
            det = f"consistency(base={'state base' if same_bb else 'other'}, weakly={c.weakly!r}), refusal {'passed' if passed else 'missing'}"
            if same_bb and flag and passed:
                ok2 = True
        rep.check(ok2, "REFUSE", site, "consistency refusal", "operator-specific preprocessing is reached only after the consistency check in the selected mode",
                  extracted=det, required="assert consistency(state base, state mode) is not False before _preprocess_belief_base", function=site)
        # (3) hook arguments
        a = dele[0].args
        ok3 = len(a) >= 3 and returned_bool(None, a[1]) == ("truthy", "weakly")
        rep.check(ok3, "REFUSE", site, "hook mode argument", "the operator preprocesses in the mode recorded in the state", extracted=repr(a[1:]), required="state.weakly", function=site)
        # (4) PREPROC.once: done flag only after normal return
        outcome = decided(p, ("delegate-outcome", dele[0].cid))
        for k, v in p.decisions:
            if k[0] == "delegate-outcome":
                outcome = v
        done_sets = [e for e in sets if e.key.value == "preprocessing_done"]
        set_true = [e for e in done_sets if isinstance(e.value, Const) and e.value.value is True]
        pos_ok = all(evs.index(e) > idx for e in set_true)
        if outcome == "ok":
            rep.check(bool(set_true) and pos_ok, "PREPROC.once", site, "done flag after success", "preprocessing_done is set after the operator's preprocessing returned",
                      extracted=f"{len(set_true)} write(s), after hook: {pos_ok}", required="set True after the hook returned", function=site)
        else:
            rep.check(not set_true, "PREPROC.once", site, f"done flag on {outcome}", "preprocessing_done stays unset when preprocessing did not finish",
                      extracted=f"{len(set_true)} write(s)", required="no write", function=site)
            if outcome == "TimeoutError":
                to = [e for e in sets if e.key.value == "preprocessing_timed_out" and isinstance(e.value, Const) and e.value.value is True]
                rep.check(bool(to) and p.outcome[0] == "return", "TIMEOUT.row", site, "preprocessing expiry flagged",
                          "an expiry during preprocessing is reported through preprocessing_timed_out, not by an exception",
                          extracted=f"outcome {p.outcome[0]}, flag writes {len(to)}", required="flag set, normal return", function=site)
            else:
                rep.check(p.outcome[0] == "raise", "TIMEOUT.flow", site, "other errors propagate", "errors other than expiry are not swallowed by the preprocessing wrapper",
                          extracted=repr(p.outcome[:2]), required="raise", function=site)
    rep.floor("paths reaching _preprocess_belief_base", n_del, 3)


def refuse_manager(rep, ex: Explorer, rules=None):
    rep.only = set(rules) if rules else None
    try:
        return _refuse_manager(rep, ex)
    finally:
        rep.only = None


def _refuse_manager(rep, ex: Explorer):
    """InferenceManager.inference calls the wrapper before inference on every path; Inference.inference refuses
    when neither done nor timed out."""
    qual = f"{INF}.inference"
    site = fn_label(ex.prog, qual)

    qref = {}

    def setup(I):
        s, es, bb = _self(I, extra={"preprocessing_done": Sym("done", "bool"), "preprocessing_timed_out": Sym("pto", "bool")})
        qref["q"] = _queries(I)
        return [s, qref["q"], Sym("timeout", "int"), Sym("multi", "bool")], {}

    summ = dict(SUMMARIES)
    summ[f"{INF}.single_inference"] = delegate("single_inference", raises=())
    summ[f"{INF}.multi_inference"] = delegate("multi_inference", raises=())
    paths = ex.run(qual, setup, summaries=summ, key="inference")
    n = 0
    for p in paths:
        done, pto = decided(p, ("truthy", "done")), decided(p, ("truthy", "pto"))
        dele = [ev for ev, Q in iter_events(p.events) if ev.kind == "delegate"]
        for ev in dele:
            # both evaluation wrappers get (the submitted queries, the per-query budget), each in its own role
            tfi = ex.prog.functions.get(f"{INF}.{ev.func}")
            params = [a.arg for a in tfi.node.args.args] if tfi is not None else []
            b_ = {params[i]: v for i, v in enumerate(ev.args) if i < len(params)}
            b_.update(ev.kwargs)
            qv, tv = b_.get("queries"), b_.get("timeout")
            okq = isinstance(qv, Ref) and qv == qref.get("q") and tv == Sym("timeout", "int")
            rep.check(okq, "ROWS.key", f"{site}:{ev.node.lineno}", f"arguments of {ev.func}", "the submitted queries and the per-query budget are handed to the evaluation wrapper in their own roles",
                      extracted=f"queries={qv!r}, timeout={tv!r}", required="(queries, timeout)", function=site)
        if p.outcome[0] == "raise" and dele and getattr(p.outcome[1], "cls", "") in ("ZeroDivisionError", "KeyError", "IndexError", "TypeError", "AttributeError", "ValueError", "UnboundLocalError", "NameError") \
                and not (isinstance(getattr(p.outcome[1], "origin", None), tuple) and p.outcome[1].origin[:1] == ("delegate",)):
            # the queries were evaluated and the call still ends in an exception of its own bookkeeping (a statistic over the
            # rows, a log record): the rows - flagged ones included - never reach the caller
            rep.violation("TIMEOUT.row", site, "escaping exception", "once the queries are evaluated the rows are handed back whatever they hold (all answered, all expired, none at all)",
                          extracted=f"{p.outcome[1]!r} from {getattr(p.outcome[1], 'origin', None)!r}"[:160], required="the rows", function=site)
        if done is False and pto is False:
            n += 1
            rep.check(p.outcome[0] == "raise" and not dele, "REFUSE", site, "not preprocessed", "queries are refused when the base was never preprocessed",
                      extracted=f"{p.outcome[0]}, {len(dele)} evaluation call(s)", required="raise before evaluating", function=site)
        if pto is True:
            rep.check(not dele and p.outcome[0] == "return", "TIMEOUT.row", site, "after preprocessing expiry", "no query is evaluated on a base whose preprocessing expired",
                      extracted=f"{p.outcome[0]}, {len(dele)} evaluation call(s)", required="rows without evaluation", function=site)
        elif p.outcome[0] == "return" and not dele:
            # rows made up without asking the operator are unflagged answers nobody computed
            why = "; ".join(show_pred(k if v else ("not", k))[:70] for k, v in p.decisions if k not in (("truthy", "done"), ("truthy", "pto")))
            rep.violation("TIMEOUT.row", site, "rows without evaluation", "queries are reported without being evaluated only when preprocessing expired (the rows then carry the preprocessing flag)",
                          extracted=f"returns rows without calling an evaluation wrapper although preprocessing did not expire ({why or 'unconditionally'})", required="evaluate the queries", function=site)
    rep.floor("refusal paths of Inference.inference", n, 1)
    # manager: preprocess_belief_base precedes inference on every path (decided on the paths of the manager's row rule)
    saved = rep.only
    rep.only = {"REFUSE"} if (saved is None or "REFUSE" in saved) else set()
    try:
        _manager_rows(rep, ex, {})
    finally:
        rep.only = saved


# ----------------------------------------------------------------------------------------------
def timeout_flow(rep, ex: Explorer):
    """No handler between the raise sites and the wrappers catches TimeoutError without re-raising; the raise is
    guarded by the deadline."""
    prog = ex.prog
    wrappers = {f"{INF}.single_inference", f"{INF}._multi_inference_worker", f"{INF}.preprocess_belief_base"}
    catches = ("TimeoutError", "OSError", "Exception", "BaseException", "IOError", "EnvironmentError")
    # which functions may let a TimeoutError out (by simple callee name, an over-approximation): those that raise it
    # themselves and, transitively, those that call one of them outside a handler that stops it
    funcs = [fi for fi in prog.functions.values() if fi.module.startswith("inference")]

    def called_names(node):
        out = set()
        for c in ast.walk(node):
            if isinstance(c, ast.Call):
                f = c.func
                out.add(f.attr if isinstance(f, ast.Attribute) else (f.id if isinstance(f, ast.Name) else ""))
        return out

    may = {fi.node.name for fi in funcs if any(isinstance(n, ast.Raise) and n.exc is not None and "TimeoutError" in ast.unparse(n.exc) for n in ast.walk(fi.node))}
    classes_of = {}
    for fi in funcs:
        if fi.node.name == "__init__" and "." in fi.qualname:
            classes_of.setdefault(fi.qualname.rsplit(".", 2)[-2], fi)
    changed = True
    while changed:
        changed = False
        for fi in funcs:
            if fi.node.name in may:
                continue
            if called_names(fi.node) & may:
                may.add(fi.node.name)
                changed = True
    # helpers of the wrappers: functions all of whose call sites (by name) are inside a wrapper or another such helper; a
    # handler that turns an expiry into a flagged row may live there (what it stores is decided by TIMEOUT.row on the
    # wrappers' paths, which run through the helper)
    callers = {}
    for fi in funcs:
        for nm in called_names(fi.node):
            callers.setdefault(nm, set()).add(fi.qualname)
    helpers = set(wrappers)
    grew = True
    while grew:
        grew = False
        for fi in funcs:
            if fi.qualname in helpers:
                continue
            cs = callers.get(fi.node.name, set())
            if cs and cs <= helpers:
                helpers.add(fi.qualname)
                grew = True
    n_handlers = 0
    for fi in funcs:
        for t in ast.walk(fi.node):
            if not isinstance(t, ast.Try):
                continue
            body_calls = set()
            for st in t.body:
                body_calls |= called_names(st)
            reaches = bool(body_calls & may) or any(isinstance(n, ast.Raise) and n.exc is not None and "TimeoutError" in ast.unparse(n.exc) for st in t.body for n in ast.walk(st))
            for n in t.handlers:
                types = []
                if n.type is None:
                    types = ["BaseException"]
                else:
                    for ty in (n.type.elts if isinstance(n.type, ast.Tuple) else [n.type]):
                        types.append(ast.unparse(ty).rsplit(".", 1)[-1])
                if not any(ty in catches for ty in types):
                    continue
                where = f"{fi.path}:{fi.qualname[len(fi.module) + 1:]}:{n.lineno}"
                if not reaches:
                    continue  # nothing under this handler can raise an expiry
                n_handlers += 1
                reraises = _always_raises(n.body)
                if fi.qualname in helpers and "TimeoutError" in types:
                    rep.ok("TIMEOUT.flow", where, "wrapper handler", "the wrapper converts an expiry into a flagged row" + ("" if fi.qualname in wrappers else " (in a helper called only from the wrappers)"))
                    continue
                rep.check(reraises, "TIMEOUT.flow", where, f"handler for {'/'.join(types)}", "a handler that can catch an expiry re-raises it",
                          extracted="re-raises" if reraises else "swallows", required="re-raise", function=f"{fi.path}:{fi.qualname[len(fi.module) + 1:]}")
    rep.floor("handlers able to catch TimeoutError", n_handlers, 3)
    # a `return` (or a `break` / `continue` that leaves the block) inside a `finally` discards whatever exception is in flight,
    # an expiry included, without any handler being involved
    n_fin = 0
    for fi in funcs:
        for t in ast.walk(fi.node):
            if not isinstance(t, ast.Try) or not t.finalbody:
                continue
            n_fin += 1
            inner_calls = set()
            for st in t.body + [x for h in t.handlers for x in h.body] + t.orelse:
                inner_calls |= called_names(st)
            reaches = bool(inner_calls & may) or any(isinstance(n, ast.Raise) and n.exc is not None and "TimeoutError" in ast.unparse(n.exc) for st in t.body for n in ast.walk(st))

            def leaves(stmts, in_loop=False):
                for st in stmts:
                    if isinstance(st, ast.Return):
                        return st
                    if isinstance(st, (ast.Break, ast.Continue)) and not in_loop:
                        return st
                    if isinstance(st, (ast.FunctionDef, ast.AsyncFunctionDef, ast.ClassDef)):
                        continue
                    for fld in ("body", "orelse", "finalbody"):
                        sub = getattr(st, fld, None)
                        if isinstance(sub, list):
                            r = leaves(sub, in_loop or (isinstance(st, (ast.For, ast.While)) and fld == "body"))
                            if r is not None:
                                return r
                    for h in getattr(st, "handlers", []):
                        r = leaves(h.body, in_loop)
                        if r is not None:
                            return r
                return None

            bad = leaves(t.finalbody) if reaches else None
            where = f"{fi.path}:{fi.qualname[len(fi.module) + 1:]}:{t.lineno}"
            rep.check(bad is None, "TIMEOUT.flow", where, "finally block", "a finally block under which an expiry can be raised lets it pass (no return / break / continue that discards the exception in flight)",
                      extracted=(f"`{ast.unparse(bad)[:60]}` at line {bad.lineno} inside the finally block" if bad is not None else "falls through"), required="falls through",
                      function=f"{fi.path}:{fi.qualname[len(fi.module) + 1:]}")
    # the converting handlers are total: everything they read from the state exists for every operator (a KeyError
    # raised inside the handler - also inside the arguments of a logging call - would escape instead of the flagged row)
    cfi = prog.functions.get("inference.inference_manager.create_epistemic_state")
    base_keys = set()
    if cfi is not None:
        for n in ast.walk(cfi.node):
            if isinstance(n, ast.Subscript) and isinstance(n.ctx, ast.Store) and isinstance(n.slice, ast.Constant) and isinstance(n.slice.value, str):
                base_keys.add(n.slice.value)
            if isinstance(n, ast.Dict):
                base_keys |= {k.value for k in n.keys if isinstance(k, ast.Constant) and isinstance(k.value, str)}
    if not base_keys:
        raise AnalysisError("create_epistemic_state: no state keys found")

    def aliases_of(fnode):
        """local names bound to the state (state = self.epistemic_state)"""
        out = set()
        for n in ast.walk(fnode):
            if isinstance(n, ast.Assign) and len(n.targets) == 1 and isinstance(n.targets[0], ast.Name) and isinstance(n.value, (ast.Attribute, ast.Name)) and "epistemic_state" in ast.unparse(n.value):
                out.add(n.targets[0].id)
        return out

    def is_state(expr, aliases):
        if isinstance(expr, ast.Subscript):
            return False
        return "epistemic_state" in ast.unparse(expr) or (isinstance(expr, ast.Name) and expr.id in aliases)

    def state_reads(node, aliases):
        out = []
        for n in ast.walk(node):
            if isinstance(n, ast.Subscript) and isinstance(n.ctx, ast.Load) and isinstance(n.slice, ast.Constant) and isinstance(n.slice.value, str) and is_state(n.value, aliases):
                out.append(n)
        return out

    def state_writes(fnode, aliases):
        return {n.slice.value for n in ast.walk(fnode) if isinstance(n, ast.Subscript) and isinstance(n.ctx, ast.Store) and isinstance(n.slice, ast.Constant) and isinstance(n.slice.value, str) and is_state(n.value, aliases)}

    by_name = {}
    for fi in funcs:
        by_name.setdefault(fi.node.name, []).append(fi)

    def handler_reads(fi, stmts, depth=0):
        """(function, read node, keys written in that function) for the statements of a converting handler, following the
        helpers it calls (what they read is read inside the handler as well)"""
        al = aliases_of(fi.node)
        wr = state_writes(fi.node, al)
        out = []
        for st in stmts:
            for r in state_reads(st, al):
                out.append((fi, r, wr))
            if depth < 3:
                for nm in called_names(st):
                    for callee in by_name.get(nm, []):
                        if callee.qualname in helpers and callee.qualname != fi.qualname and callee.qualname not in wrappers:
                            for f2, r2, w2 in handler_reads(callee, callee.node.body, depth + 1):
                                out.append((f2, r2, w2 | wr))
        return out

    n_reads = 0
    for fi in funcs:
        if fi.qualname not in helpers:
            continue
        for t in ast.walk(fi.node):
            if not isinstance(t, ast.Try):
                continue
            for h in t.handlers:
                types = [ast.unparse(x).rsplit(".", 1)[-1] for x in ((h.type.elts if isinstance(h.type, ast.Tuple) else [h.type]) if h.type is not None else [])]
                if "TimeoutError" not in types:
                    continue
                for f2, r, written in handler_reads(fi, h.body):
                    n_reads += 1
                    k = r.slice.value
                    # keys written in the function (or the handler that called it) count as present
                    rep.check(k in base_keys or k in written, "TIMEOUT.flow", f"{f2.path}:{f2.qualname[len(f2.module) + 1:]}:{r.lineno}", f"handler reads state[{k!r}]",
                              "what the converting handler reads from the state exists for every operator (otherwise the KeyError escapes instead of the flagged row)",
                              extracted=f"state[{k!r}] is not among the keys every state has ({', '.join(sorted(base_keys))})", required="a key created with the state or written in this function", function=f"{f2.path}:{f2.qualname[len(f2.module) + 1:]}")
    rep.floor("state reads inside converting handlers", n_reads, 1)
    # TIMEOUT.guarded-raise: the three raise sites are decided by the path rules (MCS.loop / Z3MCS.loop / CHECK.three-way);
    # a raise site anywhere else has no rule that reads its guard: recognised guard forms pass, anything else is undecided
    COVERED = ("OptimizerRC2.minimal_correction_subsets", "SystemWZ3.get_all_xi_i", "LexInfZ3.get_all_xi_i")
    n_raise = 0
    for fi in funcs:
        for n in ast.walk(fi.node):
            if isinstance(n, ast.Raise) and n.exc is not None and "TimeoutError" in ast.unparse(n.exc):
                n_raise += 1
                where = f"{fi.path}:{fi.qualname[len(fi.module) + 1:]}:{n.lineno}"
                if fi.qualname.endswith(COVERED):
                    rep.ok("TIMEOUT.guarded-raise", where, "raise site", "decided on the paths of this function by the enumeration rules (deadline present ∧ expired, or check() not sat)")
                    continue
                guard = _enclosing_test(fi.node, n)
                ok = guard is not None and ("expired" in guard or "unknown" in guard or "!= sat" in guard or "!= z3.sat" in guard or "is not sat" in guard)
                if not ok:
                    raise AnalysisError(f"{where}: a TimeoutError raise site outside the functions whose paths are analysed, guarded by {guard or 'nothing'}: cannot decide when it fires")
                rep.ok("TIMEOUT.guarded-raise", where, "raise guard", "TimeoutError is raised only when the deadline is observed expired or the solver gave up", extracted=guard)
    rep.floor("TimeoutError raise sites", n_raise, 1)


def _always_raises(body) -> bool:
    if not body:
        return False
    last = body[-1]
    if isinstance(last, ast.Raise):
        return True
    if isinstance(last, ast.If):
        return _always_raises(last.body) and _always_raises(last.orelse)
    return False


def _enclosing_test(fnode, target):
    """Source text of the innermost `if` test guarding a statement."""
    best = None

    def walk(node, tests):
        nonlocal best
        for child in ast.iter_child_nodes(node):
            if child is target:
                best = tests[-1] if tests else None
                return
            if isinstance(child, ast.If):
                for s in child.body:
                    if s is target or any(x is target for x in ast.walk(s)):
                        walk_body(child.body, tests + [ast.unparse(child.test)])
                        return
                for s in child.orelse:
                    if s is target or any(x is target for x in ast.walk(s)):
                        walk_body(child.orelse, tests + ["not (" + ast.unparse(child.test) + ")"])
                        return
            else:
                if any(x is target for x in ast.walk(child)):
                    walk(child, tests)
                    return

    def walk_body(stmts, tests):
        nonlocal best
        for s in stmts:
            if s is target:
                best = tests[-1] if tests else None
                return
            if any(x is target for x in ast.walk(s)):
                walk(ast.Module(body=[s], type_ignores=[]), tests)
                return

    walk(fnode, [])
    return best


# ----------------------------------------------------------------------------------------------
def preprocessing_timeout_rows(rep, ex: Explorer):
    """TIMEOUT.row on Inference.inference: once preprocessing ran out of time no operator is asked; every query gets a
    row under its own key with answer False (the table flags it through preprocessing_timed_out)."""
    qual = f"{INF}.inference"
    site = fn_label(ex.prog, qual)

    def setup(I):
        s, es, bb = _self(I, extra={"preprocessing_timed_out": Const(True), "preprocessing_done": Const(False)})
        return [s, _queries(I), Sym("timeout", "int"), Sym("multi", "bool")], {}

    summ = dict(SUMMARIES)
    summ[f"{INF}.single_inference"] = lambda I, fi, a, k, n: (I.log("delegated", n, func="single"), Sym("rows"))[1]
    summ[f"{INF}.multi_inference"] = lambda I, fi, a, k, n: (I.log("delegated", n, func="multi"), Sym("rows"))[1]
    paths = ex.run(qual, setup, summaries=summ, key="inference-preproc-timeout")
    n = 0
    for p in paths:
        if p.outcome[0] != "return":
            rep.violation("TIMEOUT.row", site, "after a preprocessing timeout", "the expiry is reported through the rows, not by an exception", extracted=repr(p.outcome[1])[:80], required="rows", function=site)
            continue
        n += 1
        dl = [ev for ev, Q in iter_events(p.events) if ev.kind == "delegated"]
        rep.check(not dl, "TIMEOUT.row", site, "no operator after a preprocessing timeout", "without finished preprocessing no query is handed to the operator", extracted=f"{len(dl)} delegation(s)", required="0", function=site)
        rv = p.outcome[1]
        d = p.state.heap.get(rv.oid) if isinstance(rv, Ref) else None
        ok = isinstance(d, HDict) and not d.entries and len(d.each) == 1
        got = repr(rv)[:80]
        if ok:
            _, b, fam, g, kt, vt = d.each[0]
            ok = fam == ("members", ("keys", "Q")) and g == PTRUE and isinstance(kt, ElemV) and kt.var == b and kt.role == "key" and isinstance(vt, TupleV) and len(vt.items) == 4 \
                and isinstance(vt.items[0], ElemV) and vt.items[0].var == b and vt.items[1] == Const(False)
            got = f"{kt!r}: {vt!r}"
        rep.check(ok, "TIMEOUT.row", site, "rows after a preprocessing timeout", "every query gets a row under its own key with answer False", extracted=got[:160], required="{key: (key, False, ..)}", function=site)
    rep.floor("inference() paths after a preprocessing timeout", n, 1)


def _check_query_call(rep, site, events, qvar, per_query_loop):
    """TIMEOUT.per-query and the argument roles of the operator call made for one query: the operator receives the query,
    the state's mode flag and a deadline that was created for this very query (or none)."""
    evs = [e for e, _ in events]
    news = {e.obj.oid: i for i, e in enumerate(evs) if e.kind == "new" and e.cls.endswith("Deadline") and isinstance(e.obj, Ref)}
    for i, e in enumerate(evs):
        if e.kind != "delegate" or e.func != "_inference":
            continue
        a = e.args
        okq = len(a) >= 4 and isinstance(a[1], ElemV) and a[1].var == qvar and a[1].role == "cond"
        okw = len(a) >= 4 and returned_bool(None, a[2]) == ("truthy", "weakly")
        rep.check(okq and okw, "TIMEOUT.per-query", f"{site}:{e.node.lineno}", "operator call roles", "the operator is asked about this query in the state's mode (no other value lands in the mode parameter)",
                  extracted=repr(a[1:3])[:160], required="(query, state.weakly, ...)", function=site)
        d = a[3] if len(a) >= 4 else None
        if isinstance(d, Const) and d.value is None:
            continue
        okd = isinstance(d, Ref) and d.oid in news and news[d.oid] < i
        rep.check(okd, "TIMEOUT.per-query", f"{site}:{e.node.lineno}", "deadline of this query", "every query runs under a deadline created for it from the per-query budget" + (" (inside the loop over the queries)" if per_query_loop else ""),
                  extracted=repr(d)[:80] + ("" if okd else " created elsewhere"), required="Deadline.from_duration(timeout) for this query", function=site)


def rows(rep, ex: Explorer, which=("single", "worker", "multi", "manager"), rules=None):
    rep.only = set(rules) if rules else None
    try:
        return _rows(rep, ex, which)
    finally:
        rep.only = None


def _rows(rep, ex: Explorer, which=("single", "worker", "multi", "manager")):
    """ROWS.key / TIMEOUT.row / PAR.key / PAR.join on the query wrappers."""
    prog = ex.prog
    stats = {}
    # ---- single_inference
    if "single" in which:
        qual = f"{INF}.single_inference"
        site = fn_label(prog, qual)

        def setup(I):
            s, es, bb = _self(I)
            return [s, _queries(I), Sym("timeout", "int")], {}

        paths = ex.run(qual, setup, summaries=SUMMARIES, key="single")
        n_rows = 0
        res_oids = {p.outcome[1].oid for p in paths if p.outcome[0] == "return" and isinstance(p.outcome[1], Ref)}
        for p in paths:
            # rows are what is stored into the mapping the call hands back; anything else a round stores (a memo in the state)
            # is judged on its own: the outcome of an expired query must not be kept where a later call finds it
            def is_row(e_):
                return e_.kind == "dict.set" and (not res_oids or (isinstance(e_.obj, Ref) and e_.obj.oid in res_oids))

            for ev, Q in iter_events(p.events):
                if is_row(ev) and Q:
                    loop_ev, case = Q[-1]
                    evar = loop_ev.evar
                    n_rows += 1
                    _check_row(rep, site, ev, case, evar, "result mapping")
                if ev.kind == "loop" and not Q and ev.fam == ("members", ("keys", "Q")):
                    for case in ev.cases:
                        _check_query_call(rep, site, list(iter_events(case.events)), ev.evar, True)
                        if case.sig[0] == "next":
                            others = [e2 for e2, Q2 in iter_events(case.events) if e2.kind == "dict.set" and not Q2 and not is_row(e2)]
                            flagged_row = any(is_row(e2) and isinstance(e2.value, TupleV) and len(e2.value.items) == 4 and e2.value.items[2] == Const(True) for e2, Q2 in iter_events(case.events) if not Q2)
                            for e2 in others:
                                v2 = e2.value
                                keeps_flag = isinstance(v2, TupleV) and any(x == Const(True) for x in v2.items)
                                if flagged_row and keeps_flag:
                                    rep.violation("TIMEOUT.row", f"{site}:{getattr(e2.node, 'lineno', '?')}", "an expiry is not remembered", "the outcome of a query whose budget ran out is not kept in state that outlives the call (a later call with a larger budget would get the flagged row again)",
                                                  extracted=f"{v2!r} stored under {e2.key!r}"[:200], required="nothing kept of an expired query", function=site)
                            # every query the loop goes on from (answered or expired) has left exactly one row
                            stored = [e2 for e2, Q2 in iter_events(case.events) if is_row(e2) and not Q2]
                            how = "; ".join(show_pred(k if v else ("not", k))[:60] for k, v in case.guard) or "always"
                            rep.check(len(stored) == 1, "ROWS.key", site, f"a row for every query ({how[:80]})", "whatever happens to a query (answered, expired), the loop stores one row for it before it goes on",
                                      extracted=f"{len(stored)} row(s) stored", required="1", function=site)
            if p.outcome[0] == "raise":
                _check_escape(rep, site, p)
            if p.outcome[0] == "return":
                rv = p.outcome[1]
                if isinstance(rv, Ref):
                    d = p.state.heap[rv.oid]
                    ok = isinstance(d, HDict) and not d.entries and len(d.each) >= 1 and all(e[2] == ("members", ("keys", "Q")) for e in d.each)
                    rep.check(ok, "ROWS.key", site, "one row per query", "the result has one entry per submitted query and nothing else",
                              extracted=f"{len(d.each) if isinstance(d, HDict) else '?'} guarded entries over {set(e[2] for e in d.each) if isinstance(d, HDict) else '?'}",
                              required="entries over the submitted queries", function=site)
        stats["single_rows"] = n_rows
    # ---- worker
    if "worker" in which:
        qual = f"{INF}._multi_inference_worker"
        site = fn_label(prog, qual)

        wheld = {}

        def setup_w(I):
            s, es, bb = _self(I)
            wheld["ret"] = I.alloc(HDict())
            return [s, ElemV(QUERY, "key"), make_query(), wheld["ret"], Sym("timeout", "int")], {}

        paths = ex.run(qual, setup_w, summaries=SUMMARIES, key="worker")
        n = 0
        for p in paths:
            _check_query_call(rep, site, list(iter_events(p.events)), QUERY, False)
            outcome = None
            for k, v in p.decisions:
                if k[0] == "delegate-outcome":
                    outcome = v
            if p.outcome[0] == "raise":
                _check_escape(rep, site, p)
            sets = [ev for ev, Q in iter_events(p.events) if ev.kind == "dict.set"]
            for ev in sets:
                n += 1
                rep.check(isinstance(ev.obj, Ref) and ev.obj == wheld.get("ret"), "PAR.key", f"{site}:{ev.node.lineno}", "worker store target", "the worker leaves its row in the mapping it was handed",
                          extracted=repr(ev.obj), required="the shared mapping parameter", function=site)
                key_ok = isinstance(ev.key, ElemV) and ev.key.var == QUERY and ev.key.role == "key"
                rep.check(key_ok, "PAR.key", f"{site}:{ev.node.lineno}", "worker store key", "the worker stores its row under the query's own key",
                          extracted=repr(ev.key), required="the query key", function=site)
                _check_tuple(rep, site, ev, outcome, QUERY)
            if outcome == "TimeoutError":
                rep.check(p.outcome[0] == "return" and len(sets) == 1, "TIMEOUT.row", site, "worker expiry", "an expiry in a worker becomes a flagged row, not an exception",
                          extracted=f"{p.outcome[0]}, {len(sets)} row(s)", required="one flagged row", function=site)
            elif p.outcome[0] == "return":
                rep.check(len(sets) == 1, "PAR.key", site, "worker leaves its row", "a worker that got an answer leaves exactly one row in the shared mapping", extracted=f"{len(sets)} row(s) stored", required="1", function=site)
        stats["worker_rows"] = n
    # ---- multi_inference
    if "multi" in which:
        _multi(rep, ex, stats)
    if "manager" in which:
        _manager_rows(rep, ex, stats)
    return stats


def manager_init(rep, ex: Explorer, roles=("belief_base", "inference_system", "smt_solver", "pmaxsat_solver", "weakly")):
    """MANAGER.init: the constructor of the manager hands its arguments to create_epistemic_state in their own roles
    (base, operator name, SMT back-end, MaxSAT back-end - blank only for the operators that have none -, mode) and keeps
    the state it got."""
    qual = "inference.inference_manager.InferenceManager.__init__"
    site = fn_label(ex.prog, qual)
    target = ex.prog.functions.get("inference.inference_manager.create_epistemic_state")
    if target is None:
        raise AnalysisError("create_epistemic_state not found")
    ta = target.node.args
    tpos = [x.arg for x in ta.posonlyargs + ta.args]
    held = {}

    def ces(I, fi, args, kwargs, node):
        bound = {tpos[i]: v for i, v in enumerate(args) if i < len(tpos)}
        bound.update(kwargs)
        I.log("mgr.state", node, bound=bound)
        return Sym(("ES",))

    def setup(I):
        bb = make_belief_base(I)
        held["bb"] = bb
        s = I.alloc(HObj("inference.inference_manager.InferenceManager", {}))
        held["s"] = s
        return [s, bb, Sym("system", "str"), Sym("smt", "str"), Sym("pmaxsat", "str"), Sym("weakly", "bool")], {}

    paths = ex.run(qual, setup, summaries={"inference.inference_manager.create_epistemic_state": ces}, key="mgr-init")
    n = 0
    for p in paths:
        if p.outcome[0] != "return":
            continue
        n += 1
        st = [ev for ev, Q in iter_events(p.events) if ev.kind == "mgr.state"]
        if len(st) != 1:
            rep.violation("MANAGER.init", site, "state created", "the manager creates its epistemic state once", extracted=f"{len(st)} calls", required="1", function=site)
            continue
        b = st[0].bound
        no_maxsat = any(k[0] == "in" and "system" in repr(k[1]) and v is True and "p-entailment" in repr(k[2]) and "system-z" in repr(k[2]) and "system-w" not in repr(k[2]) and "lex" not in repr(k[2]) and "c-inference" not in repr(k[2])
                        for k, v in p.decisions)
        want = {"belief_base": (held["bb"],), "inference_system": (Sym("system", "str"), Sym(("lower", "system", ()), "str")),
                "smt_solver": (Sym("smt", "str"), Sym(("lower", "smt", ()), "str")),
                "pmaxsat_solver": (Sym("pmaxsat", "str"), Sym(("lower", "pmaxsat", ()), "str")) + ((Const(""),) if no_maxsat else ()),
                "weakly": (Sym("weakly", "bool"),)}
        for role in roles:
            got = b.get(role)
            ok = any(got == w or (isinstance(got, Sym) and isinstance(w, Sym) and got.label == w.label) for w in want[role])
            rep.check(ok, "MANAGER.init", f"{site}:{st[0].node.lineno}", f"argument {role}", "the manager's arguments reach the state in their own roles", extracted=repr(got), required=" or ".join(map(repr, want[role])), function=site)
        obj = p.state.heap.get(held["s"].oid)
        kept = isinstance(obj, HObj) and obj.attrs.get("epistemic_state") == Sym(("ES",))
        rep.check(kept, "MANAGER.init", site, "state kept", "the manager keeps the state it created", extracted=repr(obj.attrs.get("epistemic_state")) if isinstance(obj, HObj) else "?", required="the created state", function=site)
    rep.floor("manager construction paths", n, 2)
    return {"manager_init_paths": n}


def _check_escape(rep, site, p):
    """The only exceptions that leave a query wrapper are the operator's own (non-expiry) errors: the budget arithmetic
    around the call (creating the deadline, reading the clock) is total."""
    exc = p.outcome[1]
    origin = getattr(exc, "origin", None)
    own = isinstance(origin, tuple) and origin and origin[0] == "delegate" and getattr(exc, "cls", None) != "TimeoutError"
    rep.check(own, "TIMEOUT.row", site, "escaping exception", "nothing but an error of the operator itself escapes the wrapper: budget handling never raises",
              extracted=f"{exc!r} from {origin!r}"[:120], required="only the operator's own non-expiry error", function=site)


def _check_row(rep, site, ev, case, evar, what):
    """A row written by single_inference for the generic query ``evar``."""
    key = ev.key
    # ROWS.key: keyed by the submitted query key
    key_ok = isinstance(key, ElemV) and key.var == evar and key.role == "key"
    rep.check(key_ok, "ROWS.key", f"{site}:{ev.node.lineno}", f"{what} key", "per-query results are keyed by the submitted query key",
              extracted=repr(key), required="the query's key", function=site)
    outcome = None
    for k, v in case.guard:
        if k[0] == "delegate-outcome":
            outcome = v
    _check_tuple(rep, site, ev, outcome, evar, case)


def _check_tuple(rep, site, ev, outcome, evar, case=None):
    val = ev.value
    if isinstance(val, Sym) and isinstance(val.label, tuple) and val.label[:1] == ("tuple-with-unknown-part",):
        # (a row read back from a store the path knows nothing of: what it holds is decided where it is stored)
        raise AnalysisError(f"{site}:{ev.node.lineno}: a row is built from a stored value of unknown shape ({val!r})"[:300])
    if not (isinstance(val, TupleV) and len(val.items) == 4):
        rep.violation("TIMEOUT.row", f"{site}:{ev.node.lineno}", "row shape", "result row is not (key, answer, timed_out, time)", extracted=repr(val), required="4-tuple", function=site)
        return
    idx, ans, to, tm = val.items
    ok_idx = isinstance(idx, ElemV) and idx.var == evar and idx.role == "key"
    rep.check(ok_idx, "ROWS.key", f"{site}:{ev.node.lineno}", "row index", "the row carries the query's own key", extracted=repr(idx), required="the query key", function=site)
    if outcome == "TimeoutError":
        ok = isinstance(ans, Const) and ans.value is False and isinstance(to, Const) and to.value is True
        rep.check(ok, "TIMEOUT.row", f"{site}:{ev.node.lineno}", "expired row", "an expired query is reported with answer False and the timed-out flag",
                  extracted=f"answer={ans!r}, timed_out={to!r}", required="answer=False, timed_out=True", function=site)
    else:
        ok_to = isinstance(to, Const) and to.value is False
        if outcome == "ok":
            ok_ans = isinstance(ans, Sym) and ans.label[:1] == ("delegated",)
        else:
            ok_ans = (isinstance(ans, Const) and ans.value is True) or (isinstance(ans, Sym) and ans.label[:1] == ("delegated",))
        rep.check(ok_to and ok_ans, "TIMEOUT.row", f"{site}:{ev.node.lineno}", "answered row", "an answered query carries the operator's answer and no timed-out flag",
                  extracted=f"answer={ans!r}, timed_out={to!r}", required="answer=general_inference(query), timed_out=False", function=site)


def _multi(rep, ex: Explorer, stats):
    """The parallel path, decided by evaluating multi_inference on concrete query mappings (no query, one, two; thorough:
    three, with keys that are neither consecutive nor in order) with everything the processes do left open: whether a
    worker is still alive after the timed join and whether it left a row in the shared mapping are free for every query.
    Whatever they turn out to be: one worker per query with (key, that query, the shared mapping, the budget), started and
    joined; a straggler is terminated and joined; the result maps exactly the submitted keys - a straggler's to a flagged
    row, otherwise to the row found in the shared mapping under that key, or a flagged row when there is none."""
    from .. import depth as _depth
    from ..absvals import FuncV

    prog = ex.prog
    qual = f"{INF}.multi_inference"
    site = fn_label(prog, qual)
    keysets = [(), (4,), (7, 3)] + ([(5, 9, 2)] if _depth.thorough() else [])
    n_start = n_rows = 0
    for keys in keysets:
        held = {}

        def setup(I, keys=keys, held=held):
            s, es, bb = _self(I)
            held["queries"] = I.alloc(HDict(entries={k: ElemV(("q", k), "cond") for k in keys}))
            return [s, held["queries"], Sym("timeout", "int")], {}

        paths = ex.run(qual, setup, summaries=SUMMARIES, key=f"multi-{'-'.join(map(str, keys))}")
        combos = set()
        for p in paths:
            slot0 = f"queries {list(keys)}"
            if p.outcome[0] != "return":
                rep.violation("ROWS.key", site, slot0, "multi_inference returns the mapping from query keys to rows", extracted=f"{p.outcome[0]} {p.outcome[1]!r}"[:100], required="the result mapping", function=site)
                continue
            evs = [ev for ev, Q in iter_events(p.events)]
            shared = {ev.obj.oid for ev in evs if ev.kind == "mp.dict" and isinstance(ev.obj, Ref)}
            # a copy of the shared mapping taken inside the call (`dict(shared.items())`) holds what the mapping held at that
            # moment: looking a row up there is looking it up in the mapping as it was then - what was stored later (the row
            # of a terminated worker) is not in it, which the rows below show
            snapshots = {oid_ for oid_, o_ in p.state.heap.items() if isinstance(o_, HDict) and getattr(o_, "snapshot_of", None) in shared}
            procs = {}
            for ev in evs:
                if ev.kind == "mp.process":
                    n_start += 1
                    items = ev.args.items if isinstance(ev.args, TupleV) else ()
                    k0 = items[0].value if items and isinstance(items[0], Const) else None
                    where = f"{site}:{ev.node.lineno}"
                    ok = len(items) >= 2 and k0 in keys and items[1] == ElemV(("q", k0), "cond")
                    rep.check(ok, "PAR.key", where, "worker arguments", "each worker receives the query together with its own key", extracted=repr(items[:2]), required="(key of q, q)", function=site)
                    okc = len(items) == 4 and isinstance(items[2], Ref) and items[2].oid in shared and items[3] == Sym("timeout", "int")
                    rep.check(okc, "PAR.key", where, "worker container and budget", "each worker gets the shared result mapping and the per-query budget", extracted=repr(items[2:]), required="(shared mapping, timeout)", function=site)
                    rep.check(isinstance(ev.target, FuncV) and ev.target.qualname == f"{INF}._multi_inference_worker", "PAR.key", where, "worker function", "the process runs the worker wrapper", extracted=repr(ev.target), required="_multi_inference_worker", function=site)
                    if ok:
                        procs.setdefault(k0, []).append(ev.obj.oid)
            rep.check(sorted(procs) == sorted(keys) and all(len(v) == 1 for v in procs.values()), "PAR.key", site, f"one worker per submitted query ({slot0})", "exactly one worker is created for every submitted query",
                      extracted=str({k: len(v) for k, v in procs.items()}), required=str({k: 1 for k in keys}), function=site)
            key_of = {v[0]: k for k, v in procs.items()}
            alive, present = {}, {}
            for kk, vv in p.decisions:
                if kk[0] == "alive" and kk[1] in key_of and key_of[kk[1]] not in alive:
                    alive[key_of[kk[1]]] = vv
                elif kk[0] == "in" and isinstance(kk[1], tuple) and kk[1][:1] == ("c",) and isinstance(kk[2], tuple) and kk[2][:1] == ("dict",) and (kk[2][1] in shared or kk[2][1] in snapshots):
                    present[kk[1][1]] = vv
            # per process: started, joined; a straggler terminated and joined again
            for k in keys:
                if k not in procs:
                    continue
                oid = procs[k][0]
                seq = [ev.kind for ev in evs if ev.kind in ("mp.start", "mp.join", "mp.terminate") and isinstance(ev.obj, Ref) and ev.obj.oid == oid]
                rep.check(seq.count("mp.start") == 1 and seq[:1] == ["mp.start"], "PAR.join", site, "process started", "every created process is started (once, before anything else)", extracted=" ".join(seq), required="start ...", function=site)
                # the join before the liveness test gives the worker its time: join(0) returns at once (0 is "no limit" in
                # this library's budgets, not in Process.join) and every worker would be terminated as a straggler
                j1 = [ev for ev in evs if ev.kind == "mp.join" and isinstance(ev.obj, Ref) and ev.obj.oid == oid][:1]
                if j1:
                    tmo = j1[0].data.get("timeout")
                    zero = (isinstance(tmo, Const) and isinstance(tmo.value, (int, float)) and not isinstance(tmo.value, bool) and tmo.value <= 0) or \
                        (isinstance(tmo, LinV) and F.lin_is_const(tmo.lin) and tmo.lin[1] <= 0)
                    rep.check(not zero, "PAR.join", f"{site}:{j1[0].node.lineno}", "worker given its time", "the join in front of the liveness test waits for the worker (the budget, or without limit)",
                              extracted=f"join({tmo!r})" + ("" if not zero else " returns immediately: every worker is cut off"), required="join(budget) / join()", function=site)
                if alive.get(k) is True:
                    ok = "mp.terminate" in seq and seq[-1] == "mp.join" and "mp.join" in seq[:seq.index("mp.terminate")]
                    rep.check(ok, "PAR.join", site, "straggler reaped", "a worker still alive after the timed join is terminated and joined", extracted=" ".join(seq), required="start join terminate join", function=site)
                else:
                    rep.check("mp.join" in seq, "PAR.join", site, "worker joined", "every started process is joined", extracted=" ".join(seq), required="start join", function=site)
                    rep.check("mp.terminate" not in seq, "PAR.key", site, "finished worker's row kept", "only a worker that is still alive after the timed join is terminated and reported as timed out; the row of a finished worker is not overwritten",
                              extracted=" ".join(seq) + (" (liveness never tested)" if k not in alive else ""), required="no terminate", function=site)
            # the manager process that hosts the shared mapping is a child process as well: whoever starts it shuts it down
            # before the call returns (left by `with`, or shutdown())
            for ev in evs:
                if ev.kind == "mp.manager" and isinstance(ev.obj, Ref):
                    closed = any((e2.kind == "ctx.exit" and isinstance(e2.obj, Ref) and e2.obj.oid == ev.obj.oid) or
                                 (e2.kind == "opaque.call" and isinstance(e2.obj, Ref) and e2.obj.oid == ev.obj.oid and e2.method in ("shutdown", "__exit__")) for e2 in evs)
                    rep.check(closed, "PAR.join", f"{site}:{getattr(ev.node, 'lineno', '?')}", "manager process shut down", "the manager process started for the shared mapping is shut down before the call returns (no child process is left behind)",
                              extracted="shut down" if closed else "started and never shut down on this path", required="with mp.Manager() ... / shutdown()", function=site)
            # the returned mapping
            rv = p.outcome[1]
            rd = p.state.heap.get(rv.oid) if isinstance(rv, Ref) else None
            if not (isinstance(rd, HDict) and not rd.each):
                rep.violation("ROWS.key", site, slot0, "multi_inference returns the mapping from query keys to rows", extracted=repr(rv)[:80], required="the result mapping", function=site)
                continue
            if rv.oid in shared:
                rep.violation("ROWS.key", site, "one row per query (parallel)", "the result is a mapping of this process (the manager's mapping is gone when the manager shuts down)", extracted="the shared mapping itself", required="a plain dict", function=site)
                continue
            combos.add((tuple(sorted(alive.items())), tuple(sorted(present.items()))))
            rep.check(sorted(rd.entries) == sorted(keys), "ROWS.key", site, "one row per query (parallel)", "the result has a row for exactly the submitted queries",
                      extracted=f"{slot0}: keys {sorted(rd.entries, key=repr)}", required=str(sorted(keys)), function=site)
            shared_oid = next(iter(shared)) if len(shared) == 1 else None
            for k in keys:
                if k not in rd.entries:
                    continue
                n_rows += 1
                v = rd.entries[k]
                flagged = isinstance(v, TupleV) and len(v.items) == 4 and v.items[0] == Const(k) and v.items[1] == Const(False) and v.items[2] == Const(True)
                theirs = isinstance(v, Sym) and (v.label == ("dictitem", ("dict", shared_oid), ("c", k)) or (shared_oid is not None and any(v.label == ("dictitem", ("dict", so_), ("c", k)) for so_ in snapshots)))
                case = f"alive={alive.get(k)}, row left={present.get(k)}"
                if flagged and isinstance(v.items[3], Const) and not (isinstance(v.items[3].value, (int, float)) and not isinstance(v.items[3].value, bool)):
                    # the fourth column is summed by Inference.inference and rounded by the manager's report: a row whose time is
                    # not a number turns the flagged expiry into an exception that loses the whole call
                    rep.violation("TIMEOUT.row", site, "time column of a flagged row", "the time column of every row is a number (it is summed and rounded by the callers): an expiry is reported, not raised",
                                  extracted=f"{slot0}, query {k} ({case}): {v!r}"[:200], required=f"({k}, False, True, <number>)", function=site)
                if alive.get(k) is True:
                    rep.check(flagged, "TIMEOUT.row", site, "terminated worker's row", "a worker that had to be terminated is reported as timed out with answer False, under its query's key",
                              extracted=f"{slot0}, query {k} ({case}): {v!r}"[:200], required=f"({k}, False, True, ..)", function=site)
                elif present.get(k) is True:
                    rep.check(theirs, "PAR.key", site, "stored row handed back", "a query whose worker stored a row gets exactly that row (looked up under its own key)",
                              extracted=f"{slot0}, query {k} ({case}): {v!r}"[:200], required=f"shared[{k}]", function=site)
                elif present.get(k) is False:
                    rep.check(flagged, "TIMEOUT.row", site, "missing row", "a query without a stored row is reported as timed out with answer False",
                              extracted=f"{slot0}, query {k} ({case}): {v!r}"[:200], required=f"({k}, False, True, budget)", function=site)
                else:
                    rep.violation("ROWS.key", site, "one row per query (parallel)", "whether a finished worker left a row decides between that row and a flagged one",
                                  extracted=f"{slot0}, query {k}: {v!r} without looking into the shared mapping"[:200], required="row found under the key, else a flagged row", function=site)
        if keys and len(combos) < 3 ** len(keys):
            # every query: straggler / finished with a row / finished without one
            rep.violation("PAR.join", site, f"cases per query ({list(keys)})", "for every query the three cases are told apart: still alive after the timed join, finished with a row, finished without one",
                          extracted=f"{len(combos)} combinations", required=f"{3 ** len(keys)}", function=site)
    stats["multi_process_sites"] = n_start
    stats["multi_rows"] = n_rows
    rep.floor("worker creation sites", n_start, 1)
    rep.floor("rows of the parallel path evaluated", n_rows, 20)


def _manager_rows(rep, ex: Explorer, stats):
    """InferenceManager.inference row loop: one row per submitted query, in submission order, every cell of the row
    read from the result entry of that query's own key."""
    prog = ex.prog
    qual = "inference.inference_manager.InferenceManager.inference"
    site = fn_label(prog, qual)
    QF = ("members", ("keys", "Q"))

    def make_instance(I, fi, args, kwargs, node):
        I.log("manager.instance", node)
        return ElemV(("opinstance",), "opinstance")

    holder = {}

    def h_pre(I, v, args, kwargs, node):
        I.log("manager.preprocess", node, args=tuple(args))
        # preprocessing updates the flags and the time in the state: what is read before this point is stale
        es = holder.get("es")
        if es is not None:
            d = I.deref(es)
            d.entries["preprocessing_timed_out"] = Sym(("post", "preprocessing_timed_out"), "bool")
            d.entries["preprocessing_time"] = Sym(("post", "preprocessing_time"), "float")
            d.entries["preprocessing_done"] = Sym(("post", "preprocessing_done"), "bool")
        return Const(None)

    def h_inf(I, v, args, kwargs, node):
        I.log("manager.inference", node, args=tuple(args))
        b = I.fresh_var("r")
        row = TupleV((ElemV(b, "key"), Sym(("answer", b), "bool"), Sym(("timedout", b), "bool"), Sym(("time", b), "float")))
        return I.alloc(HDict(each=[("each", b, QF, PTRUE, ElemV(b, "key"), row)]))

    def setup(I):
        bb = make_belief_base(I)
        es = make_epistemic_state(I, bb, "system-z")
        holder["es"] = es
        s = I.alloc(HObj("inference.inference_manager.InferenceManager", {"epistemic_state": es}))
        holder["self"] = s
        qs = I.alloc(HObj("inference.queries.Queries", {"conditionals": _queries(I), "name": Sym(("qname",), "str"), "signature": Sym("qsig")}))
        return [s, qs], {}

    summ = {"inference.inference_manager.create_inference_instance": make_instance}
    hooks = {("opinstance", "preprocess_belief_base"): h_pre, ("opinstance", "inference"): h_inf}
    paths = ex.run(qual, setup, summaries=summ, key="manager", hooks=hooks)
    n = 0
    for p in paths:
        if p.outcome[0] != "return":
            continue
        evs = [(ev, Q) for ev, Q in iter_events(p.events)]
        pre = [i for i, (ev, Q) in enumerate(evs) if ev.kind == "manager.preprocess"]
        inf = [i for i, (ev, Q) in enumerate(evs) if ev.kind == "manager.inference"]
        rep.check(bool(pre) and bool(inf) and min(pre) < min(inf), "REFUSE", site, "preprocess before inference", "the manager preprocesses before it evaluates queries on every path",
                  extracted=f"preprocess calls {len(pre)}, inference calls {len(inf)}", required="preprocess first", function=site)
        for ev, Q in evs:
            if ev.kind in ("dict.get.unknown", "dict.get.generic") and Q:
                loop_ev, case = Q[-1]
                if loop_ev.fam != QF:
                    continue
                n += 1
                key = ev.key
                ok = ev.kind == "dict.get.generic" and isinstance(key, ElemV) and key.var == loop_ev.evar and key.role == "key"
                rep.check(ok, "ROWS.key", f"{site}:{ev.node.lineno}", "row builder key", "every cell of a report row is read from the result entry of that query's own key",
                          extracted=repr(key), required="the key of the query the row is built for", function=site)
        # ROWS.columns: which component of the result entry lands in which column of the report
        want = {"index": lambda b: ElemV(b, "key"), "result": lambda b: Sym(("answer", b), "bool"), "inference_timed_out": lambda b: Sym(("timedout", b), "bool")}
        cols = {}
        rowposs = set()
        for ev, Q in evs:
            if ev.kind == "setitem.unknown" and Q and Q[-1][0].fam == QF and isinstance(ev.key, TupleV) and len(ev.key.items) == 2 and isinstance(ev.key.items[1], Const):
                b = Q[-1][0].evar
                col = ev.key.items[1].value
                rowpos = ev.key.items[0]
                cols[col] = ev
                if col in want:
                    rep.check(ev.value == want[col](b), "ROWS.columns", f"{site}:{ev.node.lineno}", f"column {col}", {"index": "the row's index column is the query's key", "result": "the result column is the answer of that query",
                              "inference_timed_out": "the timed-out column is the timed-out flag of that query"}[col], extracted=repr(ev.value), required=repr(want[col](b)), function=site)
                if col == "inference_time":
                    rep.check(F.mentions(desc(ev.value), {("time", b)}), "ROWS.columns", f"{site}:{ev.node.lineno}", "column inference_time", "the time column is derived from the time of that query", extracted=repr(ev.value)[:100], required="time of the query", function=site)
                okpos = isinstance(rowpos, LinV) and rowpos.lin == (((("pos", b, QF), 1),), 0)
                rep.check(okpos, "ROWS.order", f"{site}:{ev.node.lineno}", f"row of column {col}", "all cells of a query go to the row of its position in the submitted order", extracted=repr(rowpos), required="row = position of the query", function=site)
                rowposs.add(rowpos)
        rep.check(len(rowposs) == 1, "ROWS.columns", site, "one row per query", "all cells of a query land in one and the same row", extracted=f"{len(rowposs)} different row positions", required="one", function=site)
        # the table the rows are written into is made for this call: a frame kept by the manager would still hold the rows of
        # earlier calls (and a table handed out earlier would change under its owner's hands)
        frames_ = {repr(desc(ev.obj)) for ev in cols.values()}
        kept = [f_ for f_ in frames_ if "('ref', %d)" % holder["self"].oid in f_ or "'global'" in f_] if holder.get("self") is not None else []
        made = [f_ for f_ in frames_ if "DataFrame" in f_]
        if frames_ and not kept and len(made) != len(frames_):
            raise AnalysisError(f"{site}: cannot tell where the report table comes from: {sorted(frames_)[0][:160]}")
        rep.check(not kept, "ROWS.columns", site, "table of this call", "the report table is created by the call that fills it (no rows of earlier calls, no table handed out before)",
                  extracted=(f"written into an object the manager keeps: {kept[0][:120]}" if kept else "a new table"), required="a new table per call", function=site)
        for col in ("index", "result", "inference_timed_out", "preprocessing_timed_out"):
            rep.check(col in cols, "ROWS.columns", site, f"column {col} present", f"the report has the column {col}", extracted=str(sorted(cols)), required=col, function=site)
        if "preprocessing_timed_out" in cols:
            v = cols["preprocessing_timed_out"].value
            rep.check(v == Sym(("post", "preprocessing_timed_out"), "bool"), "ROWS.columns", site, "column preprocessing_timed_out", "every row reports the preprocessing flag as it is after this call's preprocessing", extracted=repr(v)[:80], required="state flag after preprocessing", function=site)
    rep.floor("result lookups in the manager's row loop", n, 1)
    stats["manager_lookups"] = n


# ----------------------------------------------------------------------------------------------
# engine names of pysat.solvers.SolverNames (python-sat as installed; external, read once, frozen here)
PYSAT_ENGINES = ("cd", "cd103", "cdl", "cdl103", "cadical103", "cd15", "cd153", "cdl15", "cdl153", "cadical153", "cd19", "cd195", "cdl19", "cdl195", "cadical195",
                 "gc3", "gc30", "gluecard3", "gluecard30", "gc4", "gc41", "gluecard4", "gluecard41", "g3", "g30", "glucose3", "glucose30", "g4", "g41", "glucose4",
                 "glucose41", "g42", "g421", "glucose42", "glucose421", "lgl", "lingeling", "mcb", "chrono", "maplechrono", "mcm", "maplecm", "mpl", "maple", "maplesat",
                 "mg3", "mgs3", "mergesat3", "mergesat30", "mc", "mcard", "minicard", "m22", "msat22", "minisat22", "mgh", "msat-gh", "minisat-gh")


def backend_dispatch(rep, ex: Explorer):
    """BACKEND.dispatch / BACKEND.engine-neutral, decided by evaluating the two functions on concrete back-end names:
    create_optimizer hands every 'rc2' / 'rc2-<engine>' name to the RC2 implementation; the SAT engine RC2 is created
    with is <engine> (g3 for plain 'rc2'); and apart from that one argument the enumeration does the same thing for
    every engine (same paths, same decisions, same events; recorded when it is so)."""
    from ..absvals import HWcnf

    prog = ex.prog
    qual = "inference.optimizer.create_optimizer"
    site = fn_label(prog, qual)
    qual2 = "inference.optimizer.OptimizerRC2.minimal_correction_subsets"
    site2 = fn_label(prog, qual2)
    NAMES = {"rc2": "g3", "rc2-g3": "g3", "rc2-g4": "g4", "rc2-cd": "cd", "rc2-m22": "m22", "rc2-mgh": "mgh"}
    shapes = {}
    n = 0
    for name, engine in NAMES.items():
        def setup(I, name=name):
            es = I.alloc(HDict(entries={"pmaxsat_solver": Const(name)}))
            return [es], {}

        paths = ex.run(qual, setup, summaries={"inference.optimizer.OptimizerRC2": lambda I, fi, a, k, nd: Sym(("RC2OPT",))}, key=f"co-{name}")
        ok = bool(paths) and all(p.outcome[0] == "return" and p.outcome[1] == Sym(("RC2OPT",)) for p in paths)
        rep.check(ok, "BACKEND.dispatch", site, f"name {name}", "create_optimizer hands every rc2 name to the RC2 implementation", extracted="; ".join(f"{p.outcome[0]} {p.outcome[1]!r}" for p in paths)[:120],
                  required="OptimizerRC2(state)", function=site)

        def setup2(I, name=name):
            es = I.alloc(HDict(entries={"pmaxsat_solver": Const(name)}))
            s_ = I.alloc(HObj("inference.optimizer.OptimizerRC2", {"epistemic_state": es}))
            w = I.alloc(HWcnf(hard=[("sym", "H")], soft=[("sym", "S")]))
            return [s_, w], {"ignore": ElemV(("ignore",), "coll", "key"), "deadline": Sym("deadline")}

        paths = ex.run(qual2, setup2, summaries=dict(SUMMARIES), key=f"mcs-{name}")
        engines = set()
        shape = []
        for p in paths:
            evs = []
            for ev, Q in iter_events(p.events):
                if ev.kind == "rc2.new":
                    engines.add(repr(ev.solver))
                    n += 1
                evs.append((ev.kind, getattr(ev.node, "lineno", 0)))
            shape.append((p.outcome[0], tuple((repr(k), repr(v)) for k, v in p.decisions), tuple(evs)))
        shapes[name] = shape
        if name == "rc2":
            # which engine stands in for "no engine named" is a free choice (answers do not depend on it): any engine pysat knows
            okd = len(engines) == 1 and any(engines == {repr(Const(e))} for e in PYSAT_ENGINES)
            rep.check(okd, "BACKEND.dispatch", site2, "engine of rc2", "plain 'rc2' selects some SAT engine that pysat knows", extracted=", ".join(sorted(engines)) or "no RC2 created", required="a pysat engine name (today g3)", function=site2)
        else:
            rep.check(engines == {repr(Const(engine))}, "BACKEND.dispatch", site2, f"engine of {name}", "the SAT engine is the text after 'rc2-'", extracted=", ".join(sorted(engines)) or "no RC2 created", required=repr(engine), function=site2)
    # recorded, not demanded: the MCS.* rules decide the enumeration with a symbolic engine name, so code that treats an
    # engine differently is judged there by what it does, not here by the fact that it differs
    ref = shapes["rc2"]
    same = [name for name, shape in shapes.items() if shape == ref]
    if len(same) == len(shapes):
        rep.ok("BACKEND.engine-neutral", site2, "same enumeration for every engine", "apart from the engine handed to RC2 the enumeration is the same for every engine (paths, decisions, events)", extracted=f"{len(ref)} paths x {len(shapes)} names")
    rep.floor("RC2 creations evaluated", n, len(NAMES))


# ----------------------------------------------------------------------------------------------
PRESENTATION = ("text", "signature", "bbname", "weak", "str", "repr")


def _mentions_presentation(x):
    if isinstance(x, tuple):
        if x and x[0] in PRESENTATION and len(x) >= 2:
            return x
        for i in x:
            r = _mentions_presentation(i)
            if r:
                return r
    return None


def noninterference(rep, ex: Explorer, site, paths):
    """NONINTERF: presentation attributes (text representation, base name, declared signature) never reach a decision
    or a returned answer of an operator - they may only be copied into reports, logs and derived objects."""
    from ..absvals import desc as _desc

    bad = None
    n = 0
    for p in paths:
        for key, val in p.decisions:
            n += 1
            m = _mentions_presentation(key)
            if m:
                bad = ("decision", key)
        if p.outcome[0] == "return":
            m = _mentions_presentation(_desc(p.outcome[1]))
            if m:
                bad = ("answer", _desc(p.outcome[1]))
    rep.check(bad is None, "NONINTERF", site, "presentation attributes", "no decision and no answer depends on the text, name or declared signature of the input",
              extracted=f"{bad[0]} depends on {F.show_desc(bad[1])[:160]}" if bad else f"{n} decisions free of presentation attributes", required="independent", function=site)


# ----------------------------------------------------------------------------------------------
def _self_methods_reachable(prog, cls, start):
    """Methods of ``cls`` (through its MRO) reachable from ``start`` through self.<m>(...) calls."""
    seen, todo = set(), [start]
    out = []
    while todo:
        m = todo.pop()
        if m in seen:
            continue
        seen.add(m)
        fi = prog.lookup_method(cls, m)
        if fi is None:
            continue
        out.append(fi)
        for n in ast.walk(fi.node):
            if isinstance(n, ast.Call) and isinstance(n.func, ast.Attribute) and isinstance(n.func.value, ast.Name) and n.func.value.id == "self":
                todo.append(n.func.attr)
    return out


def state_lifetime(rep, ex: Explorer):
    """STATE.lifetime: the manager builds a new operator object for every call and skips preprocessing once it is
    done, so whatever preprocessing computes for later queries must live in the epistemic state: an attribute of the
    operator that is written only on preprocessing paths must not be read on inference paths."""
    prog = ex.prog
    n = 0
    for cls in operator_classes(prog):
        ci = prog.classes[cls]
        pre = _self_methods_reachable(prog, cls, "_preprocess_belief_base")
        inf = _self_methods_reachable(prog, cls, "_inference")
        init = _self_methods_reachable(prog, cls, "__init__")

        def stores(fis):
            out = {}
            for fi in fis:
                for nd in ast.walk(fi.node):
                    if isinstance(nd, ast.Attribute) and isinstance(nd.value, ast.Name) and nd.value.id == "self" and isinstance(nd.ctx, ast.Store):
                        out.setdefault(nd.attr, (fi, nd))
            return out

        def loads(fis):
            out = {}
            for fi in fis:
                callees = {id(c.func) for c in ast.walk(fi.node) if isinstance(c, ast.Call)}
                for nd in ast.walk(fi.node):
                    if isinstance(nd, ast.Attribute) and isinstance(nd.value, ast.Name) and nd.value.id == "self" and isinstance(nd.ctx, ast.Load) and id(nd) not in callees:
                        out.setdefault(nd.attr, (fi, nd))
            return out

        pre_st, inf_ld, init_st, inf_st = stores(pre), loads(inf), stores(init), stores(inf)
        label = f"{ci.module.replace('.', '/')}.py:{cls.rsplit('.', 1)[1]}"
        def from_state(a):
            """__init__ (run for every new operator object) rebuilds the attribute from the persistent state."""
            if a not in init_st:
                return False
            fi, nd = init_st[a]
            for st in ast.walk(fi.node):
                if isinstance(st, (ast.Assign, ast.AnnAssign)) and any(t is nd for t in (st.targets if isinstance(st, ast.Assign) else [st.target])):
                    return st.value is not None and any(isinstance(x, (ast.Attribute, ast.Name)) and getattr(x, "attr", getattr(x, "id", "")) == "epistemic_state" for x in ast.walk(st.value))
            return False

        bad = [a for a in inf_ld if a in pre_st and not from_state(a) and a not in inf_st and a != "epistemic_state"]
        n += 1
        for a in bad:
            fi, nd = inf_ld[a]
            rep.violation("STATE.lifetime", f"{label}.{fi.name}:{nd.lineno}", f"attribute {a}", "an attribute written only by preprocessing is read while answering a query: a later call on the same manager gets a fresh operator object without it",
                          extracted=f"self.{a} written in {pre_st[a][0].name}, read in {fi.name}", required="kept in the epistemic state", function=f"{label}._inference")
        if not bad:
            rep.ok("STATE.lifetime", label, "attributes", "nothing that preprocessing leaves on the operator object is read while answering queries", extracted=f"preprocessing writes {sorted(pre_st)}, inference reads {sorted(a for a in inf_ld if a != 'epistemic_state')}")
    rep.floor("operator classes audited for state lifetime", n, 7)


def init_preserves_state(rep, ex: Explorer, only_cls=None):
    """STATE.init-preserves: the manager constructs a new operator object for every call on the state that preprocessing
    filled; constructing it must leave every slot that is already present in the state as it is (initialising a
    missing slot is fine)."""
    prog = ex.prog
    n = 0
    for cls in operator_classes(prog):
        if only_cls and cls != only_cls:
            continue
        if prog.lookup_method(cls, "__init__") is None:
            continue
        qual = prog.lookup_method(cls, "__init__").qualname
        site = fn_label(prog, qual)
        slots = PREPROC_SLOTS + ("preprocessing_done", "preprocessing_timed_out", "preprocessing_time", "weakly", "pool")

        def setup(I, cls=cls):
            bb = make_belief_base(I)
            extra = {k: Sym(("preprocessed", k)) for k in slots if k not in ("belief_base", "weakly")}
            extra["preprocessing_done"] = Const(True)
            es = make_epistemic_state(I, bb, "x", extra=extra)
            return [I.alloc(HObj(cls, {})), es], {}

        paths = ex.run(qual, setup, summaries=SUMMARIES, key=f"init-{cls}")
        for p in paths:
            n += 1
            state_oid = None
            for oid, o in p.state.heap.items():
                if hasattr(o, "entries") and "belief_base" in getattr(o, "entries", {}) and "smt_solver" in o.entries:
                    state_oid = oid
            bad = []
            for ev, Q in iter_events(p.events):
                if ev.kind == "dict.set" and isinstance(ev.obj, Ref) and ev.obj.oid == state_oid and isinstance(ev.key, Const) and ev.key.value in slots:
                    bad.append((ev.key.value, ev.node.lineno))
            label = f"{cls.rsplit('.', 1)[1]}.__init__"
            if bad:
                for k, ln in bad:
                    rep.violation("STATE.init-preserves", f"{site}:{ln}", f"{label}: slot {k}", "constructing the operator on a preprocessed state leaves the slots that are present untouched",
                                  extracted=f"state[{k!r}] is overwritten by the constructor although it is present", required="only missing slots are initialised", function=site)
            else:
                rep.ok("STATE.init-preserves", site, f"{label}: preprocessed state", "the constructor leaves the slots of a preprocessed state untouched")
    rep.floor("operator constructors audited", n, 1 if only_cls else 7)


def solver_per_query(rep, site, paths):
    """STATE.solver-per-query: a solver / optimizer / WCNF object built while a query is answered is not kept on the
    operator object or in the epistemic state: an exceptional exit (expired budget, `unknown`) between push and pop would
    leave its assertions behind for the next query."""
    n = 0
    for p in paths:
        holders = {}
        for oid, o in p.state.heap.items():
            if isinstance(o, HObj) and "epistemic_state" in o.attrs:
                holders[oid] = "the operator object"
            if hasattr(o, "entries") and "belief_base" in getattr(o, "entries", {}) and "smt_solver" in o.entries:
                holders[oid] = "the epistemic state"
        for ev, Q in iter_events(p.events):
            if ev.kind not in ("attr.set", "dict.set"):
                continue
            tgt = ev.data.get("obj")
            val = ev.data.get("value")
            if not (isinstance(tgt, Ref) and tgt.oid in holders):
                continue
            n += 1
            solverish = False
            if isinstance(val, Ref):
                o = p.state.heap.get(val.oid)
                solverish = type(o).__name__ in ("HSolver", "HWcnf")
            elif isinstance(val, ElemV) and val.role == "optimizer":
                solverish = True
            if solverish:
                name = ev.data.get("attr", ev.data.get("key"))
                rep.violation("STATE.solver-per-query", f"{site}:{ev.node.lineno}", f"stored solver {name!r}", "constraint objects are created per query; none is kept beyond the query on the operator or in the state",
                              extracted=f"{type(p.state.heap.get(val.oid)).__name__ if isinstance(val, Ref) else 'optimizer'} stored in {holders[tgt.oid]}", required="a fresh object per query", function=site)
    rep.ok("STATE.solver-per-query", site, "stores audited", f"no solver object is stored on the operator or in the state ({n} stores inspected)")


def kept_solver_clean(rep, site, paths):
    """STATE.solver-per-query on the shared short cut: a solver that is kept on the operator object or in the state beyond
    the call must be back to its empty initial scope at every exit of the call (a return between push and pop leaves the
    query's formulas asserted for every later query of the batch).  A solver created and dropped inside the call is of no
    concern here."""
    n = 0
    for p in paths:
        holders = {}
        for oid, o in p.state.heap.items():
            if isinstance(o, HObj) and "epistemic_state" in o.attrs:
                holders[oid] = "the operator object"
            if hasattr(o, "entries") and "belief_base" in getattr(o, "entries", {}) and "smt_solver" in o.entries:
                holders[oid] = "the epistemic state"
        for ev, Q in iter_events(p.events):
            if ev.kind not in ("attr.set", "dict.set"):
                continue
            tgt, val = ev.data.get("obj"), ev.data.get("value")
            if not (isinstance(tgt, Ref) and tgt.oid in holders and isinstance(val, Ref)):
                continue
            o = p.state.heap.get(val.oid)
            if type(o).__name__ != "HSolver":
                continue
            n += 1
            frames = [list(fr) for fr in o.frames]
            left = len(frames) > 1 or any(frames)
            name = ev.data.get("attr", ev.data.get("key"))
            rep.check(not left, "STATE.solver-per-query", f"{site}:{ev.node.lineno}", f"kept solver {name!r} at the exit `{p.outcome[0]} {str(p.outcome[1])[:30]}`",
                      "a solver kept beyond the call is empty again at every exit of the call (what one query asserted must not be in force for the next)",
                      extracted=(f"{len(frames) - 1} scope(s) still open, {sum(len(fr) for fr in frames)} assertion(s) left; kept in {holders[tgt.oid]}" if left else "empty"), required="initial scope, no assertions", function=site)
    rep.ok("STATE.solver-per-query", site, "kept solvers audited", f"no solver kept beyond the call leaves assertions behind ({n} kept solver(s) inspected)")


MUTATING = ("dict.set", "list.append", "list.extend", "list.insert", "list.pop", "list.remove", "list.clear", "list.sort", "list.setitem",
            "dict.update", "dict.pop", "del.item", "elem.mutate")
PREPROC_SLOTS = ("partition", "nf_cnf_dict", "f_cnf_dict", "v_cnf_dict", "vMin", "fMin", "belief_base", "base_csp")


def cache_readonly(rep, ex: Explorer, site, paths, allowed_state_keys=()):
    """CACHE.readonly: what preprocessing stored for all later queries is never modified in place while a query is
    answered (only the declared query slots of the state and the id pool change)."""
    n = 0
    bad = []
    for p in paths:
        slot_oids = {}
        state_oid = None
        for oid, o in p.state.heap.items():
            if hasattr(o, "entries") and "belief_base" in getattr(o, "entries", {}) and "smt_solver" in o.entries:
                state_oid = oid
                for nm in PREPROC_SLOTS:
                    r = o.entries.get(nm)
                    if isinstance(r, Ref):
                        slot_oids[r.oid] = nm
                        inner = p.state.heap.get(r.oid)
                        if isinstance(inner, HObj) and isinstance(inner.attrs.get("conditionals"), Ref):
                            slot_oids[inner.attrs["conditionals"].oid] = nm + ".conditionals"
        for ev, Q in iter_events(p.events):
            if ev.kind not in MUTATING:
                continue
            n += 1
            tgt = ev.data.get("obj")
            if isinstance(tgt, Ref):
                if tgt.oid in slot_oids:
                    bad.append((ev, f"{slot_oids[tgt.oid]} modified in place ({ev.kind})"))
                elif tgt.oid == state_oid and ev.kind == "dict.set" and isinstance(ev.key, Const):
                    k = ev.key.value
                    if k in PREPROC_SLOTS:
                        bad.append((ev, f"state slot {k} replaced while answering a query"))
            elif isinstance(tgt, ElemV) and ev.kind == "elem.mutate":
                if not (isinstance(tgt.var, tuple) and tgt.var[:1] == ("copy",)):
                    bad.append((ev, f"cached {tgt.role} modified in place ({ev.data.get('method')})"))
    for ev, why in bad:
        rep.violation("CACHE.readonly", f"{site}:{getattr(ev.node, 'lineno', '?')}", "in-place modification", "preprocessing results are read-only while queries are answered",
                      extracted=why, required="copy before modifying", function=site)
    if not bad:
        rep.ok("CACHE.readonly", site, "in-place modification", "no preprocessing slot is modified while a query is answered", extracted=f"{n} mutating effects, none on a preprocessing slot")


def z3_timeout_type(rep, ex: Explorer):
    """TIMEOUT.int: z3 accepts only an integer for its `timeout` parameter (a float raises Z3Exception, which is no expiry and
    escapes the wrappers).  Every `<solver>.set(timeout=E)` / `.set("timeout", E)`: E is classified by a small type walk
    (int / float / unknown) through constants, arithmetic, min / max / int() / round(), conditional expressions, local
    assignments and the return expressions of the called Deadline methods; only a value that can be a float is reported."""
    prog = ex.prog
    funcs = [fi for fi in prog.functions.values() if fi.module.startswith("inference")]

    def ret_type(name, depth):
        tys = set()
        for fi in funcs:
            if fi.node.name == name and fi.module.endswith("deadline"):
                for n in ast.walk(fi.node):
                    if isinstance(n, ast.Return) and n.value is not None:
                        tys.add(ty(n.value, fi, depth + 1))
        if not tys:
            return "unknown"
        return "float" if "float" in tys else ("int" if tys == {"int"} else "unknown")

    def ty(e, fi, depth=0):
        if depth > 6:
            return "unknown"
        if isinstance(e, ast.Constant):
            return "float" if isinstance(e.value, float) else ("int" if isinstance(e.value, int) else "unknown")
        if isinstance(e, ast.UnaryOp):
            return ty(e.operand, fi, depth + 1)
        if isinstance(e, ast.BinOp):
            if isinstance(e.op, ast.Div):
                return "float"
            a, b = ty(e.left, fi, depth + 1), ty(e.right, fi, depth + 1)
            return "float" if "float" in (a, b) else ("int" if (a, b) == ("int", "int") else "unknown")
        if isinstance(e, ast.IfExp):
            a, b = ty(e.body, fi, depth + 1), ty(e.orelse, fi, depth + 1)
            return "float" if "float" in (a, b) else ("int" if (a, b) == ("int", "int") else "unknown")
        if isinstance(e, ast.Call):
            f = e.func
            nm = f.attr if isinstance(f, ast.Attribute) else (f.id if isinstance(f, ast.Name) else "")
            if nm == "int" or (nm == "round" and len(e.args) == 1) or nm in ("len", "floor", "ceil"):
                return "int"
            if nm == "float":
                return "float"
            if nm in ("max", "min") and e.args and not e.keywords:
                ts = [ty(a, fi, depth + 1) for a in e.args]
                return "float" if "float" in ts else ("int" if all(t == "int" for t in ts) else "unknown")
            if isinstance(f, ast.Attribute):
                return ret_type(nm, depth)
            return "unknown"
        if isinstance(e, ast.Name):
            tys = set()
            for n in ast.walk(fi.node):
                if isinstance(n, ast.Assign) and any(isinstance(t, ast.Name) and t.id == e.id for t in n.targets):
                    tys.add(ty(n.value, fi, depth + 1))
            if not tys:
                return "unknown"
            return "float" if "float" in tys else ("int" if tys == {"int"} else "unknown")
        return "unknown"

    n = 0
    for fi in funcs:
        for c in ast.walk(fi.node):
            if not (isinstance(c, ast.Call) and isinstance(c.func, ast.Attribute) and c.func.attr == "set"):
                continue
            arg = next((k.value for k in c.keywords if k.arg == "timeout"), None)
            if arg is None and len(c.args) == 2 and isinstance(c.args[0], ast.Constant) and c.args[0].value == "timeout":
                arg = c.args[1]
            if arg is None:
                continue
            n += 1
            t = ty(arg, fi)
            where = f"{fi.path}:{fi.qualname[len(fi.module) + 1:]}:{c.lineno}"
            rep.check(t != "float", "TIMEOUT.int", where, "timeout parameter", "the timeout handed to z3 is an integer number of milliseconds (z3 rejects a float with an exception that is not an expiry)",
                      extracted=f"`{ast.unparse(arg)[:80]}` can be a float" if t == "float" else f"`{ast.unparse(arg)[:80]}`: {t}", required="int", function=f"{fi.path}:{fi.qualname[len(fi.module) + 1:]}")
    rep.floor("z3 timeout parameters set", n, 2)


def state_slots(rep, ex: Explorer):
    """STATE.slots (by evaluation): the epistemic state `create_epistemic_state` hands out describes what the caller passed:
    the base is the caller's base with every one of its conditionals (the same object, or a base over the same / a copied
    mapping - never a selection of them), operator name, back-ends and mode sit in their own slots, and nothing is marked as
    preprocessed yet."""
    from ..absint import Interp

    prog = ex.prog
    qual = "inference.inference_manager.create_epistemic_state"
    fi = prog.functions.get(qual)
    if fi is None:
        raise AnalysisError("create_epistemic_state not found")
    site = fn_label(prog, qual)
    a = fi.node.args
    names = [x.arg for x in a.posonlyargs + a.args]
    held = {}

    def setup(I):
        bb = make_belief_base(I)
        held["bb"] = bb
        held["conds"] = I.deref(bb).attrs["conditionals"]
        vals = []
        for nm in names:
            vals.append(bb if nm == "belief_base" else Sym(("arg", nm)))
        return vals, {}

    I_ = Interp(prog)
    paths = I_.explore(qual, setup)
    if ex.report is not None:
        ex.report.absorb_stats(I_)
    n = 0
    for p in paths:
        if p.outcome[0] != "return":
            continue
        rv = p.outcome[1]
        d = p.state.heap.get(rv.oid) if isinstance(rv, Ref) else None
        if not (isinstance(d, HDict) and not d.each and not d.sym):
            raise AnalysisError(f"{site}: does not return a mapping with literal slots")
        n += 1
        case = "; ".join(f"{show_pred(k)[:50]}={v}" for k, v in p.decisions[:3])
        got = d.entries.get("belief_base")
        same = isinstance(got, Ref) and got.oid == held["bb"].oid
        if not same:
            o = p.state.heap.get(got.oid) if isinstance(got, Ref) else None
            cd = o.attrs.get("conditionals") if isinstance(o, HObj) else None
            cdo = p.state.heap.get(cd.oid) if isinstance(cd, Ref) else None
            src = p.state.heap.get(held["conds"].oid)
            if isinstance(cd, Ref) and cd.oid == held["conds"].oid:
                same = True
            elif isinstance(cdo, HDict) and not cdo.entries and not cdo.sym and len(cdo.each) == 1 and len(src.each) == 1:
                e, e0 = cdo.each[0], src.each[0]
                if e[2] == e0[2] and e[3] == PTRUE:
                    same = True
                elif e[2] == e0[2]:
                    rep.violation("STATE.slots", site, "belief base" + (f" [{case}]" if case else ""), "the operators reason about the caller's base: every conditional of it is in the state's base",
                                  extracted=f"only the conditionals with {show_pred(e[3])[:140]} are kept", required="all conditionals of the base passed", function=site)
                    continue
            if not same:
                raise AnalysisError(f"{site}: the base stored in the state ({got!r}) cannot be related to the base passed")
        rep.ok("STATE.slots", site, "belief base" + (f" [{case}]" if case else ""), "the operators reason about the caller's base: every conditional of it is in the state's base")
        for nm in names:
            if nm == "belief_base":
                continue
            v = d.entries.get(nm)
            rep.check(isinstance(v, Sym) and v.label == ("arg", nm), "STATE.slots", site, f"slot {nm}", "every argument sits in the slot of its name", extracted=repr(v)[:80], required=f"the argument {nm}", function=site)
        for nm in ("preprocessing_done", "preprocessing_timed_out"):
            v = d.entries.get(nm)
            rep.check(isinstance(v, Const) and v.value is False, "STATE.slots", site, f"slot {nm}", "a new state is not preprocessed", extracted=repr(v)[:40], required="False", function=site)
    rep.floor("create_epistemic_state returning paths", n, 1)
