"""System Z (C02) and the shared shape of the operators' `_inference` entry (strict start, extended branch)."""
from __future__ import annotations

from itertools import product

from .. import formula as F
from ..absint import iter_events
from ..absvals import Const, Sym, PredV, LinV, Ref, ElemV, HObj, HSolver, PTRUE, show_pred
from ..front import AnalysisError
from ..harness import (Explorer, make_belief_base, make_epistemic_state, make_query, A, B, QUERY, material, verification,
                       falsification, canon_items, canon_item, flat, each_item, show_items, show_item, fn_label, decided,
                       truth_rows, KEYS_D, returned_bool, P_value, PVAR, layer_fam, LEN_P, LAST, K, reccall_summary,
                       lin_facts_hold, eval_lin_n, eval_pred, pred_atoms, query_formula)
from . import wrappers
from .. import depth as _depth

HEAD = ("sym", "H")


def not_falsified(x):
    return ("not", falsification(x))


# ----------------------------------------------------------------------------------------------
def partition_flow(rep, ex: Explorer, cls: str, kind: str, rule="Z.partition-flow"):
    """The partition slot read by `_inference` is the (C06-verified) partition function applied to the state's base
    with the mode handed to preprocessing."""
    qual = f"{cls}._preprocess_belief_base"
    site = fn_label(ex.prog, qual)

    def setup(I):
        bb = make_belief_base(I)
        es = make_epistemic_state(I, bb, "x")
        s = I.alloc(HObj(cls, {"epistemic_state": es}))
        return [s, Sym("weakly", "bool"), Sym("deadline")], {}

    paths = ex.run(qual, setup, summaries=wrappers.SUMMARIES, key="preproc")
    n = 0
    for p in paths:
        if p.outcome[0] != "return":
            continue
        cons = [ev for ev, Q in iter_events(p.events) if ev.kind == "summary.consistency"]
        pf = None
        for c in cons:
            pf = decided(p, ("partfalse", ("part", c.pid)))
        if pf is True:
            continue  # refused earlier by the wrapper (REFUSE); nothing is inferred from such a state
        n += 1
        ok = len(cons) == 1
        rep.check(ok, rule, site, "partition source", "the partition is computed once by the verified partition function",
                  extracted=f"{len(cons)} call(s)", required="1", function=site)
        if not ok:
            continue
        c = cons[0]
        same_bb = c.bbdesc[1] == () and len(c.bbdesc[2]) == 1 and c.bbdesc[2][0][0] == KEYS_D
        flag = returned_bool(None, c.weakly) == ("truthy", "weakly")
        rep.check(same_bb and flag and c.pkind == kind, rule, site, "partition arguments", "partition of the state's own base in the selected mode",
                  extracted=f"base={'state base' if same_bb else 'other'}, mode={c.weakly!r}, variant={c.pkind}", required=f"state base, state mode, {kind}-based",
                  function=site)
        yield p, c


def check_partition_flow_plain(rep, ex: Explorer, cls: str, kind: str, rule="Z.partition-flow"):
    """Operators that store the partition as returned (System Z, System W, lex rc2)."""
    qual = f"{cls}._preprocess_belief_base"
    site = fn_label(ex.prog, qual)
    n = 0
    for p, c in partition_flow(rep, ex, cls, kind, rule):
        n += 1
        es = None
        for ev, Q in iter_events(p.events):
            if ev.kind == "dict.set" and isinstance(ev.key, Const) and ev.key.value == "partition":
                es = ev
        ok = es is not None and isinstance(es.value, ElemV) and es.value.var == ("part", c.pid)
        rep.check(ok, rule, site, "partition slot", "the state's partition slot holds exactly that partition",
                  extracted=repr(es.value) if es else "no store", required="the computed partition", function=site)
    rep.floor(f"{rule} paths of {cls.rsplit('.', 1)[1]}", n, 1)


# ----------------------------------------------------------------------------------------------
def _self_with_partition(I, cls, kind="cond", extra=None, pcls=""):
    bb = make_belief_base(I)
    st = {"partition": P_value(kind, pcls)}
    if extra:
        st.update(extra(I) if callable(extra) else extra)
    es = make_epistemic_state(I, bb, "x", extra=st)
    return I.alloc(HObj(cls, {"epistemic_state": es})), es


def loop_form(paths, head=None):
    """Is the walk over the layers written as a loop that decrements the index (instead of a self-call on k-1)?  Then
    the generic step is the loop iteration: returns (index term at the loop head, items the solver holds at the head,
    loop id, name of the index variable); otherwise (K, [HEAD], None, None)."""
    head = head or HEAD
    for p in paths:
        for ev, Q in iter_events(p.events):
            if ev.kind == "while.enter" and not Q:
                idx = [n for n, v in ev.entry.items() if v[0] == "val" and isinstance(v[1], LinV) and v[1].lin == K]
                sol = [n for n, v in ev.entry.items() if v[0] == "solver" and list(flat(v[3])) == [head]]
                if len(idx) == 1 and len(sol) == 1:
                    return F.lin_term(("head", ev.id, idx[0])), [head, ("sym", ("head", ev.id, sol[0]))], ev.id, idx[0]
    return K, [head], None, None


def rec(rep, ex: Explorer, cls: str):
    """Z.layer-assert, Z.tests, Z.decision on `_rec_inference`."""
    qual = f"{cls}._rec_inference"
    site = fn_label(ex.prog, qual)

    def setup(I):
        s, es = _self_with_partition(I, cls)
        solver = I.alloc(HSolver("pysmt", frames=[[HEAD]]))
        q = make_query()
        from ..harness import bind_by_role

        return bind_by_role(ex.prog, qual, {"self": s, "solver": solver, "partition_index": LinV(K), "query": q, "partition": I.deref(es).entries["partition"]}, [s, solver, LinV(K), q])

    paths = ex.run(qual, setup, summaries=wrappers.SUMMARIES, key="zrec")
    # The walk over the layers is written either as a self-call on k-1 or as a loop that decrements the index.  In the
    # loop form the generic step is the loop iteration: its index is the loop-head value of the index variable (entry
    # value k), the solver holds whatever the head holds (entry content H), and "continue with k-1" is the jump back.
    Kx, heads, loop_id, idx_name = loop_form(paths)
    kterm = Kx[0][0][0]
    layer = each_item(layer_fam(Kx), not_falsified)
    base = canon_items(heads + [layer])
    n_rows = 0
    pending_error, skipped_layer = None, False
    for p in paths:
        if p.outcome[0] == "raise":
            # the type assertion on the partition (refused bases never get here)
            continue
        roles = {}
        for ev, Q in iter_events(p.events):
            if ev.kind != "query" or Q:
                continue
            items = canon_items(flat(ev.frames))
            where = f"{site}:{ev.node.lineno}"
            if not base <= items:
                rep.violation("Z.layer-assert", where, "layer constraints at test", "the tests are asked under the accumulated non-falsification of layer k",
                              extracted=show_items(flat(ev.frames)), required="⊇ " + show_items(heads + [layer]), function=site)
                roles[ev.qid] = "bad"
                continue
            rep.ok("Z.layer-assert", where, "layer constraints at test", "accumulated ∀c∈P[k]: ¬(c.A∧¬c.B) in scope")
            test = [it for it in flat(ev.frames) if canon_item(it) not in base]
            role = None
            if len(test) == 1 and test[0][0] == "f":
                if F.equiv(test[0][1], verification(QUERY)):
                    role = "v"
                elif F.equiv(test[0][1], falsification(QUERY)):
                    role = "f"
            if role is None:
                rep.violation("Z.tests", where, "test formula", "each reachability test adds exactly A∧B or A∧¬B of the query",
                              extracted=show_items(test), required="{Q.A∧Q.B} or {Q.A∧¬Q.B}", function=site)
                roles[ev.qid] = "bad"
                continue
            rep.ok("Z.tests", where, f"test {role}", f"{'verification' if role == 'v' else 'falsification'} of the query tested under the accumulated layers")
            roles[ev.qid] = role
        # decisions
        if "bad" in roles.values():
            continue  # already reported at the test itself
        env = {"v": None, "f": None}
        kfacts = []
        unknown = []
        for key, val in p.decisions:
            if key[0] == "sat" and key[1] in roles:
                env[roles[key[1]]] = val
            elif key[0] == "cmp" and key[2][0] == "lin" and all(t == kterm for t, _ in key[2][1][0]):
                kfacts.append((key, val))
            elif key[0] == "partfalse" or key[0] == "truthy" and key[1] == "weakly":
                continue
            elif key[0] == "sat":
                raise AnalysisError(f"{site}: decision on an unclassified satisfiability test")
            else:
                unknown.append((key, val))
        recs = [ev for ev, Q in iter_events(p.events) if ev.kind == "recurse"]
        if unknown:
            descends = bool(recs) or (p.outcome[0] == "loopback" and p.outcome[1] == loop_id)
            if descends and not roles:
                # something else than the two reachability tests sends the walk to the next layer: this layer never gets to
                # separate the query's verification from its falsification
                k0, v0 = unknown[0]
                rep.violation("Z.tests", site, "layer skipped", "every layer on the way down is asked both reachability tests: the first layer that separates verification from falsification decides",
                              extracted=f"descends without a test when {show_pred(k0 if v0 else ('not', k0))[:140]}", required="test A∧B and A∧¬B under the accumulated layers", function=site)
                skipped_layer = True
                continue
            pending_error = pending_error or f"{site}: outcome depends on {unknown[0][0]!r}"
            continue
        if p.outcome[0] == "loopback" and p.outcome[1] == loop_id:
            # the jump back to the head of the layer loop is the continuation with the values carried back
            snapd = p.outcome[2]
            back = [ev for ev, Q in iter_events(p.events) if ev.kind == "while.back" and not Q]
            node = back[-1].node if back else None
            n_idx = snapd.get(idx_name)
            ok_idx = n_idx is not None and n_idx[0] == "val" and isinstance(n_idx[1], LinV) and n_idx[1].lin == F.lin_add(Kx, F.lin_const(-1))
            for v, f, kv in product((True, False), (True, False), _depth.card_range()):
                if env["v"] not in (None, v) or env["f"] not in (None, f):
                    continue
                okk = True
                for key, val in kfacts:
                    lin = key[2][1]
                    x = sum(c * kv for t, c in lin[0]) + lin[1]
                    if ((x == 0) if key[1] == "==" else (x < 0)) != val:
                        okk = False
                if not okk:
                    continue
                want = "F" if not v else ("T" if not f else ("F" if kv == 0 else "REC"))
                n_rows += 1
                rep.check(want == "REC", "Z.decision", site, f"v={v} f={f} k{'=0' if kv == 0 else '>0'}", "outcome REC", extracted="REC", required=want, function=site)
            where = f"{site}:{getattr(node, 'lineno', '?')}"
            rep.check(ok_idx, "Z.decision", where, "recursion index", "the recursion continues with the next lower layer", extracted=repr(n_idx[1]) if n_idx else "index not carried", required="k-1", function=site)
            ss = [v for n, v in snapd.items() if v[0] == "solver"]
            ok_s = len(ss) == 1 and canon_items(flat(ss[0][3])) == base
            rep.check(ok_s, "Z.tests", where, "scope at recursion", "test formulas are removed before the next layer; layer constraints persist",
                      extracted=show_items(flat(ss[0][3])) if ss else "no solver", required=show_items(heads + [layer]), function=site)
            qv = snapd.get("query")
            rep.check(qv is None or (qv[0] == "val" and isinstance(qv[1], ElemV) and qv[1].var == QUERY), "Z.decision", where, "recursion query", "same query", extracted=repr(qv), required="query", function=site)
            continue
        rv = p.outcome[1]
        # outcome as a function of the recursive answer
        pr = returned_bool(None, rv)
        atoms = pred_atoms(pr)
        rec_atoms = [a for a in atoms if a[0] == "truthy" and isinstance(a[1], tuple) and a[1][:1] == ("rec",)]
        other = [a for a in atoms if a not in rec_atoms]
        envp = {k: v for k, v in p.decisions}
        if any(a not in envp for a in other):
            raise AnalysisError(f"{site}: returned value depends on an undecided predicate")
        if rec_atoms:
            r_t = eval_pred(pr, {**envp, **{a: True for a in rec_atoms}})
            r_f = eval_pred(pr, {**envp, **{a: False for a in rec_atoms}})
            out = "REC" if (r_t, r_f) == (True, False) else ("T" if r_t and r_f else ("F" if not r_t and not r_f else "NOT-REC"))
        else:
            out = "T" if eval_pred(pr, envp) else "F"
        for v, f, kv in product((True, False), (True, False), _depth.card_range()):
            if env["v"] is not None and env["v"] != v:
                continue
            if env["f"] is not None and env["f"] != f:
                continue
            okk = True
            for key, val in kfacts:
                lin = key[2][1]
                x = sum(c * kv for t, c in lin[0]) + lin[1]
                holds = (x == 0) if key[1] == "==" else (x < 0)
                if holds != val:
                    okk = False
            if not okk:
                continue
            want = "F" if not v else ("T" if not f else ("F" if kv == 0 else "REC"))
            n_rows += 1
            rep.check(out == want, "Z.decision", site, f"v={v} f={f} k{'=0' if kv == 0 else '>0'}", f"outcome {out}",
                      extracted=out, required=want, function=site)
        if out == "REC":
            for r in recs:
                a = r.args
                snap = r.snap
                ok_idx = isinstance(a[2], LinV) and a[2].lin == F.lin_add(Kx, F.lin_const(-1))
                rep.check(ok_idx, "Z.decision", f"{site}:{r.node.lineno}", "recursion index", "the recursion continues with the next lower layer",
                          extracted=repr(a[2]), required="k-1", function=site)
                ss = [s for s in snap if s[0] == "solver"]
                ok_s = len(ss) == 1 and canon_items(flat(ss[0][3])) == base
                rep.check(ok_s, "Z.tests", f"{site}:{r.node.lineno}", "scope at recursion", "test formulas are removed before the next layer; layer constraints persist",
                          extracted=show_items(flat(ss[0][3])) if ss else "no solver", required=show_items(heads + [layer]), function=site)
                ok_q = isinstance(a[3], ElemV) and a[3].var == QUERY
                rep.check(ok_q, "Z.decision", f"{site}:{r.node.lineno}", "recursion query", "same query", extracted=repr(a[3]), required="query", function=site)
    if pending_error and not skipped_layer:
        raise AnalysisError(pending_error)
    rep.floor("Z decision rows", n_rows, 8)


# ----------------------------------------------------------------------------------------------
def inference_entry(rep, ex: Explorer, cls: str, kind="cond", extra_state=None, key="entry", pcls="", summaries=None,
                    hooks=None, pmaxsat=None, query_cls=""):
    """Explore the operator's `_inference` with the recursive core summarised (it has its own obligations)."""
    qual = f"{cls}._inference"
    site = fn_label(ex.prog, qual)

    def setup(I):
        bb = make_belief_base(I)
        st = {"partition": P_value(kind, pcls)}
        if extra_state:
            st.update(extra_state(I) if callable(extra_state) else extra_state)
        es = make_epistemic_state(I, bb, "x", extra=st, pmaxsat=pmaxsat)
        s = I.alloc(HObj(cls, {"epistemic_state": es}))
        return [s, make_query(query_cls), Sym("weakly", "bool"), Sym("deadline")], {}

    summ = dict(wrappers.SUMMARIES)
    if summaries:
        summ.update(summaries)
    summ[f"{cls}._rec_inference"] = reccall_summary
    paths = ex.run(qual, setup, summaries=summ, key=key, hooks=hooks)
    return site, paths


def start_strict(rep, site, paths, prefix, solver_check):
    n = 0
    for p in paths:
        # a path that never consults the mode flag is taken in strict mode as well
        if decided(p, ("truthy", "weakly")) is True or p.outcome[0] != "return":
            continue
        rcs = [ev for ev, Q in iter_events(p.events) if ev.kind == "reccall"]
        if not rcs:
            # an answer given in front of the layer recursion must follow from the query alone: True only when A∧¬B is
            # unsatisfiable, False only when A∧B is unsatisfiable (and A∧¬B satisfiable)
            from ..harness import sat_literals
            lits, other = sat_literals(p)
            unread = [k for k, v in other if k[0] in ("sat", "check")]
            g = ("and", tuple(lits))
            rv = p.outcome[1]
            out = rv.value if isinstance(rv, Const) and isinstance(rv.value, bool) else None
            if unread or out is None:
                rep.violation(f"{prefix}.start", site, "strict answer", "in strict mode the answer is the result of the layer recursion (or follows from the query alone)",
                              extracted=f"returns {rv!r} in front of the recursion after tests involving the base", required="recursion result", function=site)
            elif out is True:
                ok, w = F.guard_implies(g, ("not", ("sat", falsification(QUERY))))
                rep.check(ok, f"{prefix}.start", site, "strict answer True in front of the recursion", "True without the layers only when A∧¬B is unsatisfiable",
                          extracted=F.show_guard(g) + (f" holds on {w}" if w else ""), required="⊆ UNSAT(A∧¬B)", function=site)
            else:
                want = ("and", (("not", ("sat", verification(QUERY))), ("sat", falsification(QUERY))))
                ok, w = F.guard_implies(g, want)
                rep.check(ok, f"{prefix}.start", site, "strict answer False in front of the recursion", "False without the layers only when A∧B is unsatisfiable and A∧¬B is satisfiable",
                          extracted=F.show_guard(g) + (f" holds on {w}" if w else ""), required="⊆ UNSAT(A∧B) ∧ SAT(A∧¬B)", function=site)
            continue
        n += 1
        rc = rcs[-1]
        idx = _index_arg(rc)
        rep.check(idx == LAST, f"{prefix}.start", f"{site}:{rc.node.lineno}", "strict start index", "the recursion starts at the highest layer",
                  extracted=F.show_lin(idx) if idx else "?", required="len(P)-1", function=site)
        solver_check(p, rc, "strict")
        rv = p.outcome[1]
        ok = isinstance(rv, Sym) and rv.label[:1] == ("rec0",)
        rep.check(ok, f"{prefix}.start", site, "strict answer", "the answer is the result of the layer recursion", extracted=repr(rv), required="recursion result", function=site)
    rep.floor(f"{prefix} strict entry paths", n, 1)


_PROG = {}


def _index_arg(rc):
    """The layer index handed to a recursive call: the argument bound to the callee's index parameter (the one annotated
    `int` / named *index*), not just any integer among the arguments."""
    prog = _PROG.get("prog")
    fi = prog.functions.get(rc.data.get("func")) if prog is not None else None
    if fi is not None:
        params = [a for a in fi.node.args.posonlyargs + fi.node.args.args]
        cand = [i for i, a in enumerate(params) if "index" in a.arg or (a.annotation is not None and getattr(a.annotation, "id", None) == "int")]
        if len(cand) == 1:
            i = cand[0]
            args = list(rc.args)
            if len(args) == len(params) - 1 and params and params[0].arg == "self":
                args = [None] + args  # summaries of bound calls may omit the receiver
            if len(args) == len(params) + 1 and "staticmethod" in fi.decorators:
                args = args[1:]  # (the empty place of the receiver a summary of a static method is given)
            v = args[i] if i < len(args) else rc.kwargs.get(params[i].arg)
            return v.lin if isinstance(v, LinV) else None
    for a in rc.args:
        if isinstance(a, LinV):
            return a.lin
    for a in rc.kwargs.values():
        if isinstance(a, LinV):
            return a.lin
    return None


def start_total(rep, site, p, rc, prefix="EXT"):
    """EXT.start-total: the extended recursion starts at len(P)-2 and every such start is guarded against the
    partition that consists of the infinity layer alone (len(P) = 1)."""
    idx = _index_arg(rc)
    want = F.lin_add(LEN_P, F.lin_const(-2))
    rep.check(idx == want, "EXT.start-total", f"{site}:{rc.node.lineno}", "extended start index", "the extended recursion starts below the infinity layer",
              extracted=F.show_lin(idx) if idx else "?", required="len(P)-2", function=site)
    if idx is None:
        return
    bad = None
    for n in range(1, 6):
        if lin_facts_hold(p, n):
            v = eval_lin_n(idx, n)
            if v is not None and v < 0:
                bad = n
                break
    rep.check(bad is None, "EXT.start-total", f"{site}:{rc.node.lineno}", "extended start guarded", "the start index cannot be negative: a base whose conditionals all sit in the infinity layer is answered without indexing a finite layer",
              extracted=f"len(P)={bad} reaches the recursion with index {eval_lin_n(idx, bad)}" if bad else "guarded", required="guard excluding len(P)=1 (or a callee guard k<0)",
              function=site)


INF_ITEM = each_item(layer_fam(LAST), material)


def vacuity_guard(rep, site, paths, inf_leaf=("opaque", "INF")):
    """EXT.vacuity for operators with explicit vacuity solvers: True without recursion exactly (⊇) when
    UNSAT(INF∧A∧¬B); every explicit test is asked against the infinity layer's material counterparts."""
    inf_c = canon_item(INF_ITEM)
    true_guards = []
    all_guards = []
    for p in paths:
        if decided(p, ("truthy", "weakly")) is not True:
            continue
        lits = []
        bad = False
        qm = {}
        for ev, Q in iter_events(p.events):
            if ev.kind == "query" and not Q:
                qm[ev.qid] = ev
        for key, val in p.decisions:
            if key[0] == "sat" or key[0] == "check":
                ev = qm.get(key[1])
                if ev is None:
                    continue
                items = flat(ev.frames)
                rest = [it for it in items if canon_item(it) != inf_c]
                has_inf = len(rest) < len(items)
                fs = []
                okf = True
                for it in rest:
                    if it[0] == "f":
                        fs.append(it[1])
                    else:
                        okf = False
                where = f"{site}:{ev.node.lineno}"
                if not has_inf or not okf:
                    rep.violation("EXT.vacuity", where, "vacuity test scope", "vacuity tests are asked against the material counterparts of the infinity layer",
                                  extracted=show_items(items), required="{∀c∈P[-1]: material(c)} ∪ {query formula}", function=site)
                    bad = True
                    continue
                f = ("and", tuple(fs + [inf_leaf]))
                if key[0] == "sat":
                    lits.append(("sat", f) if val else ("not", ("sat", f)))
                else:
                    # three-valued check: 'unsat' means UNSAT; 'sat' SAT; 'unknown' is left open (neither literal)
                    if val == "unsat":
                        lits.append(("not", ("sat", f)))
                    elif val == "sat":
                        lits.append(("sat", f))
        if bad:
            continue
        g = ("and", tuple(lits))
        rcs = [ev for ev, Q in iter_events(p.events) if ev.kind == "reccall"]
        if p.outcome[0] == "return" and not rcs:
            rv = p.outcome[1]
            if isinstance(rv, Const) and rv.value is True:
                true_guards.append(g)
            all_guards.append((g, rv, p))
        elif rcs:
            all_guards.append((g, "rec", p))
    got = ("or", tuple(true_guards)) if true_guards else ("const", False)
    want = ("not", ("sat", ("and", (falsification(QUERY), inf_leaf))))
    # True-without-recursion must imply UNSAT(INF∧A∧¬B) and must cover it
    ok1, w1 = F.guard_implies(got, want)
    rep.check(ok1, "EXT.vacuity", site, "vacuous True is justified", "True before the layer comparison only when no feasible world satisfies A∧¬B",
              extracted=F.show_guard(got) + (f" holds on {w1}" if w1 else ""), required="⊆ " + F.show_guard(want), function=site)
    return got, want, all_guards


def entry_z(rep, ex: Explorer, cls: str, strict=True, extended=True):
    """System Z `_inference`: strict start (Z.start) and extended branch (EXT.*)."""
    site, paths = inference_entry(rep, ex, cls)

    def solver_snap(rc):
        return [s for s in rc.snap if s[0] == "solver"]

    def strict_solver(p, rc, mode):
        ss = solver_snap(rc)
        ok = len(ss) == 1 and not flat(ss[0][3])
        rep.check(ok, "Z.start", f"{site}:{rc.node.lineno}", "strict start scope", "the strict recursion starts with an empty solver",
                  extracted=show_items(flat(ss[0][3])) if ss else "no solver", required="{}", function=site)
        q = [a for a in rc.args if isinstance(a, ElemV) and a.var == QUERY]
        rep.check(bool(q), "Z.start", f"{site}:{rc.node.lineno}", "query passed", "the recursion receives the query", extracted=repr(rc.args), required="query", function=site)

    if strict:
        start_strict(rep, site, paths, "Z", strict_solver)
    if extended:
        n = 0
        for p in paths:
            if decided(p, ("truthy", "weakly")) is not True:
                continue
            for ev, Q in iter_events(p.events):
                if ev.kind == "reccall":
                    n += 1
                    start_total(rep, site, p, ev)
                    ss = solver_snap(ev)
                    ok = len(ss) == 1 and canon_items(flat(ss[0][3])) == canon_items([INF_ITEM])
                    rep.check(ok, "EXT.inf-hard", f"{site}:{ev.node.lineno}", "infinity layer hard", "the solver handed to the recursion carries ∀c∈P[-1]: material(c) and nothing else",
                              extracted=show_items(flat(ss[0][3])) if ss else "no solver", required=show_items([INF_ITEM]), function=site)
        rep.floor("Z extended entry paths", n, 1)
        got, want, _ = vacuity_guard(rep, site, paths)
        ok2, w2 = F.guard_implies(want, got)
        rep.check(ok2, "EXT.vacuity", site, "vacuous True is complete", "a query whose falsification has no feasible model is answered True",
                  extracted=F.show_guard(got) + (f" misses {w2}" if w2 else ""), required="⊇ " + F.show_guard(want), function=site)
        ext_terminal_answers(rep, site, paths)


def ext_terminal_answers(rep, site, paths, mcs_items=None):
    """EXT.only-infinity: an extended answer given without the layer recursion is either the vacuous True (checked by
    EXT.vacuity) or the answer for a partition that consists of the infinity layer alone: False when A∧¬B has a
    feasible model (all feasible worlds are equally plausible), True otherwise."""
    inf_leaf = ("opaque", "INF")
    inf_c = canon_item(INF_ITEM)
    n = 0
    for p in paths:
        if decided(p, ("truthy", "weakly")) is not True or p.outcome[0] != "return":
            continue
        if any(ev.kind == "reccall" for ev, Q in iter_events(p.events)):
            continue
        rv = p.outcome[1]
        if isinstance(rv, Const) and rv.value is True:
            continue
        ns = [k for k in range(1, 6) if lin_facts_hold(p, k)]
        n += 1
        only_inf = ns == [1]
        rep.check(only_inf, "EXT.only-infinity", site, "answer without recursion", "an extended answer other than the vacuous True is given without the layer recursion only when the partition is the infinity layer alone",
                  extracted=f"possible len(P): {ns}", required="len(P)=1", function=site)
        if not only_inf:
            continue
        if isinstance(rv, Const) and rv.value is False:
            # falsification must be known feasible on this path
            lits = []
            qm = {ev.qid: ev for ev, Q in iter_events(p.events) if ev.kind == "query" and not Q}
            for key, val in p.decisions:
                if key[0] in ("sat", "check") and key[1] in qm:
                    items = flat(qm[key[1]].frames)
                    rest = [it for it in items if canon_item(it) != inf_c]
                    if len(rest) == len(items) or any(it[0] != "f" for it in rest):
                        continue
                    f = ("and", tuple([it[1] for it in rest] + [inf_leaf]))
                    if key[0] == "sat":
                        lits.append(("sat", f) if val else ("not", ("sat", f)))
                    elif val == "sat":
                        lits.append(("sat", f))
                    elif val == "unsat":
                        lits.append(("not", ("sat", f)))
            g = ("and", tuple(lits))
            want = ("sat", ("and", (falsification(QUERY), inf_leaf)))
            ok, w = F.guard_implies(g, want)
            # with three-valued checks an `unknown` leaves the test open; the answer False is then only as good as
            # the check (CHECK.three-way governs that), so require implication only when all tests were two-valued
            three = any(k[0] == "check" and v == "unknown" for k, v in p.decisions)
            rep.check(ok or three, "EXT.only-infinity", site, "False with only the infinity layer", "False only when A∧¬B has a feasible model",
                      extracted=F.show_guard(g) + (f" holds on {w}" if w else ""), required="⊆ " + F.show_guard(want), function=site)
        elif isinstance(rv, PredV):
            pr = rv.p
            ok = False
            det = show_pred(pr)
            if pr[0] == "empty" and isinstance(pr[1], tuple) and pr[1][:1] == ("mcs",) and mcs_items is not None:
                for ev, Q in iter_events(p.events):
                    if ev.kind == "mcs" and ("mcs", ev.cid) == pr[1]:
                        hard, soft = mcs_items(ev)
                        want = [INF_ITEM, ("f", falsification(QUERY))]
                        ok = canon_items(hard) == canon_items(want)
                        det = f"True iff no correction set under {show_items(hard)}"
            rep.check(ok, "EXT.only-infinity", site, "answer with only the infinity layer", "True exactly when infinity layer ∧ A∧¬B is unsatisfiable",
                      extracted=det, required="UNSAT(INF ∧ A∧¬B)", function=site)
        else:
            rep.violation("EXT.only-infinity", site, "answer with only the infinity layer", "not a Boolean decided by feasibility of A∧¬B", extracted=repr(rv), required="Boolean", function=site)
    return n
