"""C15 (first half): CNF.roles, CNF.literals, CNF.constants, CNF.pool on inference/tseitin_transformation.py."""
from __future__ import annotations

import ast

from .. import formula as F
from ..absint import iter_events
from ..absvals import Const, Sym, PredV, Ref, ElemV, HObj, HDict, HList, PTRUE, desc, show_pred
from ..front import AnalysisError
from ..harness import (Explorer, make_belief_base, make_epistemic_state, make_query, A, B, QUERY, material, verification,
                       falsification, fn_label, decided, rc2_state, summary_goal2intcnf, view, KEYS_D)
from ..merge import case_guard
from . import wrappers

TS = "inference.tseitin_transformation.TseitinTransformation"


def _mk(I, with_slots=True):
    bb = make_belief_base(I)
    st = rc2_state(I, v=False, f=False, nf=False)
    es = make_epistemic_state(I, bb, "x", extra=st, pmaxsat=Const("rc2"))
    return I.alloc(HObj(TS, {"epistemic_state": es})), es


def roles(rep, ex: Explorer):
    """CNF.roles: which formula's CNF goes into which slot."""
    qual = f"{TS}.belief_base_to_cnf"
    site = fn_label(ex.prog, qual)

    def setup(I):
        s, es = _mk(I)
        return [s, Sym("v", "bool"), Sym("f", "bool"), Sym("nf", "bool")], {}

    summ = dict(wrappers.SUMMARIES)
    summ[f"{TS}.goal2intcnf"] = summary_goal2intcnf
    paths = ex.run(qual, setup, summaries=summ, key="cnfroles")
    want = {"v_cnf_dict": ("v", verification), "f_cnf_dict": ("f", falsification), "nf_cnf_dict": ("nf", material)}
    seen = set()
    for p in paths:
        if p.outcome[0] != "return":
            continue
        # which heap dict is which slot
        slots = {}
        for oid, o in p.state.heap.items():
            if isinstance(o, HDict) and "v_cnf_dict" in o.entries:
                for name in want:
                    r = o.entries.get(name)
                    if isinstance(r, Ref):
                        slots[r.oid] = name
        for ev, Q in iter_events(p.events):
            if ev.kind != "dict.set" or not isinstance(ev.obj, Ref) or ev.obj.oid not in slots or not Q:
                continue
            name = slots[ev.obj.oid]
            flag, fn = want[name]
            loop_ev, case = Q[-1]
            evar = loop_ev.evar
            where = f"{site}:{ev.node.lineno}"
            okk = isinstance(ev.key, ElemV) and ev.key.var == evar and ev.key.role == "key" and loop_ev.fam == KEYS_D
            rep.check(okk, "CNF.roles", where, f"{name} key", "the CNF of a conditional is stored under that conditional's own key", extracted=repr(ev.key), required="the key of the conditional", function=site)
            val = ev.value
            okv = isinstance(val, ElemV) and val.role == "cnf" and F.equiv(val.var[1], fn(evar))
            rep.check(okv, "CNF.roles", where, f"{name} formula", f"{name} holds the CNF of {'A∧B' if flag == 'v' else 'A∧¬B' if flag == 'f' else '¬A∨B'} of the same conditional",
                      extracted=F.show(val.var[1]) if isinstance(val, ElemV) and val.role == "cnf" else repr(val), required=F.show(fn(evar)), function=site)
            on = decided(p, ("truthy", flag))
            others = [fl for fl in ("v", "f", "nf") if fl != flag and any(k == ("truthy", fl) for k, _ in case.guard)]
            rep.check(on is True and not others, "CNF.roles", where, f"{name} switch", f"the {name} slot is filled exactly when its own switch is on",
                      extracted=f"switch {flag}={on}" + (f", also depends on {others}" if others else ""), required=f"switch {flag}", function=site)
            seen.add(name)
    # a switch that is on must fill its slot
    for p in paths:
        if p.outcome[0] != "return":
            continue
        stored = set()
        slots = {}
        for oid, o in p.state.heap.items():
            if isinstance(o, HDict) and "v_cnf_dict" in o.entries:
                for name in want:
                    r = o.entries.get(name)
                    if isinstance(r, Ref):
                        slots[r.oid] = name
        for ev, Q in iter_events(p.events):
            if ev.kind == "dict.set" and isinstance(ev.obj, Ref) and ev.obj.oid in slots and Q:
                stored.add(slots[ev.obj.oid])
        for name, (flag, fn) in want.items():
            on = decided(p, ("truthy", flag))
            if on is True:
                rep.check(name in stored, "CNF.roles", site, f"{name} filled", f"switch {flag} on ⇒ {name} is filled for every conditional", extracted="filled" if name in stored else "not filled", required="filled", function=site)
            elif on is False:
                rep.check(name not in stored, "CNF.roles", site, f"{name} untouched", f"switch {flag} off ⇒ {name} is not written", extracted="written" if name in stored else "untouched", required="untouched", function=site)
    rep.floor("CNF.roles stores of belief_base_to_cnf", len(seen), 3)
    # ---- the same call on a state whose slots hold whatever an earlier call left there (the base may have changed since: the
    # same key may name another conditional by now): every conditional of the current base is translated anew
    def setup_h(I):
        s_, es = _mk(I)
        eso = I.deref(es)
        for nm in want:
            r = eso.entries.get(nm)
            if isinstance(r, Ref) and isinstance(I.deref(r), HDict):
                I.deref(r).sym = ("left by an earlier call",)
        return [s_, Const(True), Const(True), Const(True)], {}

    n_h = 0
    for p in ex.run(qual, setup_h, summaries=summ, key="cnfroles-history"):
        if p.outcome[0] != "return":
            continue
        n_h += 1
        slot_oids = set()
        for oid, o in p.state.heap.items():
            if isinstance(o, HDict) and "v_cnf_dict" in o.entries:
                slot_oids |= {o.entries[nm].oid for nm in want if isinstance(o.entries.get(nm), Ref)}

        def on_slot(k):
            return isinstance(k, tuple) and len(k) == 3 and k[0] == "in" and isinstance(k[2], tuple) and k[2][:1] == ("dict",) and k[2][1] in slot_oids

        stale = [(k, v) for k, v in p.decisions if on_slot(k)]
        for ev, Q in iter_events(p.events):
            if ev.kind == "dict.set" and Q:
                stale += [(k, v) for k, v in Q[-1][1].guard if on_slot(k)]
        rep.check(not stale, "CNF.roles", site, "slots after an earlier call", "every call translates every conditional of the current base anew, whatever the slots already hold under its key (it may belong to the conditional an earlier base had there)",
                  extracted=("what is translated depends on " + "; ".join(sorted({show_pred(k)[:90] for k, _ in stale}))) if stale else "independent of earlier content", required="no dependence on what the slots already hold", function=site)
    rep.floor("CNF.roles paths on a state left by an earlier call", n_h, 1)
    # every combination of the three switches, given as constants (the operators call it with (True, True, True) and
    # (False, True, True)): a slot is filled exactly when its own switch is on, whatever the others are
    from itertools import product
    n_comb = 0
    for fv, ff, fnf in product((True, False), repeat=3):
        def setup_c(I, fv=fv, ff=ff, fnf=fnf):
            s, es = _mk(I)
            return [s, Const(fv), Const(ff), Const(fnf)], {}

        cpaths = ex.run(qual, setup_c, summaries=summ, key=f"cnfroles-{fv}-{ff}-{fnf}")
        for p in cpaths:
            if p.outcome[0] != "return":
                continue
            slots = {}
            for oid, o in p.state.heap.items():
                if isinstance(o, HDict) and "v_cnf_dict" in o.entries:
                    for name in want:
                        r = o.entries.get(name)
                        if isinstance(r, Ref):
                            slots[r.oid] = name
            stored = {slots[ev.obj.oid] for ev, Q in iter_events(p.events) if ev.kind == "dict.set" and isinstance(ev.obj, Ref) and ev.obj.oid in slots and Q}
            on = {"v_cnf_dict": fv, "f_cnf_dict": ff, "nf_cnf_dict": fnf}
            n_comb += 1
            bad = [f"{nm} {'not filled' if on[nm] else 'filled'}" for nm in want if (nm in stored) != on[nm]]
            rep.check(not bad, "CNF.roles", site, f"switches v={fv} f={ff} nf={fnf}", "every slot is filled exactly when its own switch is on (the operators switch on different subsets)",
                      extracted=", ".join(bad) or "as switched", required="filled iff switched on", function=site)
    rep.floor("CNF.roles switch combinations", n_comb, 8)
    # ---- query_to_cnf
    qual2 = f"{TS}.query_to_cnf"
    site2 = fn_label(ex.prog, qual2)

    def setup2(I):
        s, es = _mk(I)
        # the state may hold whatever earlier queries left behind (unknown further entries): the CNFs of this query must
        # not depend on it
        I.deref(es).sym = ("left by earlier queries",)
        return [s, make_query()], {}

    paths = ex.run(qual2, setup2, summaries=summ, key="cnfquery")
    n = 0
    for p in paths:
        if p.outcome[0] != "return":
            continue
        vw = view(p.state, p.outcome[1])
        ok = isinstance(vw, tuple) and vw[0] == "list" and len(vw[1]) == 2 and all(s[0] == "one" and isinstance(s[1], ElemV) and s[1].role == "cnf" for s in vw[1])
        if ok:
            f0, f1 = vw[1][0][1].var[1], vw[1][1][1].var[1]
            ok = F.equiv(f0, verification(QUERY)) and F.equiv(f1, falsification(QUERY))
            got = f"[{F.show(f0)}, {F.show(f1)}]"
        else:
            got = repr(vw)[:200]
            rv_ = p.outcome[1]
            if isinstance(rv_, Sym) and isinstance(rv_.label, tuple) and rv_.label[:1] == ("item",) and "dictitem" in repr(rv_.label[1]):
                # the CNFs are looked up in something an earlier query left in the state.  Keyed by the formulas themselves this
                # could be an exact memo (the analysis cannot tell: exit 2); keyed by their *text* it is not - str() of a
                # formula is a presentation (pysmt abbreviates deep sub-terms), different formulas share it
                if "'str'" in repr(rv_.label[2]) or "'repr'" in repr(rv_.label[2]) or "'text'" in repr(rv_.label[2]) or _formats_formula(rv_.label[2]):
                    n += 1
                    rep.violation("CNF.roles", site2, "query CNFs from an earlier query", "the CNFs of a query are those of its own formulas, whatever was asked before",
                                  extracted=f"looked up under the text of the formulas: {F.show_desc(rv_.label[2])[:120]}", required="[Q.A∧Q.B, Q.A∧¬Q.B] of this query", function=site2)
                    continue
                raise AnalysisError(f"{site2}: the CNFs of a query are taken from state left by earlier queries ({F.show_desc(rv_.label[2])[:100]}); cannot decide that they are this query's")
        n += 1
        rep.check(ok, "CNF.roles", site2, "query CNFs", "query_to_cnf returns [CNF(A∧B), CNF(A∧¬B)] in this order", extracted=got, required="[Q.A∧Q.B, Q.A∧¬Q.B]", function=site2)
    rep.floor("CNF.roles query_to_cnf paths", n, 1)
    # translating a query leaves the per-conditional CNFs of the base alone: they are keyed by the base's keys, and any key
    # may be one of them
    for p in paths:
        slots_q = {}
        for oid, o in p.state.heap.items():
            if isinstance(o, HDict) and "v_cnf_dict" in o.entries:
                for name in ("v_cnf_dict", "f_cnf_dict", "nf_cnf_dict"):
                    r = o.entries.get(name)
                    if isinstance(r, Ref):
                        slots_q[r.oid] = name
        for ev, Q in iter_events(p.events):
            if ev.kind == "dict.set" and isinstance(ev.obj, Ref) and ev.obj.oid in slots_q:
                rep.violation("CNF.roles", f"{site2}:{ev.node.lineno}", f"query stored in {slots_q[ev.obj.oid]}", "the CNFs of a query are handed back, not stored among those of the base (a conditional of the base may have that key)",
                              extracted=f"{slots_q[ev.obj.oid]}[{ev.key!r}] assigned while translating a query", required="no store into the base's CNF dictionaries", function=site2)
    # CNF.pool: the id pool only grows - nothing rewinds or replaces it while the state lives (the optimizer's helper
    # variables are handed out lazily from the same pool; an id given out twice names two different things)
    for which, pp in (("belief_base_to_cnf", ex.run(qual, setup, summaries=summ, key="cnfroles")), ("query_to_cnf", paths)):
        w_site = fn_label(ex.prog, f"{TS}.{which}")
        for p in pp:
            for ev, Q in iter_events(p.events):
                if ev.kind == "attr.set" and ev.data.get("cls") == "IDPool":
                    rep.violation("CNF.pool", f"{w_site}:{ev.node.lineno}", f"pool.{ev.attr} assigned", "ids handed out stay handed out: the pool of a state is never rewound", extracted=f"pool.{ev.attr} = {ev.value!r}"[:120], required="no assignment to the pool's counters", function=w_site)
                if ev.kind == "dict.set" and isinstance(ev.key, Const) and ev.key.value == "pool":
                    rep.violation("CNF.pool", f"{w_site}:{ev.node.lineno}", "pool replaced", "one id pool per state: translating a base or a query never replaces it", extracted="state['pool'] assigned", required="the pool of the state", function=w_site)


def _formats_formula(d):
    """a formatted string (f-string, +, str.format) with a formula among its parts: the formula's text"""
    if isinstance(d, tuple):
        if d[:1] == ("name",) and len(d) > 1 and isinstance(d[1], tuple) and any(isinstance(x, tuple) and x[:1] == ("f",) for x in d[1]):
            return True
        return any(_formats_formula(x) for x in d)
    return False


def literals(rep, ex: Explorer):
    """CNF.literals and CNF.constants on goal2intcnf (with expr_to_signed_id inlined): every goal formula becomes one
    clause; an Or contributes its children; a literal is negative iff it is a Not, then the id is that of the child;
    no Boolean constant ever reaches the id pool."""
    qual = f"{TS}.goal2intcnf"
    site = fn_label(ex.prog, qual)
    G = ("goal", ("opaque", "G"))

    def setup(I):
        s, es = _mk(I)
        return [s, ElemV(G, "goal")], {}

    paths = ex.run(qual, setup, summaries=dict(wrappers.SUMMARIES), key="cnflits")
    n_ids = 0
    for p in paths:
        if p.outcome[0] != "return":
            continue
        # all pool.id events with the guards of the enclosing cases
        for ev, Q in iter_events(p.events):
            if ev.kind != "pool.id":
                continue
            n_ids += 1
            key = ev.key
            guards = {}
            for loop_ev, case in Q:
                for k, v in case.guard:
                    guards[k] = v
            for k, v in p.decisions:
                guards[k] = v
            where = f"{site}:{ev.node.lineno}"
            if not (isinstance(key, ElemV) and key.role == "goalexpr"):
                if isinstance(key, (Const, Sym)) or (isinstance(key, ElemV) and key.role != "goalexpr"):
                    continue  # helper variables (not literals of the goal)
            var = key.var
            # (a) sign discipline: the id of a child is taken exactly for negated literals
            is_child = isinstance(var, tuple) and var[:1] == ("at",) and isinstance(var[1], tuple) and var[1][:1] == ("children",)
            parent = var[1][1] if is_child else None
            src = ("elem", parent, "goalexpr") if is_child else ("elem", var, "goalexpr")
            isnot = guards.get(("z3kind", "not", src))
            if is_child and _is_or_child(parent, guards):
                pass
            if is_child:
                # child of X: either X is a negated literal (is_not(X)) or X is an Or and this is... (children of an Or are
                # iterated, not indexed, so an indexed child is always the operand of a Not)
                rep.check(isnot is True, "CNF.literals", where, "negated literal", "the id of the operand is taken only for a literal that is a Not", extracted=f"is_not={isnot}", required="is_not", function=site)
            else:
                rep.check(isnot is False, "CNF.literals", where, "plain literal", "an expression that is a Not is never given an id of its own", extracted=f"is_not={isnot}", required="not is_not", function=site)
            # (b) constants
            atom = ("elem", var, "goalexpr")
            t = guards.get(("is_true", atom))
            fl = guards.get(("is_false", atom))
            rep.check(t is False and fl is False, "CNF.constants", where, "constant excluded", "no Boolean constant (Top/Bottom) is mapped to a propositional variable: every expression handed to the id pool was tested not to be true/false",
                      extracted=f"is_true tested={t is not None}, is_false tested={fl is not None}", required="is_true=False and is_false=False on the path", function=f"{fn_label(ex.prog, TS + '.expr_to_signed_id')}")
        # returned structure: clause per goal formula
        vw = view(p.state, p.outcome[1])
        if isinstance(vw, tuple) and vw[0] == "list":
            fams = [s[2] for s in vw[1] if s[0] in ("each", "each*")]
            ok = bool(fams) and all(f == ("members", G) for f in fams)
            rep.check(ok, "CNF.literals", site, "one clause per goal formula", "every formula of the goal yields its clause(s); nothing else is emitted",
                      extracted=str(sorted(set(map(str, fams)))), required=str(("members", G)), function=site)
    rep.floor("literals handed to the id pool", n_ids, 2)


def _is_or_child(parent, guards):
    return guards.get(("z3kind", "or", ("elem", parent, "goalexpr")))


def pool(rep, ex: Explorer):
    """CNF.pool: one id pool (and one set of CNF slots) per epistemic state: the helper objects that are created again and
    again on the same state (the CNF builder, the optimizer) keep what the state already holds and create only what is
    missing.  Decided by evaluating their constructors on a state that has the slots and on one that has not."""
    from ..absvals import HOpaque

    prog = ex.prog
    SLOTS = ("pool", "v_cnf_dict", "f_cnf_dict", "nf_cnf_dict")
    n = 0
    for cls in ("inference.tseitin_transformation.TseitinTransformation", "inference.optimizer.Optimizer"):
        init = prog.lookup_method(cls, "__init__")
        if init is None:
            raise AnalysisError(f"{cls}.__init__ not found")
        site = fn_label(prog, init.qualname)
        for present in (True, False):
            held = {}

            def setup(I, present=present, held=held, cls=cls):
                ents = {"belief_base": Sym("BB"), "smt_solver": Const("z3")}
                if present:
                    for k in SLOTS:
                        held[k] = I.alloc(HOpaque("IDPool")) if k == "pool" else I.alloc(HDict(sym=("kept", k)))
                        ents[k] = held[k]
                es = I.alloc(HDict(entries=ents))
                held["es"] = es
                return [I.alloc(HObj(cls, {})), es], {}

            paths = ex.run(init.qualname, setup, summaries={}, key=f"pool-{cls}-{present}")
            for p in paths:
                if p.outcome[0] != "return":
                    continue
                d = p.state.heap.get(held["es"].oid)
                # one id pool per state: a second pool kept in another slot hands out numbers the first one hands out as well
                # (helper variables of the blocking clauses and the variables of a later query would share an integer)
                for k_, v_ in (d.entries.items() if isinstance(d, HDict) else ()):
                    o_ = p.state.heap.get(v_.oid) if isinstance(v_, Ref) else None
                    if k_ != "pool" and isinstance(o_, HOpaque) and o_.typ == "IDPool":
                        rep.violation("CNF.pool", site, f"second id pool ({'pool present' if present else 'pool missing'})", "ids of the base, of every query and of the helper variables come from ONE pool per state (two pools hand out the same integers)",
                                      extracted=f"state[{k_!r}] is another IDPool created by this constructor", required="only state['pool']", function=site)
                for k in SLOTS:
                    n += 1
                    v = d.entries.get(k) if isinstance(d, HDict) else None
                    if present:
                        rep.check(v == held[k], "CNF.pool", site, f"{k} present", "a slot the state already has is kept (ids and CNFs of the base, the query and the helper variables share one pool)",
                                  extracted=repr(v), required="unchanged", function=site)
                    elif v is None:
                        # not created here: whoever builds the state has to provide it (a missing slot fails loudly, it cannot change an answer)
                        rep.ok("CNF.pool", site, f"{k} missing", "a missing slot is left to the creator of the state", extracted="not created by this constructor")
                    else:
                        o = p.state.heap.get(v.oid) if isinstance(v, Ref) else None
                        ok = (isinstance(o, HOpaque) and o.typ == "IDPool") if k == "pool" else (isinstance(o, HDict) and not o.entries and not o.each)
                        rep.check(ok, "CNF.pool", site, f"{k} missing", "a missing slot is created empty", extracted=repr(v) if o is None else type(o).__name__, required="a new id pool" if k == "pool" else "an empty mapping", function=site)
    rep.floor("state slots evaluated at the helper constructors", n, 16)


def constants_handling(rep, ex: Explorer):
    """CNF.constants (handling) and CNF.literals (signs), decided on two witness goals - a unit formula and a
    disjunction of two literals - with is_or / is_not / is_true / is_false as uninterpreted predicates: a clause with
    a true literal is dropped, false literals are removed, the empty clause stays unsatisfiable, every other literal
    keeps its sign."""
    from itertools import product

    from ..absint import Interp

    qual = f"{TS}.goal2intcnf"
    site = fn_label(ex.prog, qual)
    E = ("w", "E")
    kids = {E: [("w", "c1"), ("w", "c2")], ("w", "c1"): [("w", "a1")], ("w", "c2"): [("w", "a2")], ("w", "E0"): [("w", "a0")], ("w", "E1"): [("w", "a3")]}

    def children_hook(I, v, args, kwargs, node):
        ks = kids.get(v.var)
        if ks is None:
            return I.alloc(HList([("sym", ("children", v.var))]))
        return I.alloc(HList([("one", ElemV(k, "goalexpr")) for k in ks]))

    n = 0
    for shape in ("unit", "or", "two"):
        I = Interp(ex.prog, summaries=dict(wrappers.SUMMARIES))
        I.method_hooks[("goalexpr", "children")] = children_hook
        top = ("w", "E0") if shape != "or" else E
        # "two": a goal of two unit formulas - what happens to one formula must not leak into the next
        tops = [top] + ([("w", "E1")] if shape == "two" else [])

        def setup(I, tops=tops):
            s, es = _mk(I)
            return [s, I.alloc(HList([("one", ElemV(t, "goalexpr")) for t in tops]))], {}

        paths = I.explore(qual, setup)
        if ex.report is not None:
            ex.report.absorb_stats(I)
        for p in paths:
            if p.outcome[0] != "return":
                continue
            d = dict(p.decisions)

            def pred(kind, var):
                if kind in ("or", "not"):
                    return d.get(("z3kind", kind, ("elem", var, "goalexpr")))
                return d.get((kind, ("elem", var, "goalexpr")))

            is_or = pred("or", top)
            if shape != "or" and (is_or is True or any(pred("or", t) is True for t in tops[1:])):
                continue  # a unit witness that is an Or is the other shape
            if shape == "or" and is_or is not True:
                continue
            groups = [[t] for t in tops] if shape != "or" else [kids[E]]
            lits = [l for g in groups for l in g]
            # value of every literal under the decided predicates (undecided ones: both completions)
            vw = view(p.state, p.outcome[1])
            got = _clauses(vw)
            n += 1
            options = []
            for l in lits:
                neg = pred("not", l)
                opts = []
                for negv in ((neg,) if neg is not None else (True, False)):
                    atom = kids[l][0] if negv else l
                    t, f = pred("is_true", atom), pred("is_false", atom)
                    for tv in ((t,) if t is not None else (True, False)):
                        for fv in ((f,) if f is not None else (True, False)):
                            if tv and fv:
                                continue
                            val = None
                            if tv:
                                val = not negv
                            elif fv:
                                val = negv
                            opts.append((val, negv, atom))
                options.append(opts)
            bad = None
            for combo in product(*options):
                rest = [sorted(c, key=repr) for c in got]
                ok, want, i = True, [], 0
                for g in groups:
                    part = combo[i:i + len(g)]
                    i += len(g)
                    if any(v is True for v, _, _ in part):
                        continue
                    keep = [(("neg", ("id", ("elem", a, "goalexpr"))) if ng else ("id", ("elem", a, "goalexpr"))) for v, ng, a in part if v is None]
                    if keep:
                        want.append(sorted(keep, key=repr))
                        ok = ok and rest[:1] == [sorted(keep, key=repr)]
                        rest = rest[1:]
                    else:
                        want = "UNSAT" if len(groups) == 1 else want + [[("an unsatisfiable pair",)]]
                        ok = ok and _is_unsat_encoding(rest[:2])
                        rest = rest[2:]
                ok = ok and not rest
                if not ok:
                    bad = (combo, want)
                    break
            slot = f"{shape}: " + " ".join(f"{k[0] if k[0] != 'z3kind' else k[1]}({k[-1][1][1] if isinstance(k[-1], tuple) and len(k[-1]) > 1 and isinstance(k[-1][1], tuple) else '?'})={'T' if v else 'F'}" for k, v in p.decisions if k[0] in ("z3kind", "is_true", "is_false"))
            rep.check(bad is None, "CNF.constants", site, slot, "true literal ⇒ clause dropped; false literal ⇒ removed; empty clause ⇒ unsatisfiable; other literals keep their sign (negative iff Not, id of the operand)",
                      extracted=_show_clauses(got), required=(_show_clauses(bad[1]) if bad and bad[1] != "UNSAT" else ("an unsatisfiable encoding" if bad else "")), function=site)
    rep.floor("CNF witness paths", n, 4)


def _clauses(vw):
    out = []
    if isinstance(vw, tuple) and vw[0] == "list":
        for s in vw[1]:
            if s[0] == "one" and isinstance(s[1], tuple) and s[1][0] == "list":
                cl = []
                for t in s[1][1]:
                    if t[0] == "one" and isinstance(t[1], ElemV):
                        cl.append(t[1].var)
                    else:
                        cl.append(("?", repr(t)[:60]))
                out.append(cl)
            else:
                out.append([("?", repr(s)[:60])])
    return out


def _is_unsat_encoding(cls):
    # [[x], [¬x]] over one variable
    if len(cls) == 2 and all(len(c) == 1 for c in cls):
        a, b = cls[0][0], cls[1][0]
        return a == ("neg", b) or b == ("neg", a)
    return False


def _show_clauses(cls):
    if cls == "UNSAT":
        return "unsat"
    return "[" + ", ".join("[" + ", ".join(F.show_desc(l) for l in c) + "]" for c in cls) + "]"
