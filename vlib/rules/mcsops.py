"""System W and lexicographic inference (C03, C04, C11): the layer recursion over minimal correction sets, for the
rc2 (WCNF) and z3 (Optimize) implementations alike.

Both back-ends are brought to one abstract form ("sides"): every computation of minimal correction sets is a pair
(hard item set, soft item set), every recursive call a hard item set per side; the obligations W.* / LEX.* are stated
on that form, so W.siblings / LEX.siblings (C11.D2) is the fact that both implementations discharge the same table.
"""
from __future__ import annotations

from itertools import product

from .. import formula as F
from ..absint import iter_events
from ..absvals import Const, Sym, PredV, LinV, Ref, ElemV, TupleV, HObj, HList, HDict, HSolver, HWcnf, PTRUE, show_pred, desc
from ..front import AnalysisError
from ..harness import (Explorer, make_belief_base, make_epistemic_state, make_query, A, B, QUERY, material, verification,
                       falsification, canon_items, canon_item, flat, each_item, show_items, show_item, fn_label, decided,
                       KEYS_D, returned_bool, P_value, PVAR, layer_fam, LEN_P, LAST, K, reccall_summary, rc2_state,
                       RC2_SUMMARIES, RC2_HOOKS, wcnf_view, norm_witem, eval_pred, pred_atoms, view, CONDZ3_CLASS, cnf_value)
from . import wrappers
from .sysz import not_falsified, start_strict, start_total, INF_ITEM, vacuity_guard, inference_entry, _index_arg, ext_terminal_answers

HEAD = ("sym", "H")
HEAD_F = ("sym", "HF")


# ----------------------------------------------------------------------------------------------
# harness per back-end
# ----------------------------------------------------------------------------------------------
def _state_of_path(p):
    """(oid of the epistemic state of the operator the path was entered on, {oid of its CNF dictionaries: name})"""
    state_oid = None
    for ev, Q in iter_events(p.events):
        if ev.kind == "enter" and not Q:
            a0 = ev.args[0] if ev.args else None
            o = p.state.heap.get(a0.oid) if isinstance(a0, Ref) else None
            r = o.attrs.get("epistemic_state") if isinstance(o, HObj) else None
            if isinstance(r, Ref):
                state_oid = r.oid
            break
    if state_oid is None:
        for oid, o in p.state.heap.items():
            if isinstance(o, HDict) and "v_cnf_dict" in o.entries and "belief_base" in o.entries:
                state_oid = oid
    names = {}
    o = p.state.heap.get(state_oid)
    if isinstance(o, HDict):
        for nm in ("v_cnf_dict", "f_cnf_dict", "nf_cnf_dict"):
            r = o.entries.get(nm)
            if isinstance(r, Ref):
                names[r.oid] = nm
    return state_oid, names


class Backend:
    def __init__(self, name, cls, lex):
        self.name = name  # 'rc2' | 'z3'
        self.cls = cls
        self.lex = lex
        self.kind = "key" if name == "rc2" else "cond"
        self.role = self.kind

    def summaries(self):
        s = dict(wrappers.SUMMARIES)
        if self.name == "rc2":
            s.update(RC2_SUMMARIES)
        else:
            s[f"{self.cls}.get_all_xi_i"] = summary_get_all_xi_i
        ex = getattr(self, "_ex", None)
        if ex is not None:
            # pure Boolean helpers of the operator's module are used through their quantifier reading
            mod = self.cls.rsplit(".", 1)[0]
            for name in ("any_subset_of_all",):
                q = f"{mod}.{name}"
                if q in ex.prog.functions:
                    from ..harness import bool_helper_summary
                    s[q] = bool_helper_summary(ex, q)
        return s

    def hooks(self):
        return dict(RC2_HOOKS) if self.name == "rc2" else {}

    def state(self, I, query_slots=True):
        if self.name == "rc2":
            st = {"partition": P_value("key")}
            st.update(rc2_state(I, query_slots=False))
            if query_slots:
                # the query's CNFs are placed where the operator's own `_inference` puts them (W.query-slot)
                who = ("obj", "previous-query") if query_slots == "prev" else QUERY
                for container, key, kind in (self.qslots or []):
                    val = cnf_value(verification(who) if kind == "v" else falsification(who))
                    if container == "state":
                        st[key] = val
                    else:
                        I.deref(st[container]).entries[key] = val
            return st, Const("rc2")
        return {"partition": P_value("cond", CONDZ3_CLASS)}, Const("z3")

    qslots = None

    def discover_query_slots(self, ex, _bind=True):
        """Where does `_inference` store the CNFs of the query's verification / falsification?"""
        self._ex = ex
        if self.name != "rc2" or self.qslots is not None:
            return self.qslots
        site, paths = entry_paths(None, ex, self)
        found = []
        for p in paths:
            state_oid, names = _state_of_path(p)
            for ev, Q in iter_events(p.events):
                if ev.kind == "dict.set" and isinstance(ev.obj, Ref) and isinstance(ev.value, ElemV) and ev.value.role == "cnf" and isinstance(ev.key, Const) and not Q:
                    f = ev.value.var[1]
                    kind = "v" if F.equiv(f, verification(QUERY)) else ("f" if F.equiv(f, falsification(QUERY)) else None)
                    if kind is None:
                        continue
                    container = "state" if ev.obj.oid == state_oid else names.get(ev.obj.oid)
                    if container and (container, ev.key.value, kind) not in found:
                        found.append((container, ev.key.value, kind))
        self.qslots = found
        return found

    def rec_setup(self):
        def setup(I):
            bb = make_belief_base(I)
            st, pm = self.state(I)
            es = make_epistemic_state(I, bb, "x", extra=st, pmaxsat=pm)
            s = I.alloc(HObj(self.cls, {"epistemic_state": es}))
            if self.name == "rc2":
                w = I.alloc(HWcnf(hard=[HEAD]))
                if self.lex:
                    w2 = I.alloc(HWcnf(hard=[HEAD_F]))
                    return [s, w, w2, LinV(K), Sym("deadline")], {}
                return [s, w, LinV(K), Sym("deadline")], {}
            q = make_query(CONDZ3_CLASS)
            o = I.alloc(HSolver("z3.Optimize", frames=[[HEAD]]))
            if self.lex:
                o2 = I.alloc(HSolver("z3.Optimize", frames=[[HEAD_F]]))
                return [s, o, o2, LinV(K), q], {}
            return [s, o, LinV(K), q], {}

        return setup


def summary_get_all_xi_i(I, fi, args, kwargs, node):
    """z3 back-end: get_all_xi_i(opt, part) - summary established by Z3MCS.* : all inclusion-minimal sets of
    conditionals of ``part`` falsified under the optimizer's hard items."""
    opt, part = args[1], args[2]
    cid = I.fresh_id("mcs")
    I.log("mcs", node, cid=cid, wcnf=opt, snap=I.snapshot(opt), ignore=None, ignore_view=None, deadline=Const(None), part=part)
    return ElemV(("mcs", cid), "coll", "set", "cond")


# ----------------------------------------------------------------------------------------------
def side_items(be: Backend, ev):
    """(hard items, soft owner description) of one minimal-correction-set computation."""
    snap = ev.snap
    if snap[0] == "wcnf":
        hard, soft = wcnf_view(snap)
        return hard, soft
    if snap[0] == "solver":
        hard = list(flat(snap[3]))
        # z3: the soft items are added by get_all_xi_i for the conditionals of ``part`` (Z3MCS.soft)
        part = ev.data.get("part")
        soft = [("part", part.var if isinstance(part, ElemV) else desc(part))]
        return hard, soft
    raise AnalysisError(f"unknown snapshot {snap[0]}")


def classify_side(hard, heads):
    """Which side is this computation: returns ('v'|'f'|None, head, rest items)."""
    cset = [canon_item(i) for i in hard]
    head = None
    for h in heads:
        if h in hard:
            head = h
    rest = [i for i in hard if i not in heads]
    role = None
    for i in rest:
        if i[0] == "f":
            if F.equiv(i[1], verification(QUERY)):
                role = "v"
            elif F.equiv(i[1], falsification(QUERY)):
                role = "f"
    return role, head, rest


def expected_soft(be: Backend, k_lin):
    if be.name == "rc2":
        return [("each", ("var", "_s"), layer_fam(k_lin), PTRUE, ("soft", ("f", material(("var", "_s"))), ("c", 1)))]
    return [("part", ("at", PVAR, ("lin", k_lin)))]


def check_sides(rep, be: Backend, site, p, prefix):
    """W.soft/hard (LEX.soft/hard): the two computations of a path."""
    sides = {}
    heads = [HEAD, HEAD_F]
    for ev, Q in iter_events(p.events):
        if ev.kind != "mcs" or Q:
            continue
        hard, soft = side_items(be, ev)
        role, head, rest = classify_side(hard, heads)
        where = f"{site}:{ev.node.lineno}"
        if role is None:
            rep.violation(f"{prefix}.soft/hard", where, "query constraint", "each computation adds the query's verification or falsification to the incoming hard constraints",
                          extracted=show_items(rest), required="{Q.A∧Q.B} or {Q.A∧¬Q.B}", function=site)
            continue
        want_head = HEAD if (role == "v" or not be.lex) else HEAD_F
        qf = verification(QUERY) if role == "v" else falsification(QUERY)
        ok = canon_items(hard) == canon_items([want_head, ("f", qf)])
        rep.check(ok, f"{prefix}.soft/hard", where, f"{role}-side hard items", f"hard = incoming hard constraints ∪ {{{'verification' if role == 'v' else 'falsification'}(Q)}}",
                  extracted=show_items(hard), required=show_items([want_head, ("f", qf)]), function=site)
        want_soft = expected_soft(be, K)
        ok = canon_items(soft) == canon_items(want_soft)
        rep.check(ok, f"{prefix}.soft/hard", where, f"{role}-side soft items", "soft = ¬falsification(c), weight 1, for every c of layer k",
                  extracted=show_items(soft), required=show_items(want_soft), function=site)
        if be.name == "rc2":
            check_ignore(rep, site, ev, prefix)
        sides[role] = ev
    return sides


def check_ignore(rep, site, ev, prefix):
    """(W.ignore is decided by ignore_evaluated, once per operator, on concrete partitions.)"""
    return


def _ignore_materialised(prog):
    """Does the enumeration turn its `ignore` argument into a collection of its own before testing membership (then an
    iterator is as good as a list)?"""
    import ast as _ast

    fi = prog.lookup_method("inference.optimizer.OptimizerRC2", "minimal_correction_subsets")
    if fi is None:
        return False
    for x in fi.node.body:
        if isinstance(x, _ast.Assign) and any(isinstance(t, _ast.Name) and t.id == "ignore" for t in x.targets) and isinstance(x.value, _ast.Call) \
                and isinstance(x.value.func, _ast.Name) and x.value.func.id in ("set", "frozenset", "list", "tuple", "sorted") \
                and len(x.value.args) == 1 and isinstance(x.value.args[0], _ast.Name) and x.value.args[0].id == "ignore":
            return True
    return False


def ignore_evaluated(rep, ex: Explorer, be: Backend, prefix):
    """W.ignore / LEX.ignore: the ignore list is the complement of the soft owners - the keys of every layer other than k.
    Decided by evaluating `_rec_inference` on concrete partitions of 1..4 layers (layers of one and two keys) at every
    layer index k and reading the list handed to every minimal-correction-set computation, however it is built."""
    qual = f"{be.cls}._rec_inference"
    site = fn_label(ex.prog, qual)
    be.discover_query_slots(ex)
    bad = None
    n_calls = 0
    line = None
    for n in (1, 2, 3, 4):
        layers = [[10 * j + i for i in range(1, 2 + j % 2)] for j in range(n)]
        for k in range(n):
            def setup(I, layers=layers, k=k):
                bb = make_belief_base(I)
                st, pm = be.state(I)
                st["partition"] = I.alloc(HList([("one", I.alloc(HList([("one", Const(x)) for x in L]))) for L in layers]))
                es = make_epistemic_state(I, bb, "x", extra=st, pmaxsat=pm)
                s = I.alloc(HObj(be.cls, {"epistemic_state": es}))
                w = I.alloc(HWcnf(hard=[HEAD]))
                if be.lex:
                    return [s, w, I.alloc(HWcnf(hard=[HEAD_F])), Const(k), Sym("deadline")], {}
                return [s, w, Const(k), Sym("deadline")], {}

            paths = ex.run(qual, setup, summaries=be.summaries(), key=f"ignore-{be.cls}-{n}-{k}", hooks=be.hooks())
            want = {x for j, L in enumerate(layers) if j != k for x in L}
            for p in paths:
                for ev, Q in iter_events(p.events):
                    if ev.kind != "mcs":
                        continue
                    n_calls += 1
                    line = line or ev.node.lineno
                    if ev.data.get("ignore_one_shot") and bad is None and not _ignore_materialised(ex.prog):
                        bad = f"layers {layers} at layer {k}: the ignore argument is an iterator (generator / chain): every membership test of the enumeration advances it, so later tests and the next computation find less than the keys of the other layers"
                    if ev.ignore is None:
                        got = set()
                    else:
                        o = p.state.heap.get(ev.ignore.oid) if isinstance(ev.ignore, Ref) else None
                        if not (isinstance(o, HList) and all(sg[0] == "one" and isinstance(sg[1], Const) for sg in o.segs)):
                            raise AnalysisError(f"{site}:{ev.node.lineno}: the ignore argument is not a list of keys on a concrete partition: {view(p.state, ev.ignore)!r}"[:300])
                        got = {sg[1].value for sg in o.segs}
                    if got != want and bad is None:
                        miss, extra = sorted(want - got), sorted(got - want)
                        own = [x for x in extra if x in layers[k]]
                        bad = f"layers {layers} at layer {k}: " + (f"keys {miss} of other layers are not ignored" if miss else "") + (" and " if miss and extra else "") + \
                            (f"keys {own} of layer {k} itself are ignored although they are the soft owners" if own else (f"keys {extra} that are in no other layer are ignored" if extra else ""))
    rep.check(bad is None, f"{prefix}.ignore", f"{site}:{line}" if line else site, "ignored owners", "ignore = keys of all layers other than k (complement of the soft owners): a conditional of another layer that the optimum falsifies must not be reported in place of one of layer k",
              extracted=bad or f"keys of the other layers (every computation on partitions of 1..4 layers, {n_calls} calls)", required="keys of the layers ≠ k", function=site)
    rep.floor(f"{prefix}.ignore computations evaluated ({be.cls.rsplit('.', 1)[1]})", n_calls, 20)


def incoming_unchanged(rep, site, p, prefix):
    """The WCNF handed in belongs to the caller, which goes on using it for its next tie: it is copied, not extended."""
    for ev, Q in iter_events(p.events):
        if ev.kind == "enter" and not Q:
            for a in ev.args:
                if isinstance(a, Ref):
                    o = p.state.heap.get(a.oid)
                    if isinstance(o, HWcnf):
                        ok = list(o.hard) == [HEAD] and not o.soft
                        rep.check(ok, f"{prefix}.balance", site, "incoming constraints untouched", "the constraint object of the caller is copied, not extended (the caller reuses it for the next tie)",
                                  extracted=show_items([norm_witem(i) for i in o.hard]) + (" soft " + show_items([norm_witem(i) for i in o.soft]) if o.soft else ""), required=show_items([HEAD]), function=site)
            break


def check_balance(rep, site, p, prefix):
    """Scope balance of incremental optimizers: what a tie pushes is popped before the next tie; nothing pops below
    the scope of entry."""
    for ev, Q in iter_events(p.events):
        if ev.kind in ("loop.unbalanced", "solver.pop-below"):
            rep.violation(f"{prefix}.balance", f"{site}:{getattr(ev.node, 'lineno', '?')}", "scope balance", "constraints of one tie stay in scope for the next (push without pop) or a scope is popped below entry",
                          extracted=f"{ev.kind} {ev.data.get('extra', '')}", required="push/pop balanced per tie", function=site)


# ----------------------------------------------------------------------------------------------
def tie_items(be: Backend, head, tvar, k_lin=K):
    """Hard items of the recursive call when the tie set t is fixed: falsification for members, non-falsification
    for the rest of layer k."""
    L = ("at", PVAR, ("lin", k_lin))
    x = ("var", "_t")
    role = be.role
    mem = ("each", x, ("members", L), ("in", ("elem", x, role), tvar), ("f", falsification(x)))
    rest = ("each", x, ("members", L), ("not", ("in", ("elem", x, role), tvar)), ("f", material(x)))
    return [head, mem, rest]


def norm_setdiff(item):
    """each over (X − Y)  ==  each over X with guard ¬in(elem, Y)"""
    if item[0] == "each":
        _, b, fam, g, inner = item
        inner = norm_setdiff(inner)
        if fam[0] == "members" and isinstance(fam[1], tuple) and fam[1][:2] == ("setop", "-"):
            X, Y = fam[1][2], fam[1][3]
            g2 = ("not", ("in", ("elem", b, "key"), Y))
            if g == PTRUE:
                return ("each", b, ("members", X), g2, inner)
        return ("each", b, fam, g, inner)
    return item


def rec_hard(be: Backend, r):
    out = []
    for s in r.snap:
        if s[0] == "wcnf":
            hard, soft = wcnf_view(s)
            out.append(([norm_setdiff(i) for i in hard], soft))
        elif s[0] == "solver":
            out.append(([norm_setdiff(i) for i in flat(s[3])], list(flat(s[4]))))
    return out


def _pred_formula(p):
    k = p[0]
    if k == "const":
        return ("const", p[1])
    if k == "not":
        return ("not", _pred_formula(p[1]))
    if k in ("and", "or"):
        return (k, tuple(_pred_formula(q) for q in p[1]))
    return ("opaque", p)


def merge_guarded(items, subsets=None, role="key"):
    """Canonical form of an item set: `each over a subset t of L` becomes `each over L guarded by membership in t`,
    items that differ only in their guard are merged (guards or-ed) and guards are compared by truth table."""
    subsets = subsets or {}
    groups = {}
    plain = []
    x = ("var", "_g")
    for it in items:
        it = norm_setdiff(it)
        if it[0] == "each":
            _, b, fam, g, inner = it
            if fam[0] == "members" and fam[1] in subsets:
                g = ("and", (("in", ("elem", b, role), fam[1]), g)) if g != PTRUE else ("in", ("elem", b, role), fam[1])
                fam = ("members", subsets[fam[1]])
            m = {b: x}
            key = (F.subst_any(fam, m), canon_item(F.subst_any(inner, m), 1))
            groups.setdefault(key, []).append(_pred_formula(F.subst_any(g, m)))
        else:
            plain.append(canon_item(it))
    out = set(plain)
    for (fam, inner), gs in groups.items():
        g = F.canon(("or", tuple(gs)))
        if g == ("canon", (), (False,)):
            continue
        out.add(("each", fam, g, inner))
    return frozenset(out)


def equiv_items(a, b, subsets=None, role="key"):
    """Item-set equality modulo truth tables, guard merging and subset/guard presentation."""
    return merge_guarded(a, subsets, role) == merge_guarded(b, subsets, role)


# ----------------------------------------------------------------------------------------------
def w_rec(rep, ex: Explorer, be: Backend):
    """W.soft/hard, W.ignore, W.subset-test, W.decision on `_rec_inference`."""
    qual = f"{be.cls}._rec_inference"
    site = fn_label(ex.prog, qual)
    be.discover_query_slots(ex)
    I_hooks = be.hooks()
    paths = ex.run(qual, be.rec_setup(), summaries=be.summaries(), key=f"wrec-{be.name}", hooks=I_hooks)
    if be.name == "rc2":
        ignore_evaluated(rep, ex, be, "W")
    n_rows = 0
    for p in paths:
        if p.outcome[0] == "raise":
            continue
        check_balance(rep, site, p, "W")
        if be.name == "rc2":
            incoming_unchanged(rep, site, p, "W")
        sides = check_sides(rep, be, site, p, "W")
        if set(sides) != {"v", "f"}:
            rep.violation("W.soft/hard", site, "two sides", "minimal correction sets are computed for the verification and for the falsification of the query",
                          extracted=str(sorted(sides)), required="v and f", function=site)
            continue
        V = ("mcs", sides["v"].cid)
        Fm = ("mcs", sides["f"].cid)
        # ---- decisions of the path
        S = K0 = X = E = None
        EMPT = {}
        loop_ev = None
        for key, val in p.decisions:
            if key[0] in ("forall", "exists", "not") or (key[0] == "subset"):
                S = (key, val)
            elif key[0] == "cmp" and key[2][0] == "lin" and all(t == "k" for t, _ in key[2][1][0]):
                K0 = (key, val)
            elif key[0] == "loopexit":
                X = val
            elif key[0] in ("partfalse", "mcs-timeout"):
                continue
            elif key[0] == "empty" and isinstance(key[1], tuple) and key[1][:2] == ("setop", "&") and set(key[1][2:]) == {V, Fm}:
                E = val  # "are there ties at all", asked in front of the tie loop
            elif key[0] == "empty" and key[1] in (V, Fm):
                EMPT[key[1]] = val  # one of the two families asked for emptiness in front of the comparison
            elif key[0] == "truthy" and isinstance(key[1], tuple) and key[1][:1] == ("acc",):
                # a value a loop left behind (that of its last round) is consulted after the loop
                rep.violation("W.decision", site, "every tie", "the answer of the recursion is consulted for every tie, inside the loop over the ties",
                              extracted=f"the variable `{key[1][2]}` is consulted after the loop: only the tie handled last decides", required="a test per tie", function=site)
                S = "reported"
                break
            else:
                raise AnalysisError(f"{site}: outcome depends on {key!r}")
        if S == "reported":
            continue
        if S is None and EMPT and isinstance(_bool_outcome(p), bool):
            # a short cut in front of the comparison: the answer is a constant once a family is known to be empty (or not) -
            # compared with ∀y∈F ∃x∈V: x⊆y on every pair of families with that emptiness
            out = _bool_outcome(p)
            spec = ("forall", ("var", "y"), ("members", Fm), PTRUE, ("exists", ("var", "x"), ("members", V), PTRUE, ("subset", ("var", "x"), ("var", "y"))))
            bad = None
            for fv in _families():
                for ff in _families():
                    fams = {V: fv, Fm: ff}
                    if any((len(fams[k_]) == 0) != v_ for k_, v_ in EMPT.items()):
                        continue
                    if eval_setpred(spec, fams, {}) != out and bad is None:
                        bad = f"V={[sorted(x) for x in fv]}, F={[sorted(x) for x in ff]}"
            n_rows += 1
            how = ", ".join(f"{'V' if k_ == V else 'F'} {'empty' if v_ else 'not empty'}" for k_, v_ in EMPT.items())
            rep.check(bad is None, "W.decision", site, f"short cut ({how})", "an answer given without the comparison is the one the comparison would give: ∀y∈F ∃x∈V: x⊆y",
                      extracted=f"{out}" + (f", but the comparison gives {not out} for {bad}" if bad else " on every such pair of families"), required="∀y∈F ∃x∈V: x⊆y", function=site)
            continue
        if S is None:
            rep.violation("W.subset-test", site, "subset test", "the answer is decided without comparing the two families of minimal correction sets",
                          extracted="no comparison", required="∀y∈F ∃x∈V: x⊆y", function=site)
            continue
        # ---- W.subset-test by evaluation on all small models
        skey, sval = S
        bad = subset_test_mismatch(skey, V, Fm)
        if bad is not None and subset_test_mismatch(("not", skey), V, Fm) is None:
            # the test written through its negation (not any(all(not x ⊆ y ...))): the decided predicate is ¬spec
            skey, sval, bad = ("not", skey), (not sval), None
        rep.check(bad is None, "W.subset-test", site, "subset test", "every falsifying correction set has a verifying subset: ∀y∈F ∃x∈V: x⊆y",
                  extracted=show_pred(skey) + (f" differs for {bad}" if bad else ""), required="∀y∈F ∃x∈V: x⊆y", function=site)
        if bad is not None:
            continue
        out = _bool_outcome(p)
        n_rows += 1
        if sval is False:
            rep.check(out is False, "W.decision", site, "no verifying subset", "some falsifying set without a verifying subset ⇒ False", extracted=str(out), required="False", function=site)
            continue
        # ---- tie loop
        loops = [ev for ev, Q in iter_events(p.events) if ev.kind == "loop" and not Q and ev.data.get("exits")]
        tie = [ev for ev, Q in iter_events(p.events) if ev.kind == "loop" and not Q and ev.fam[0] == "members" and isinstance(ev.fam[1], tuple) and ev.fam[1][:2] == ("setop", "&")]
        rv = p.outcome[1] if p.outcome[0] == "return" else None
        if isinstance(rv, PredV):
            # the answer handed back as a condition instead of being branched on (`return not ties`, `return all(... for
            # t in ties)`): read as the two answers it stands for
            # evaluated on every small situation: 0..2 ties, every combination of answers of the recursion below them
            k0 = _k_is_zero(K0) if K0 is not None else None
            n_rows += 1  # (the path stands for two rows)

            def ev_ret(q, n_ties, recs, cur=None):
                k_ = q[0]
                if k_ == "const":
                    return q[1]
                if k_ == "not":
                    return not ev_ret(q[1], n_ties, recs, cur)
                if k_ in ("and", "or"):
                    vals = [ev_ret(x, n_ties, recs, cur) for x in q[1]]
                    return all(vals) if k_ == "and" else any(vals)
                if k_ == "empty" and isinstance(q[1], tuple) and q[1][:2] == ("setop", "&") and set(q[1][2:]) == {V, Fm}:
                    return n_ties == 0
                if k_ in ("forall", "exists") and q[2][0] == "members" and isinstance(q[2][1], tuple) and q[2][1][:2] == ("setop", "&") and set(q[2][1][2:]) == {V, Fm} and q[3] == PTRUE:
                    vals = [ev_ret(q[4], n_ties, recs, i) for i in range(n_ties)]
                    return all(vals) if k_ == "forall" else any(vals)
                if k_ == "truthy" and isinstance(q[1], tuple) and q[1][:1] == ("rec",) and cur is not None:
                    return recs[cur]
                raise KeyError(q)

            recs_in_loop = [ev for ev, Q in iter_events(p.events) if ev.kind == "recurse"]
            bad = None
            try:
                for kz in ([k0] if k0 is not None else [True, False]):
                    for n_ties in (0, 1, 2):
                        if (E is True and n_ties > 0) or (E is False and n_ties == 0):
                            continue
                        for recs in product((True, False), repeat=n_ties):
                            want = (n_ties == 0) if kz else all(recs)
                            got = ev_ret(rv.p, n_ties, recs)
                            if got != want and bad is None:
                                bad = (kz, n_ties, recs, got, want)
            except KeyError:
                raise AnalysisError(f"{site}: the answer is a condition this rule cannot read: {show_pred(rv.p)[:200]}")
            if bad is not None:
                kz, n_ties, recs, got, want = bad
                if kz:
                    rep.violation("W.decision", site, "tie at layer 0", "a tie at the lowest layer ⇒ False, no tie ⇒ True (no recursion below layer 0)",
                                  extracted=f"{got} with {n_ties} tie(s) at layer 0 (answer: {show_pred(rv.p)[:120]})", required=str(want), function=site)
                else:
                    rep.violation("W.decision", site, "failing tie" if want is False else "all ties pass (k>0)", "above the lowest layer the answer is True exactly when the continuation of every tie holds",
                                  extracted=f"{got} with {n_ties} tie(s) whose continuations answer {list(recs)} (answer: {show_pred(rv.p)[:120]})", required=str(want), function=site)
                continue
            if k0 is not False and E is not True and recs_in_loop:
                rep.violation("W.decision", site, "tie at layer 0", "the recursion below a tie is not guarded against layer 0", extracted="no test of k" if K0 is None else "k may be 0", required="k=0 ⇒ False", function=site)
            if tie and k0 is not True:
                _check_tie_recursion(rep, be, site, tie[-1], p, lex=False)
            continue
        if E is True:
            if X not in (None, "complete"):
                continue  # infeasible: the tie loop cannot be left at a member of a family just found empty
            rep.check(out is True, "W.decision", site, "no ties", "no tie fails ⇒ True", extracted=str(out), required="True", function=site)
            continue
        if E is False and not tie and K0 is not None and _k_is_zero(K0) is True:
            recs0 = [ev for ev, Q in iter_events(p.events) if ev.kind == "recurse"]
            rep.check(out is False and not recs0, "W.decision", site, "tie at layer 0", "a tie at the lowest layer ⇒ False (no recursion below layer 0)",
                      extracted=f"{out}, {len(recs0)} recursive call(s)", required="False, none", function=site)
            continue
        if not tie:
            rep.violation("W.decision", site, "tie family", "ties are the sets that are minimal on both sides (V∩F)", extracted="no loop over V∩F", required="loop over V∩F", function=site)
            continue
        tl = tie[-1]
        ok = set(tl.fam[1][2:]) == {V, Fm}
        rep.check(ok, "W.decision", f"{site}:{tl.node.lineno}", "tie family", "ties are the sets that are minimal on both sides (V∩F)", extracted=F.show_desc(tl.fam), required="V∩F", function=site)
        k0 = None
        if K0 is not None:
            k0 = _k_is_zero(K0)
        if X == "complete" or X is None:
            # no tie made the loop leave early
            rep.check(out is True, "W.decision", site, f"all ties pass (k{'=0' if k0 else '>0' if k0 is False else '?'})", "no tie fails ⇒ True", extracted=str(out), required="True", function=site)
            # every tie was handed to the recursion when k>0
            if k0 is not True:
                _check_tie_recursion(rep, be, site, tl, p, lex=False)
            continue
        case = tl.exits[X]
        g = [(k_, v_) for k_, v_ in case.guard]
        recs = [ev for ev, Q in iter_events(case.events) if ev.kind == "recurse"]
        if k0 is True:
            rep.check(out is False and not recs, "W.decision", site, "tie at layer 0", "a tie at the lowest layer ⇒ False (no recursion below layer 0)",
                      extracted=f"{out}, {len(recs)} recursive call(s)", required="False, none", function=site)
        else:
            if K0 is None:
                rep.violation("W.decision", site, "tie at layer 0", "the recursion below a tie is not guarded against layer 0", extracted="no test of k", required="k=0 ⇒ False", function=site)
            # exit because a recursive answer was False
            rec_false = any(k_[0] == "truthy" and isinstance(k_[1], tuple) and k_[1][:1] == ("rec",) and v_ is False for k_, v_ in g)
            rep.check(out is False and rec_false, "W.decision", site, "failing tie", "a tie whose continuation fails ⇒ False", extracted=f"{out} on {g}", required="False when the recursive answer is False", function=site)
            _check_tie_recursion(rep, be, site, tl, p, lex=False)
    rep.floor(f"W decision rows ({be.name})", n_rows, 4)


def _k_is_zero(K0):
    key, val = K0
    lin = key[2][1]
    from .. import depth
    for kv in depth.card_range():
        x = sum(c * kv for t, c in lin[0]) + lin[1]
        holds = (x == 0) if key[1] == "==" else (x < 0)
        if holds == val:
            if kv == 0:
                # consistent with k=0; is it consistent with k>0 as well?
                x1 = sum(c * 1 for t, c in lin[0]) + lin[1]
                h1 = (x1 == 0) if key[1] == "==" else (x1 < 0)
                return False if h1 == val else True
            return False
    return None


def _bool_outcome(p):
    if p.outcome[0] != "return":
        return None
    rv = p.outcome[1]
    if isinstance(rv, Const) and isinstance(rv.value, bool):
        return rv.value
    return repr(rv)


def _check_tie_recursion(rep, be: Backend, site, tl, p, lex):
    """W.decision (recursion arguments): for a generic tie t the recursive call receives k-1 and
    hard ∪ {falsification(c): c∈t} ∪ {¬falsification(c): c∈P[k]∖t}."""
    tvar = tl.evar
    for case in list(tl.cases):
        for ev, Q in iter_events(case.events):
            if ev.kind != "recurse":
                continue
            idx = _index_arg(ev)
            rep.check(idx == F.lin_add(K, F.lin_const(-1)), "W.decision", f"{site}:{ev.node.lineno}", "recursion index", "a tie continues with the next lower layer",
                      extracted=F.show_lin(idx) if idx else "?", required="k-1", function=site)
            hs = rec_hard(be, ev)
            if len(hs) != 1:
                rep.violation("W.decision", f"{site}:{ev.node.lineno}", "recursion constraints", "one constraint object is handed down", extracted=f"{len(hs)}", required="1", function=site)
                continue
            hard, soft = hs[0]
            want = tie_items(be, HEAD, tvar)
            ok = equiv_items(hard, want, {tvar: ("at", PVAR, ("lin", K))}, be.role)
            rep.check(ok, "W.decision", f"{site}:{ev.node.lineno}", "recursion constraints", "the tie is fixed: falsification for its members, non-falsification for the rest of the layer",
                      extracted=show_items(hard), required=show_items(want), function=site)


# ----------------------------------------------------------------------------------------------
# evaluation of set predicates on small finite models
# ----------------------------------------------------------------------------------------------
_SETS = [frozenset(), frozenset({1}), frozenset({2}), frozenset({1, 2})]


def _families():
    """All families of subsets of the universe (quick: {1,2}, 16 families; thorough: {1,2,3}, 256 families)."""
    from itertools import combinations
    from .. import depth

    u = depth.universe()
    sets = [frozenset(c) for r in range(len(u) + 1) for c in combinations(u, r)]
    for mask in range(1 << len(sets)):
        yield [s for i, s in enumerate(sets) if mask >> i & 1]


def eval_setpred(p, fams, env):
    k = p[0]
    if k == "const":
        return p[1]
    if k == "not":
        return not eval_setpred(p[1], fams, env)
    if k == "and":
        return all(eval_setpred(q, fams, env) for q in p[1])
    if k == "or":
        return any(eval_setpred(q, fams, env) for q in p[1])
    if k in ("forall", "exists"):
        _, b, fam, g, body = p
        if fam[0] != "members" or fam[1] not in fams:
            raise KeyError(fam)
        vals = []
        for e in fams[fam[1]]:
            env2 = dict(env)
            env2[b] = e
            if g != PTRUE and not eval_setpred(g, fams, env2):
                continue
            vals.append(eval_setpred(body, fams, env2))
        return all(vals) if k == "forall" else any(vals)
    if k == "subset":
        return env[p[1]] <= env[p[2]]
    if k == "empty":
        if p[1] in fams:
            return not fams[p[1]]
        return not env[p[1]]
    raise KeyError(p)


def subset_test_mismatch(pred, V, Fm):
    """Compare the code's comparison predicate with ∀y∈F ∃x∈V: x⊆y on every pair of families over {∅,{1},{2},{1,2}}."""
    spec = ("forall", ("var", "y"), ("members", Fm), PTRUE, ("exists", ("var", "x"), ("members", V), PTRUE, ("subset", ("var", "x"), ("var", "y"))))
    for fv in _families():
        for ff in _families():
            fams = {V: fv, Fm: ff}
            try:
                got = eval_setpred(pred, fams, {})
            except KeyError as e:
                raise AnalysisError(f"comparison predicate not interpretable: {e}")
            want = eval_setpred(spec, fams, {})
            if got != want:
                return f"V={[sorted(s) for s in fv]}, F={[sorted(s) for s in ff]}"
    return None


# ----------------------------------------------------------------------------------------------
# `_inference` of the MaxSAT-based operators
# ----------------------------------------------------------------------------------------------
def entry_paths(rep, ex: Explorer, be: Backend, history=False):
    """`_inference` explored on a fresh state, or (history=True) on the state an earlier query left behind."""
    def extra(I):
        st, pm = be.state(I, query_slots="prev" if history else False)
        st.pop("partition", None)
        return st

    return inference_entry(rep, ex, be.cls, kind=be.kind, extra_state=extra, key=f"entry-{be.name}-{'hist' if history else 'fresh'}", pcls=CONDZ3_CLASS if be.name == "z3" else "",
                           summaries=be.summaries(), hooks=be.hooks(), pmaxsat=Const("rc2") if be.name == "rc2" else Const("z3"))


def rec_objects(be: Backend, rc):
    """Hard item sets of the constraint objects handed to the recursive core (one for W, two for lex)."""
    out = []
    for s in rc.snap:
        if s[0] == "wcnf":
            hard, soft = wcnf_view(s)
            out.append((hard, soft))
        elif s[0] == "solver":
            soft = [i for i in flat(s[4]) if not (i[0] == "soft" and i[1] == ("f", F.TRUE))]
            out.append((list(flat(s[3])), soft))
    return out


def query_slots(rep, be: Backend, site, p, prefix, keys=False, history=False):
    """rc2: the query's CNFs are stored where `_rec_inference` reads them (the reader side is decided by
    W/LEX.soft/hard on a state seeded from these very stores); QUERYSLOT.def-before-use: both are written before the
    recursion starts; KEY.no-reserved: not under a literal key of a dictionary that is keyed by the base's keys."""
    state_oid, names = _state_of_path(p)
    evs = [ev for ev, Q in iter_events(p.events)]
    # the id pool of the state only grows: an operator that rewinds it after a query hands the ids of that query's variables
    # (and of the helper variables the enumeration took meanwhile) out again, for other things
    for ev in evs:
        if ev.kind == "attr.set" and ev.data.get("cls") == "IDPool":
            rep.violation("CNF.pool", f"{site}:{ev.node.lineno}", f"pool.{ev.attr} assigned", "ids handed out stay handed out: the pool of a state is never rewound", extracted=f"pool.{ev.attr} = {ev.value!r}"[:120], required="no assignment to the pool's counters", function=site)
    kinds = {}
    for i, ev in enumerate(evs):
        if ev.kind == "dict.set" and isinstance(ev.obj, Ref) and isinstance(ev.value, ElemV) and ev.value.role == "cnf":
            f = ev.value.var[1]
            kind = "v" if F.equiv(f, verification(QUERY)) else ("f" if F.equiv(f, falsification(QUERY)) else None)
            container = "state" if ev.obj.oid == state_oid else names.get(ev.obj.oid, "?")
            where = f"{site}:{ev.node.lineno}"
            rep.check(kind is not None, f"{prefix}.query-slot", where, f"{container}[{ev.key!r}]", "a CNF stored by `_inference` is that of the query's verification or falsification",
                      extracted=F.show(f), required="Q.A∧Q.B or Q.A∧¬Q.B", function=site)
            if kind:
                kinds[kind] = i
            if keys and container in ("f_cnf_dict", "nf_cnf_dict"):
                lit = isinstance(ev.key, Const)
                rep.check(not lit, "KEY.no-reserved", where, f"query slot of {container}", "the query is stored under a key that cannot collide with a key of the base (the per-conditional CNF dictionaries are keyed by the base's keys)",
                          extracted=f"literal key {ev.key.value!r}" if lit else repr(ev.key), required="a slot provably outside the base's keys", function=site)
            elif keys:
                rep.ok("KEY.no-reserved", where, f"query slot {container}[{ev.key!r}]", "the query has a slot of its own")
    rcs = [i for i, ev in enumerate(evs) if ev.kind in ("reccall", "mcs")]
    if rcs:
        first = min(rcs)
        okw = all(k in kinds and kinds[k] < first for k in ("v", "f"))
        rep.check(okw, "QUERYSLOT.def-before-use", site, "query slots written first" + (" (state of an earlier query present)" if history else ""), "both query slots are (re)written for the current query before the recursion reads them",
                  extracted=str({k: (v < first) for k, v in kinds.items()}), required="v and f written before use", function=site)


def w_entry(rep, ex: Explorer, be: Backend, strict=True, extended=False, prefix="W", keys=False, n_objects=1):
    site, paths = entry_paths(rep, ex, be)

    def strict_obj(p, rc, mode):
        objs = rec_objects(be, rc)
        ok = len(objs) == n_objects
        if not objs:
            # (none among the arguments: they travel inside something else - a record, a tuple - that this rule does not open)
            raise AnalysisError(f"{site}:{rc.node.lineno}: no constraint object among the arguments of the recursive call; the rule cannot see what the recursion starts from")
        rep.check(ok, f"{prefix}.start", f"{site}:{rc.node.lineno}", "constraint objects", f"{n_objects} constraint object(s) handed to the recursion", extracted=str(len(objs)), required=str(n_objects), function=site)
        oids = [s_[1] for s_ in rc.snap if s_[0] in ("wcnf", "solver")]
        rep.check(len(set(oids)) == len(oids), f"{prefix}.start", f"{site}:{rc.node.lineno}", "separate constraint objects", "each side has a constraint object of its own (what is fixed for one side must not constrain the other)",
                  extracted=f"{len(oids)} arguments, {len(set(oids))} distinct object(s)", required="distinct objects", function=site)
        for i, (hard, soft) in enumerate(objs):
            want = []
            if be.lex and be.name == "rc2":
                # lex rc2 passes two WCNFs that already carry the query (v-side / f-side)
                want = [("f", verification(QUERY))] if i == 0 else [("f", falsification(QUERY))]
            okh = canon_items(hard) == canon_items(want) and not soft
            rep.check(okh, f"{prefix}.start", f"{site}:{rc.node.lineno}", f"strict start constraints #{i}", "the strict recursion starts from the bare query constraints",
                      extracted=show_items(hard) + (" soft " + show_items(soft) if soft else ""), required=show_items(want), function=site)

    if be.name == "rc2":
        for p in paths:
            query_slots(rep, be, site, p, prefix, keys=keys)
        # the same on the state a previous query left behind (second call on one manager, later query of a batch)
        be.discover_query_slots(ex)
        _, hpaths = entry_paths(rep, ex, be, history=True)
        for p in hpaths:
            query_slots(rep, be, site, p, prefix, keys=False, history=True)
    if strict:
        start_strict(rep, site, paths, prefix, strict_obj)
    if extended:
        n = 0
        for p in paths:
            if decided(p, ("truthy", "weakly")) is not True:
                continue
            for ev, Q in iter_events(p.events):
                if ev.kind != "reccall":
                    continue
                n += 1
                start_total(rep, site, p, ev)
                objs = rec_objects(be, ev)
                oids = [s_[1] for s_ in ev.snap if s_[0] in ("wcnf", "solver")]
                rep.check(len(set(oids)) == len(oids) and len(objs) == n_objects, f"{prefix}.start", f"{site}:{ev.node.lineno}", "separate constraint objects (extended)", "each side has a constraint object of its own (what is fixed for one side must not constrain the other)",
                          extracted=f"{len(oids)} arguments, {len(set(oids))} distinct object(s)", required=f"{n_objects} distinct object(s)", function=site)
                for i, (hard, soft) in enumerate(objs):
                    want = [INF_ITEM]
                    if be.lex and be.name == "rc2":
                        want = want + ([("f", verification(QUERY))] if i == 0 else [("f", falsification(QUERY))])
                    ok = canon_items(hard) == canon_items(want)
                    rep.check(ok, "EXT.inf-hard", f"{site}:{ev.node.lineno}", f"infinity layer hard #{i}", "the object handed to the recursion carries ∀c∈P[-1]: material(c) as hard items",
                              extracted=show_items(hard), required=show_items(want), function=site)
        rep.floor(f"{prefix} extended entry paths ({be.name})", n, 1)
        explicit = any(ev.kind == "query" for p in paths for ev, Q in iter_events(p.events) if decided(p, ("truthy", "weakly")) is True)
        if explicit:
            got, want, _ = vacuity_guard(rep, site, paths)
            ok2, w2 = F.guard_implies(want, got)
            rep.check(ok2, "EXT.vacuity", site, "vacuous True is complete", "a query whose falsification has no feasible model is answered True",
                      extracted=F.show_guard(got) + (f" misses {w2}" if w2 else ""), required="⊇ " + F.show_guard(want), function=site)
        ext_terminal_answers(rep, site, paths, mcs_items=lambda ev: side_items(be, ev))
        if not explicit:
            rep.ok("EXT.vacuity", site, "vacuity through emptiness", "no explicit vacuity test: infeasible sides show as empty families of correction sets, decided by the subset test (W.subset-test rows with empty families) and the enumeration summary")
    return site, paths


# ----------------------------------------------------------------------------------------------
# lexicographic inference
# ----------------------------------------------------------------------------------------------
def _min_term_side(term, V, Fm):
    """Is a linear term 'min over the sizes of the sets of family X'?  returns 'v' / 'f' / None"""
    if isinstance(term, tuple) and term and term[0] == "min":
        segs = term[1]
        if len(segs) == 1 and segs[0][0] == "each" and segs[0][3] == PTRUE and segs[0][2][0] == "members":
            fam = segs[0][2][1]
            if segs[0][4] == ("len", segs[0][1]):
                if fam == V:
                    return "v"
                if fam == Fm:
                    return "f"
    return None


def lex_rec(rep, ex: Explorer, be: Backend):
    """LEX.soft/hard, LEX.cardinality on `_rec_inference` (generic families); ties are decided by lex_ties."""
    qual = f"{be.cls}._rec_inference"
    site = fn_label(ex.prog, qual)
    be.discover_query_slots(ex)
    paths = ex.run(qual, be.rec_setup(), summaries=be.summaries(), key=f"lexrec-{be.name}", hooks=be.hooks())
    if be.name == "rc2":
        ignore_evaluated(rep, ex, be, "LEX")
    n_rows = 0
    for p in paths:
        if p.outcome[0] == "raise":
            continue
        check_balance(rep, site, p, "LEX")
        sides = lex_sides(rep, be, site, p)
        if set(sides) != {"v", "f"}:
            rep.violation("LEX.soft/hard", site, "two sides", "minimal correction sets are computed for the verification and for the falsification side",
                          extracted=str(sorted(sides)), required="v and f", function=site)
            continue
        V = ("mcs", sides["v"].cid)
        Fm = ("mcs", sides["f"].cid)
        facts = []  # (kind, payload, value)
        tie = False
        for key, val in p.decisions:
            if key == ("empty", V):
                facts.append(("EV", None, val))
            elif key == ("empty", Fm):
                facts.append(("EF", None, val))
            elif key[0] == "cmp" and key[2][0] == "lin":
                lin = key[2][1]
                sides_in = {}
                okl = True
                for t, c in lin[0]:
                    sd = _min_term_side(t, V, Fm)
                    if sd is None:
                        okl = False
                    else:
                        sides_in[sd] = sides_in.get(sd, 0) + c
                if okl and lin[0]:
                    facts.append(("CMP", (key[1], sides_in, lin[1]), val))
                elif all(t == "k" for t, _ in lin[0]):
                    tie = True
                elif any(isinstance(t, tuple) and t and t[0] == "max" for t, _ in lin[0]):
                    rep.violation("LEX.cardinality", site, "compared quantity", "the layers are compared by the minimum cardinality of the correction sets of each side",
                                  extracted="a maximum over the sets of a side", required="min |x| over V vs min |y| over F", function=site)
                    facts = None
                    break
                else:
                    raise AnalysisError(f"{site}: comparison not over the minimum cardinalities of the two sides: {key!r}")
            elif key[0] == "loopexit":
                tie = True
            elif key[0] in ("partfalse", "mcs-timeout"):
                continue
            elif key[0] == "truthy" and isinstance(key[1], tuple) and key[1][:1] == ("acc",):
                rep.violation("LEX.cardinality", site, "every tie", "the answer of the recursion is consulted for every pair of tied sets, inside the loops over them",
                              extracted=f"the variable `{key[1][2]}` is consulted after the loop: only the pair handled last decides", required="a test per pair", function=site)
                facts = None
                break
            else:
                raise AnalysisError(f"{site}: outcome depends on {key!r}")
        if facts is None:
            continue
        out0 = _bool_outcome(p)
        pr_out = None
        if p.outcome[0] == "return" and out0 not in (True, False):
            from ..harness import returned_bool
            pr_out = returned_bool(None, p.outcome[1])

        def eval_out(pr, EV, EF, mv, mf):
            """The returned comparison evaluated in one row (an answer returned as `mv < mf` instead of tested and returned)."""
            k = pr[0]
            if k == "const":
                return pr[1]
            if k == "not":
                r = eval_out(pr[1], EV, EF, mv, mf)
                return None if r is None else (not r)
            if k in ("and", "or"):
                rs = [eval_out(q, EV, EF, mv, mf) for q in pr[1]]
                if None in rs:
                    return None
                return all(rs) if k == "and" else any(rs)
            if pr == ("empty", V):
                return EV
            if pr == ("empty", Fm):
                return EF
            if k == "cmp" and pr[1] in ("==", "<") and isinstance(pr[2], tuple) and pr[2][0] == "lin" and pr[3] == ("c", 0):
                x = pr[2][1][1]
                for t, c in pr[2][1][0]:
                    sd = _min_term_side(t, V, Fm)
                    if sd is None:
                        return None
                    x += c * (mv if sd == "v" else mf)
                return (x == 0) if pr[1] == "==" else (x < 0)
            return None

        from .. import depth
        for EV, EF, mv, mf in product((True, False), (True, False), depth.card_range(), depth.card_range()):
            out = out0
            if pr_out is not None:
                out = eval_out(pr_out, EV, EF, mv, mf)
                if out is None:
                    out = out0
            ok = True
            for kind, payload, val in facts:
                if kind == "EV":
                    ok &= (EV == val)
                elif kind == "EF":
                    ok &= (EF == val)
                else:
                    op, cs, const = payload
                    x = cs.get("v", 0) * mv + cs.get("f", 0) * mf + const
                    ok &= (((x == 0) if op == "==" else (x < 0)) == val)
            if not ok:
                continue
            if EV and EF:
                continue  # cannot occur behind the short cuts; left unconstrained
            if EV:
                want = False
            elif EF:
                want = True
            elif mv < mf:
                want = True
            elif mf < mv:
                want = False
            else:
                want = "tie"
            if want == "tie":
                if not tie and out in (True, False):
                    rep.violation("LEX.cardinality", site, f"tie mv=mf={mv}", "equal minimum cardinalities are decided without looking at the lower layers",
                                  extracted=str(out), required="continue with the minimum-cardinality sets", function=site)
                continue
            if tie:
                # the path went into the tie handling although the cardinalities decide
                rep.violation("LEX.cardinality", site, f"V{'=∅' if EV else '≠∅'} F{'=∅' if EF else '≠∅'} mv={mv} mf={mf}", "the cardinalities decide but the code continues to the lower layers",
                              extracted="tie handling", required=str(want), function=site)
                continue
            n_rows += 1
            rep.check(out == want, "LEX.cardinality", site, f"V{'=∅' if EV else '≠∅'} F{'=∅' if EF else '≠∅'}" + ("" if EV or EF else f" mv{'<' if mv < mf else '>'}mf"),
                      f"outcome {out}", extracted=str(out), required=str(want), function=site)
        # the tie continues with exactly the minimum-cardinality members of each side
        if tie:
            for ev, Q in iter_events(p.events):
                if ev.kind == "loop" and ev.fam in (("members", V), ("members", Fm)) and _contains_recurse(ev):
                    sd = "v" if ev.fam == ("members", V) else "f"
                    g = ev.seg_guard
                    # the selection, evaluated: a member of size s of a side whose least size is m (s ≥ m; in a tie both
                    # sides have the same m) is kept iff s = m - however the test is written (==, not >, <=, ...)
                    okg, bad_at = True, None
                    for m_ in (0, 1, 2, 3):
                        for s_ in (m_, m_ + 1, m_ + 2):
                            val = _eval_size_guard(g, ("len", ev.evar), V, Fm, s_, m_)
                            if val is None:
                                raise AnalysisError(f"{site}:{ev.node.lineno}: selection of the tie's members in a form the analysis does not read: {show_pred(g)[:120]}")
                            if val != (s_ == m_):
                                okg, bad_at = False, bad_at or (s_, m_)
                    rep.check(okg, "LEX.cardinality", f"{site}:{ev.node.lineno}", f"tie members ({sd}-side)", "a tie continues with exactly the minimum-cardinality sets of each side",
                              extracted=show_pred(g) + (f" (wrong for a set of size {bad_at[0]} when the least size is {bad_at[1]})" if bad_at else ""), required="|x| = min |·|", function=site)
    rep.floor(f"LEX cardinality rows ({be.name})", n_rows, 4)


def _eval_size_guard(g, lenterm, V, Fm, s, m):
    """Value of a guard over the size of the current set and the least size(s) of the two families; None when it mentions
    anything else."""
    k = g[0]
    if k == "const":
        return bool(g[1])
    if k == "not":
        v = _eval_size_guard(g[1], lenterm, V, Fm, s, m)
        return None if v is None else not v
    if k in ("and", "or"):
        vals = [_eval_size_guard(q, lenterm, V, Fm, s, m) for q in g[1]]
        if any(v is None for v in vals):
            return None
        return all(vals) if k == "and" else any(vals)
    if k == "cmp" and g[1] in ("==", "<") and isinstance(g[2], tuple) and g[2][:1] == ("lin",) and isinstance(g[3], tuple) and g[3][:1] == ("c",):
        total = g[2][1][1]
        for t, c in g[2][1][0]:
            if t == lenterm:
                total += c * s
            elif _min_term_side(t, V, Fm) in ("v", "f"):
                total += c * m
            else:
                return None
        return (total == g[3][1]) if g[1] == "==" else (total < g[3][1])
    return None


def _contains_recurse(loop_ev):
    for case in loop_ev.cases:
        for ev, Q in iter_events(case.events):
            if ev.kind == "recurse":
                return True
    return False


def lex_sides(rep, be: Backend, site, p, prefix="LEX"):
    sides = {}
    for ev, Q in iter_events(p.events):
        if ev.kind != "mcs" or Q:
            continue
        hard, soft = side_items(be, ev)
        where = f"{site}:{ev.node.lineno}"
        if HEAD in hard:
            role = "v"
        elif HEAD_F in hard:
            role = "f"
        else:
            rep.violation(f"{prefix}.soft/hard", where, "incoming constraints", "each computation starts from the constraints handed down for its side", extracted=show_items(hard), required="⊇ incoming", function=site)
            continue
        head = HEAD if role == "v" else HEAD_F
        if be.name == "rc2":
            want_h = [head]  # the query is part of the incoming WCNF (LEX.start)
        else:
            want_h = [head, ("f", verification(QUERY) if role == "v" else falsification(QUERY))]
        rep.check(canon_items(hard) == canon_items(want_h), f"{prefix}.soft/hard", where, f"{role}-side hard items", "hard = the side's incoming constraints (with the query's verification / falsification)",
                  extracted=show_items(hard), required=show_items(want_h), function=site)
        want_soft = expected_soft(be, K)
        rep.check(canon_items(soft) == canon_items(want_soft), f"{prefix}.soft/hard", where, f"{role}-side soft items", "soft = ¬falsification(c), weight 1, for every c of layer k",
                  extracted=show_items(soft), required=show_items(want_soft), function=site)
        if be.name == "rc2":
            check_ignore(rep, site, ev, prefix)
        sides[role] = ev
    return sides


# ---- ties: two-witness instantiation -----------------------------------------------------------
W1, W2, X1, X2 = ("w", "v1"), ("w", "v2"), ("w", "f1"), ("w", "f2")


def lex_ties(rep, ex: Explorer, be: Backend):
    """LEX.tie-quantifier / LEX.tie-constraints: the tie handling is run on two abstract witnesses per side (all of
    minimum cardinality, Rec an uninterpreted predicate); a 2x2 matrix separates ∃∀ from ∀∀, ∃∃ and ∀∃."""
    from ..absvals import HList

    qual = f"{be.cls}._rec_inference"
    site = fn_label(ex.prog, qual)
    be.discover_query_slots(ex)
    role = be.role
    calls = {"n": 0}

    def fam_value(I, names):
        return I.alloc(HList([("one", ElemV(n, "set", role, "")) for n in names]))

    def hook(I, v, args, kwargs, node):
        names = ["wcnf", "ignore", "deadline"]
        bound = dict(zip(names, args))
        bound.update(kwargs)
        w = bound.get("wcnf")
        snap = I.snapshot(w)
        hard = wcnf_view(snap)[0]
        side = "v" if HEAD in hard else "f"
        I.log("mcs", node, cid=("inst", side), wcnf=w, snap=snap, ignore=None, ignore_view=None, deadline=Const(None))
        return fam_value(I, (W1, W2) if side == "v" else (X1, X2))

    def summ_xi(I, fi, args, kwargs, node):
        opt = args[1]
        snap = I.snapshot(opt)
        side = "v" if HEAD in flat(snap[3]) else "f"
        I.log("mcs", node, cid=("inst", side), wcnf=opt, snap=snap, ignore=None, ignore_view=None, deadline=Const(None), part=args[2])
        r = fam_value(I, (W1, W2) if side == "v" else (X1, X2))
        I.deref(r).is_set = True
        return r

    summ = be.summaries()
    hooks = be.hooks()
    if be.name == "rc2":
        hooks[("optimizer", "minimal_correction_subsets")] = hook
    else:
        summ[f"{be.cls}.get_all_xi_i"] = summ_xi

    from ..absint import Interp

    I = Interp(ex.prog, summaries=summ, max_depth=ex.max_depth)
    I.method_hooks.update(hooks)
    m = LinV(F.lin_term("m"))
    I.len_override = {W1: m, W2: m, X1: m, X2: m}
    paths = I.explore(qual, be.rec_setup())
    if ex.report is not None:
        ex.report.absorb_stats(I)
    n = 0
    for p in paths:
        if p.outcome[0] == "raise":
            continue
        k0 = None
        recvals = {}
        rid_pair = {}
        for ev, Q in iter_events(p.events):
            if ev.kind == "recurse":
                hs = rec_hard(be, ev)
                pair = None
                if len(hs) == 2:
                    L = ("at", PVAR, ("lin", K))
                    sub = {W1: L, W2: L, X1: L, X2: L}
                    vi = [w for w in (W1, W2) if equiv_items(hs[0][0], tie_items(be, HEAD, w), sub, be.role)]
                    fj = [w for w in (X1, X2) if equiv_items(hs[1][0], tie_items(be, HEAD_F, w), sub, be.role)]
                    if len(vi) == 1 and len(fj) == 1:
                        pair = (vi[0], fj[0])
                where = f"{site}:{ev.node.lineno}"
                rep.check(pair is not None, "LEX.tie-constraints", where, "recursion constraints", "each continuation fixes one minimum set per side: falsification for its members, non-falsification for the rest of the layer",
                          extracted=" / ".join(show_items(h[0]) for h in hs)[:600], required="side constraints ∪ tie(v_i) / side constraints ∪ tie(f_j)", function=site)
                idx = _index_arg(ev)
                rep.check(idx == F.lin_add(K, F.lin_const(-1)), "LEX.tie-constraints", where, "recursion index", "a tie continues with the next lower layer", extracted=F.show_lin(idx) if idx else "?", required="k-1", function=site)
                if pair is not None:
                    rid_pair[ev.rid] = pair
        for key, val in p.decisions:
            if key[0] == "cmp" and key[2][0] == "lin" and all(t == "k" for t, _ in key[2][1][0]):
                k0 = _k_is_zero((key, val))
            elif key[0] == "truthy" and isinstance(key[1], tuple) and key[1][:1] == ("rec",):
                if key[1][1] in rid_pair:
                    recvals[rid_pair[key[1][1]]] = val
            elif key[0] in ("partfalse",):
                continue
            else:
                raise AnalysisError(f"{site}: tie handling depends on {key!r}")
        out = _bool_outcome(p)
        n += 1
        if k0 is True:
            rep.check(out is False and not rid_pair, "LEX.tie-quantifier", site, "tie at layer 0", "a tie at the lowest layer ⇒ False, without recursion", extracted=f"{out}, {len(rid_pair)} recursive call(s)", required="False", function=site)
            continue
        if k0 is None and rid_pair:
            rep.violation("LEX.tie-quantifier", site, "tie at layer 0", "the recursion below a tie is not guarded against layer 0", extracted="no test of k", required="k=0 ⇒ False", function=site)
        pairs = [(a, b) for a in (W1, W2) for b in (X1, X2)]
        free = [pr for pr in pairs if pr not in recvals]
        bad = None
        # the answer may be returned as a formula over the continuations (any(all(...)) without intermediate tests):
        # evaluate it under every assignment of the continuations, like the decided form
        from ..harness import returned_bool, eval_pred, pred_atoms
        pr_out = returned_bool(None, p.outcome[1]) if p.outcome[0] == "return" else None
        rec_atoms = [a for a in pred_atoms(pr_out)] if pr_out is not None and pr_out[0] != "const" else []
        formula = bool(rec_atoms) and all(a[0] == "truthy" and isinstance(a[1], tuple) and a[1][:1] == ("rec",) and a[1][1] in rid_pair for a in rec_atoms)
        for bits in product((True, False), repeat=len(free)):
            rv = dict(recvals)
            rv.update(zip(free, bits))
            want = any(all(rv[(a, b)] for b in (X1, X2)) for a in (W1, W2))
            n += 1  # one evaluated assignment of the continuations (form independent: decided one by one or returned as a formula)
            got = eval_pred(pr_out, {a: rv[rid_pair[a[1][1]]] for a in rec_atoms}) if formula else out
            if want != got:
                bad = rv
                out = got
                break
        desc_m = lambda rv: " ".join(f"Rec({a[1]},{b[1]})={'T' if rv[(a, b)] else 'F'}" for a, b in pairs)  # noqa: E731
        rep.check(bad is None, "LEX.tie-quantifier", site, "tie quantifier: " + " ".join(f"{a[1]}{b[1]}={'T' if v else 'F'}" for (a, b), v in sorted(recvals.items())),
                  "on a tie the answer is ∃v ∀f: Rec(v,f) over the minimum sets (lexicographic order is total)",
                  extracted=f"{out}" + (f" for {desc_m(bad)}" if bad else ""), required="∃v∀f Rec(v,f)" + (f" = {not out}" if bad else ""), function=site)
    rep.floor(f"LEX tie paths ({be.name})", n, 3)



def lex_strict_shortcuts(rep, ex: Explorer, be: Backend):
    """LEX.strict-shortcuts: an answer given in strict mode without consulting the layers must be justified:
    True only when A∧¬B is unsatisfiable, False only when A∧B is unsatisfiable while A∧¬B is satisfiable."""
    from ..harness import sat_literals

    site, paths = entry_paths(rep, ex, be)
    n = 0
    for p in paths:
        if decided(p, ("truthy", "weakly")) is not False or p.outcome[0] != "return":
            continue
        if any(ev.kind == "reccall" for ev, Q in iter_events(p.events)):
            continue
        lits, other = sat_literals(p)
        g = ("and", tuple(lits))
        out = _bool_outcome(p)
        n += 1
        if out is True:
            ok, w = F.guard_implies(g, ("not", ("sat", falsification(QUERY))))
            rep.check(ok, "LEX.strict-shortcuts", site, "shortcut True", "True without the layers only when A∧¬B is unsatisfiable",
                      extracted=F.show_guard(g) + (f" holds on {w}" if w else ""), required="⊆ UNSAT(A∧¬B)", function=site)
        elif out is False:
            want = ("and", (("not", ("sat", verification(QUERY))), ("sat", falsification(QUERY))))
            ok, w = F.guard_implies(g, want)
            rep.check(ok, "LEX.strict-shortcuts", site, "shortcut False", "False without the layers only when A∧B is unsatisfiable and A∧¬B is satisfiable",
                      extracted=F.show_guard(g) + (f" holds on {w}" if w else ""), required="⊆ UNSAT(A∧B) ∧ SAT(A∧¬B)", function=site)
        else:
            rep.violation("LEX.strict-shortcuts", site, "shortcut answer", "a strict answer without the layers is not a Boolean constant", extracted=str(out), required="True/False", function=site)
    return n


# ----------------------------------------------------------------------------------------------
# preprocessing flows
# ----------------------------------------------------------------------------------------------
def summary_b2c(I, fi, args, kwargs, node):
    I.log("b2c", node, args=tuple(args[1:]), kwargs=dict(kwargs))
    return Sym(("b2c-time",), "float")


def preprocess_flow(rep, ex: Explorer, be: Backend, prefix):
    """<prefix>.partition-flow: what `_inference` reads from the state is what preprocessing wrote: the verified
    partition of the state's base in the state's mode (rc2: key-based, plus the f/nf CNF slots; z3: object-based,
    translated conditional by conditional with antecedent and consequent preserved - Z3.translate)."""
    from .sysz import partition_flow

    qual = f"{be.cls}._preprocess_belief_base"
    site = fn_label(ex.prog, qual)
    rule = f"{prefix}.partition-flow"
    summ = dict(wrappers.SUMMARIES)
    summ["inference.tseitin_transformation.TseitinTransformation.belief_base_to_cnf"] = summary_b2c

    def setup(I):
        bb = make_belief_base(I)
        es = make_epistemic_state(I, bb, "x")
        s = I.alloc(HObj(be.cls, {"epistemic_state": es}))
        return [s, Sym("weakly", "bool"), Sym("deadline")], {}

    paths = ex.run(qual, setup, summaries=summ, key=f"preproc-{be.name}")
    n = 0
    for p in paths:
        if p.outcome[0] != "return":
            continue
        cons = [ev for ev, Q in iter_events(p.events) if ev.kind == "summary.consistency"]
        if any(decided(p, ("partfalse", ("part", c.pid))) is True for c in cons):
            continue
        n += 1
        ok = len(cons) == 1
        rep.check(ok, rule, site, "partition source", "the partition is computed once by the verified partition function", extracted=f"{len(cons)} call(s)", required="1", function=site)
        if not ok:
            continue
        c = cons[0]
        same_bb = c.bbdesc[1] == () and len(c.bbdesc[2]) == 1 and c.bbdesc[2][0][0] == KEYS_D
        flag = returned_bool(None, c.weakly) == ("truthy", "weakly")
        rep.check(same_bb and flag and c.pkind == be.kind, rule, site, "partition arguments", "partition of the state's own base in the selected mode",
                  extracted=f"base={'state base' if same_bb else 'other'}, mode={c.weakly!r}, variant={c.pkind}", required=f"state base, state mode, {be.kind}-based", function=site)
        # the slot
        es = None
        for oid, o in p.state.heap.items():
            if hasattr(o, "entries") and "partition" in getattr(o, "entries", {}) and "belief_base" in o.entries:
                es = o
        val = es.entries.get("partition") if es is not None else None
        pv = ("part", c.pid)
        if be.name == "rc2":
            ok = isinstance(val, ElemV) and val.var == pv
            rep.check(ok, rule, site, "partition slot", "the state's partition slot holds exactly that partition", extracted=repr(val), required="the computed partition", function=site)
            b2c = [ev for ev, Q in iter_events(p.events) if ev.kind == "b2c"]
            okc = len(b2c) == 1 and len(b2c[0].args) >= 3 and all(isinstance(a, Const) for a in b2c[0].args[:3]) and b2c[0].args[1].value is True and b2c[0].args[2].value is True
            rep.check(okc, "CNF.roles", site, "slots filled", "preprocessing fills the falsification and non-falsification CNF slots the recursion reads",
                      extracted=repr(b2c[0].args) if b2c else "no call", required="belief_base_to_cnf(_, True, True)", function=site)
        else:
            vw = view(p.state, val)
            ok = False
            det = repr(vw)[:300]
            if decided(p, ("empty", pv)) is True and isinstance(vw, tuple) and vw[0] == "list" and not vw[1]:
                ok, det = True, "no layers: the partition of an empty base stays empty"
            if isinstance(vw, tuple) and vw[0] == "list" and len(vw[1]) == 1 and vw[1][0][0] == "each":
                _, L, fam, g, inner = vw[1][0]
                if fam == ("members", pv) and g == PTRUE and isinstance(inner, tuple) and inner[0] == "list" and len(inner[1]) == 1 and inner[1][0][0] == "each":
                    _, cvar, fam2, g2, obj = inner[1][0]
                    if fam2 == ("members", L) and g2 == PTRUE and isinstance(obj, tuple) and obj[0] == "condobj":
                        ok = obj[1] == F.canon(A(cvar)) and obj[2] == F.canon(B(cvar))
                        det = f"layers of the partition, each conditional translated to (B:{obj[2][1]}|A:{obj[1][1]})"
            rep.check(ok, "Z3.translate", site, "translated partition", "the stored partition has the same layers in the same order, every conditional translated with antecedent and consequent preserved",
                      extracted=det, required="[[translate(c) for c in layer] for layer in partition], A≡c.A, B≡c.B", function=site)
    rep.floor(f"{rule} paths ({be.name})", n, 1)


def object_identity(rep, ex: Explorer):
    """OBJ.identity: the object-based back-ends (z3 operators, object-based partition) keep conditionals in sets and test
    `c in xi` / `c not in xi` on the objects; the key-based ones count by key.  Two conditionals of a base with the same
    content are two conditionals (two keys), so the objects must compare by identity: no `__eq__` / `__hash__` on
    Conditional or a subclass."""
    prog = ex.prog
    n = 0
    for cname, ci in prog.classes.items():
        mro = prog.mro(cname)
        if not any(c.endswith("conditional.Conditional") for c in mro):
            continue
        n += 1
        for m in ("__eq__", "__hash__"):
            defined = m in ci.methods
            where = f"{ci.module.replace('.', '/')}.py:{cname.rsplit('.', 1)[1]}"
            rep.check(not defined, "OBJ.identity", where, f"{m}", "conditionals compare by identity (equal content under different keys are different conditionals; sets of conditional objects must not merge them)",
                      extracted=f"{cname.rsplit('.', 1)[1]}.{m} is defined" if defined else "object identity", required="not overridden", function=where + "." + m)
    rep.floor("conditional classes", n, 2)
