"""PART.* - the tolerance-partition obligations (C06.D1-D6), decided on `consistency` and
`consistency_indices` from their extracted effect/decision abstracts.

Specification (C06): for a generic remaining family F and element e
  context   the tolerance test is asked under exactly {forall c in F: material(c)} ∪ {verification(e)}
  split     e joins the new layer iff that test is satisfiable, else it stays
  balance   scope depth restored after each element; no pop below entry
  terminal  F empty: return the partition (extended: append [] first)
            nothing tolerated: strict False; extended: SAT({forall c in F: material(c)}) ? partition+[F] : False
  advance   next family = the non-tolerated elements; layers appended in discovery order
  entry     first family = all conditionals of the base, partition = []
"""
from __future__ import annotations

from .. import formula as F
from ..absint import iter_events, Interp
from ..absvals import Const, Sym, Ref, TupleV, ElemV, PTRUE, show_pred
from ..front import AnalysisError
from ..harness import (Explorer, make_belief_base, material, verification, canon_items, canon_item, flat, each_item,
                       show_items, view, is_each_of, fn_label, KEYS_D)

FUNCS = {
    "inference.consistency_sat.consistency": "cond",
    "inference.consistency_sat.consistency_indices": "key",
}


def _setup(I):
    bb = make_belief_base(I)
    return [bb, Const("z3"), Sym("weakly", "bool")], {}


def analyse(ex: Explorer, qual: str):
    return ex.run(qual, _setup, key="part")


def check_function(rep, ex: Explorer, qual: str, role: str):
    prog = ex.prog
    site = fn_label(prog, qual)
    paths = analyse(ex, qual)
    # ---- locate the while loop and its head families
    enter = None
    for p in paths:
        for ev, Q in iter_events(p.events):
            if ev.kind == "while.enter":
                enter = ev
                break
        if enter:
            break
    if enter is None:
        raise AnalysisError(f"{site}: no layer loop found (anchor vanished)")
    lid = enter.id
    entry = enter.entry
    # which head variables play the roles 'remaining family' and 'partition'?
    fam_var = part_var = None
    for name, snap in entry.items():
        if snap[0] == "list":
            segs = snap[2]
            if len(segs) == 1 and segs[0][0] == "each":
                fam_var = name
            elif len(segs) == 0:
                part_var = name
    if fam_var is None or part_var is None:
        raise AnalysisError(f"{site}: cannot identify the remaining-family / partition variables at the loop head: {sorted(entry)}")
    HF = ("members", ("head", lid, fam_var))
    HP = ("head", lid, part_var)

    # ---- PART.entry
    seg = entry[fam_var][2][0]
    ok = seg[0] == "each" and seg[2] == KEYS_D and seg[3] == PTRUE and isinstance(seg[4], ElemV) and seg[4].var == seg[1] and seg[4].role == role
    rep.check(ok, "PART.entry", site, "first family", "first remaining family is all conditionals of the base",
              extracted=repr(seg), required=f"each entry of the base ({role})", function=site)

    # ---- per path classification
    tolq = None  # tolerance query id (inside the element loop)
    n_queries = 0
    for p in paths:
        for ev, Q in iter_events(p.events):
            if ev.kind == "query" and Q:
                loop_ev, case = Q[-1]
                n_queries += 1
                if loop_ev.fam != HF:
                    rep.violation("PART.context", site, "tolerance test family", "tolerance test runs over a family other than the remaining conditionals",
                                  extracted=F.show_desc(loop_ev.fam), required=F.show_desc(HF), function=site)
                    continue
                evar = loop_ev.evar
                got = canon_items(flat(ev.frames))
                want = canon_items([each_item(HF, material), ("f", verification(evar))])
                tolq = ev.qid
                rep.check(got == want, "PART.context", f"{site}:{getattr(ev.node, 'lineno', '?')}", "tolerance test scope",
                          "tolerance test asked under {∀c∈F: material(c)} ∪ {verification(e)}",
                          extracted=show_items(flat(ev.frames)), required=show_items([each_item(HF, material), ("f", verification(evar))]),
                          function=site)
            if ev.kind in ("loop.unbalanced", "solver.pop-below"):
                rep.violation("PART.balance", f"{site}:{getattr(ev.node, 'lineno', '?')}", "scope balance",
                              "solver scope not restored per element / popped below entry", extracted=ev.kind, required="balanced push/pop", function=site)
    # every placement of an element (tolerated / remaining) follows from its own tolerance test
    seen_bad = set()
    for p in paths:
        for ev, Q in iter_events(p.events):
            if ev.kind == "loop" and ev.fam == HF:
                for case in ev.cases:
                    tested = any(k[0] == "sat" for k, v in case.guard)
                    if tested:
                        continue
                    for e2, Q2 in iter_events(case.events):
                        if e2.kind == "list.append" and isinstance(e2.value, ElemV) and e2.value.var == ev.evar and e2.node.lineno not in seen_bad:
                            seen_bad.add(e2.node.lineno)
                            rep.violation("PART.split", f"{site}:{e2.node.lineno}", "placement without test", "an element joins the tolerated (or the remaining) conditionals only by the outcome of its own tolerance test",
                                          extracted="placed under " + (" ∧ ".join(show_pred(k if v else ("not", k))[:80] for k, v in case.guard) or "no condition"), required="SAT / UNSAT of the tolerance test", function=site)
    # ... and the outcome of the test is recorded: the element goes to one list when tolerated, to another when not
    for p in paths:
        for ev, Q in iter_events(p.events):
            if ev.kind == "loop" and ev.fam == HF:
                targets = {}
                for case in ev.cases:
                    sat = [v for k, v in case.guard if k[0] == "sat"]
                    if len(sat) != 1:
                        continue
                    apps = [e2 for e2, Q2 in iter_events(case.events) if e2.kind == "list.append" and isinstance(e2.value, ElemV) and e2.value.var == ev.evar]
                    targets[sat[0]] = [e2.obj.oid for e2 in apps if isinstance(e2.obj, Ref)]
                for val, what in ((True, "tolerated"), (False, "not tolerated")):
                    if val in targets and ("rec", val) not in seen_bad:
                        if len(targets[val]) != 1:
                            seen_bad.add(("rec", val))
                            rep.violation("PART.split", site, f"{what} element recorded", f"an element whose tolerance test is {'satisfiable' if val else 'unsatisfiable'} is recorded in the {'new layer' if val else 'remaining family'} (once)",
                                          extracted=f"{len(targets[val])} placement(s)", required="1", function=site)
                if True in targets and False in targets and len(targets[True]) == 1 and len(targets[False]) == 1 and targets[True] == targets[False] and "same" not in seen_bad:
                    seen_bad.add("same")
                    rep.violation("PART.split", site, "two lists", "tolerated and not tolerated elements are kept apart", extracted="both are appended to the same list", required="two lists", function=site)
    if seen_bad:
        return {"queries": n_queries, "rows": 0, "paths": len(paths)}
    if tolq is None:
        raise AnalysisError(f"{site}: no tolerance query found inside the element loop")
    rep.ok("PART.balance", site, "scope balance", "no unbalanced push/pop inside the element loop")

    evx = ("var", "_x")

    def classify_list(state, v):
        """Name the abstract content of a list value in the vocabulary of the specification."""
        vw = view(state, v)
        if vw == ("list", ()):
            return "[]"
        if isinstance(vw, tuple) and vw[0] == "list" and len(vw[1]) == 1 and vw[1][0][0] == "each":
            s = vw[1][0]
            if s[2] == HF and isinstance(s[4], ElemV) and s[4].var == s[1] and s[4].role == role:
                g = F.subst_any(s[3], {s[1]: evx})
                if g == ("sat", tolq):
                    return "R"
                if g == ("not", ("sat", tolq)):
                    return "C"
                if g == PTRUE:
                    return "F"
                return "each|" + show_pred(g)
        if isinstance(vw, tuple) and vw[0] == "list":
            parts = []
            for s in vw[1]:
                if s == ("sym", HP):
                    parts.append("P")
                elif s[0] == "one":
                    parts.append(classify_view(s[1]))
                else:
                    parts.append("?" + repr(s)[:60])
            return "+".join(parts) if parts else "[]"
        return "?" + repr(vw)[:80]

    def classify_view(vw):
        if vw == ("list", ()):
            return "[[]]"
        if isinstance(vw, tuple) and vw[0] == "list" and len(vw[1]) == 1 and vw[1][0][0] == "each":
            s = vw[1][0]
            if s[2] == HF and isinstance(s[4], ElemV) and s[4].var == s[1] and s[4].role == role:
                g = F.subst_any(s[3], {s[1]: evx})
                if g == ("sat", tolq):
                    return "[R]"
                if g == ("not", ("sat", tolq)):
                    return "[C]"
                if g == PTRUE:
                    return "[F]"
        return "[?" + repr(vw)[:60] + "]"

    def empty_pred_name(key):
        """Map an 'empty' predicate of the path to the vocabulary E (family empty) / T (nothing tolerated)."""
        if key == ("empty", HF[1]):
            return "E"
        if key[0] == "empty" and isinstance(key[1], tuple) and key[1] and key[1][0] == "list":
            segs = key[1][1]
            if len(segs) == 1 and segs[0][0] == "each" and segs[0][2] == HF:
                g = F.subst_any(segs[0][3], {segs[0][1]: evx})
                if g == ("sat", tolq):
                    return "T"
                if g == ("not", ("sat", tolq)):
                    return "allT"  # nothing stays: every element tolerated
        return None

    # knowledge query: outside the element loop
    spec_rows = 0
    for p in paths:
        env = {"E": None, "T": None, "W": None, "K": None, "NT": None}
        unknown = []
        kq = None
        for ev, Q in iter_events(p.events):
            if ev.kind == "query" and not Q:
                kq = ev
        for key, val in p.decisions:
            if key == ("truthy", "weakly"):
                env["W"] = val
                continue
            if key[0] == "empty":
                nm = empty_pred_name(key)
                if nm in ("E", "T"):
                    env[nm] = val
                    continue
                if nm == "allT":
                    env["NT"] = val
                    continue
            if key[0] == "sat" and kq is not None and key[1] == kq.qid:
                env["K"] = val
                continue
            unknown.append((key, val))
        if unknown:
            def satbased(k):
                return isinstance(k, tuple) and bool(k) and (k[0] == "sat" or (k[0] in ("forall", "exists", "not", "and", "or") and "'sat'" in repr(k)))
            if env["W"] is True and env["T"] is True and all(satbased(k) for k, v in unknown):
                # positive evidence: with nothing tolerated in extended mode the verdict hangs on satisfiability tests other
                # than the one joint test of the remaining material counterparts
                rep.violation("PART.terminal", site, "extended terminal verdict", "with no tolerated conditional left the extended verdict is the joint satisfiability of the remaining material counterparts",
                              extracted="decided by " + "; ".join(show_pred(k)[:120] for k, v in unknown), required="SAT(⋀ material(c) for the remaining c)", function=site)
                continue
            lenpreds = [k for k, v in unknown if k[0] == "cmp" and isinstance(k[2], tuple) and k[2][0] == "lin" and any(t == ("len", HF[1]) for t, c in k[2][1][0])]
            if lenpreds and len(lenpreds) == len(unknown):
                rep.violation("PART.terminal", site, "termination test", "the layer loop ends exactly when no conditional remains (an exact count other than 0 is not a termination condition of the construction)",
                              extracted="decides on " + "; ".join(show_pred(k)[:120] for k in lenpreds), required="remaining family empty", function=site)
                continue
            raise AnalysisError(f"{site}: outcome depends on a predicate the specification does not mention: {unknown[0][0]!r}")
        # terminal query scope
        if kq is not None:
            got = canon_items(flat(kq.frames))
            want = canon_items([each_item(HF, material)])
            rep.check(got == want, "PART.terminal", f"{site}:{getattr(kq.node, 'lineno', '?')}", "extended terminal test scope",
                      "joint satisfiability of the remaining material counterparts asked with nothing else in scope",
                      extracted=show_items(flat(kq.frames)), required=show_items([each_item(HF, material)]), function=site)
            if not (env["W"] is True and env["T"] is True):
                rep.violation("PART.terminal", f"{site}:{getattr(kq.node, 'lineno', '?')}", "extended terminal test guard",
                              "terminal satisfiability test asked outside (extended ∧ nothing tolerated)", extracted=str(env), required="W ∧ T", function=site)
        # outcome
        if p.outcome[0] == "return":
            rv = p.outcome[1]
            first = rv.items[0] if isinstance(rv, TupleV) and rv.items else rv
            if isinstance(first, Const) and first.value is False:
                out = "False"
            elif isinstance(first, Ref):
                out = classify_list(p.state, first)
            else:
                out = "?" + repr(first)
        elif p.outcome[0] == "loopback":
            snap = p.outcome[2]
            nf = snap.get(fam_var)
            npart = snap.get(part_var)
            out = "loop(" + (classify_list(p.state, Ref(nf[1])) if nf and nf[0] == "list" else "?") + "," + \
                  (classify_list(p.state, Ref(npart[1])) if npart and npart[0] == "list" else "?") + ")"
        else:
            out = repr(p.outcome[:2])
        # expected by the specification, over every completion of the predicates the path left undetermined
        NT = env.get("NT")
        rows = []
        for E in ((env["E"],) if env["E"] is not None else (True, False)):
            for T in ((env["T"],) if env["T"] is not None else (True, False)):
                if E and not T:
                    continue  # an empty family tolerates nothing
                if NT is True and not E and T:
                    continue  # every element tolerated and F non-empty: something is tolerated
                if NT is False and E:
                    continue
                for W in ((env["W"],) if env["W"] is not None else (True, False)):
                    for K in ((env["K"],) if env["K"] is not None else (True, False)):
                        if E:
                            rows.append(("P+[[]]" if W else "P", f"F=∅, {'extended' if W else 'strict'}"))
                        elif T:
                            if not W:
                                rows.append(("False", "nothing tolerated, strict"))
                            elif env["K"] is None:
                                rows.append(("needs-K", "nothing tolerated, extended"))
                            else:
                                rows.append(("P+[C]" if K else "False", f"nothing tolerated, extended, knowledge {'sat' if K else 'unsat'}"))
                        else:
                            rows.append(("loop(C,P+[R])", "some tolerated"))
        rows = list(dict.fromkeys(rows))
        spec_rows += 1
        if not rows:
            continue  # contradictory decisions: no execution takes this path
        matches = []
        for want_out, slot in rows:
            alts = {want_out}
            if want_out == "P+[C]":
                alts.add("P+[F]")  # when nothing is tolerated every element is in C, so C and F coincide
            matches.append(out in alts)
        want_out, slot = rows[0]
        if any(w == "needs-K" for w, _ in rows) and not any(matches):
            rep.violation("PART.terminal", site, "nothing tolerated, extended",
                          "extended mode decides without testing joint satisfiability of the remaining material counterparts",
                          extracted=out, required="SAT(∀c∈F: material(c)) ? P+[F] : False", function=site)
            continue
        rule = "PART.advance" if slot == "some tolerated" else "PART.terminal"
        if all(matches):
            rep.ok(rule, site, slot, f"outcome {out}", extracted=out)
            if slot == "some tolerated":
                rep.ok("PART.split", site, "layer membership", "e joins the new layer iff its tolerance test is satisfiable", extracted=out)
        elif not any(matches):
            rep.violation(rule, site, slot if len(rows) == 1 else " | ".join(sl for _, sl in rows), f"outcome {out}", extracted=out,
                          required=" | ".join(w for w, _ in rows), function=site)
        else:
            raise AnalysisError(f"{site}: outcome {out} under {env} agrees with the specification only for some values of the "
                                f"undetermined predicates; cannot decide")
    return {"queries": n_queries, "rows": spec_rows, "paths": len(paths)}


def evaluated(rep, ex: Explorer, qual: str, role: str):
    """PART.partition: the function evaluated on concrete bases of 0..3 conditionals in both modes, its layer loop run
    iteration by iteration, with the answer of every satisfiability test left open.  Every test must be one of the two
    tests the definition knows - "is c tolerated by the remaining conditionals F" ({material(d) : d in F} with
    verification(c)) or, in extended mode, "is F jointly satisfiable" - and for every combination of answers the result
    must be the partition those answers determine (layers in discovery order; False when nothing is tolerated - in
    extended mode only when F is not even jointly satisfiable, otherwise F becomes the last layer; an empty last layer is
    appended in extended mode when every conditional found a layer).  Independent of how the loop is written."""
    import itertools

    from ..absvals import HDict, HObj, HList
    from ..harness import BB_CLASS

    site = fn_label(ex.prog, qual)
    n_paths = 0
    for n in (0, 1, 2, 3):
        names = [f"c{k}" for k in range(n)]
        keys = {(0 if k == 0 else 10 + 3 * k): names[k] for k in range(n)}  # (key 0 among them: a key is not a truth value)
        for weakly in (False, True):
            def setup(I, keys=keys, weakly=weakly):
                conds = I.alloc(HDict(entries={k: ElemV(("obj", nm), "cond") for k, nm in keys.items()}))
                bb = I.alloc(HObj(BB_CLASS, {"conditionals": conds, "signature": Sym(("signature", "D")), "name": Sym(("bbname", "D"), "str")}))
                return [bb, Const("z3"), Const(weakly)], {}

            paths = ex.run(qual, setup, key=f"part-eval-{n}-{weakly}", unroll_while=n + 3)
            mat = {nm: canon_item(("f", material(("obj", nm)))) for nm in names}
            ver = {nm: canon_item(("f", verification(("obj", nm)))) for nm in names}
            for p in paths:
                mode = "extended" if weakly else "strict"
                if p.outcome[0] == "unroll-limit":
                    n_paths += 1
                    rep.violation("PART.partition", site, f"termination ({n} conditionals, {mode})", "the layer loop ends: every round either places a conditional or returns", extracted=f"still looping after {n + 3} rounds", required="at most one round per conditional, plus one", function=site)
                    continue
                if p.outcome[0] != "return":
                    continue  # (an exception: judged by the symbolic rules / the callers)
                dec = dict(p.decisions)
                oracle = {}
                feasible = True
                for ev, Q in iter_events(p.events):
                    if ev.kind != "query":
                        continue
                    items = [canon_item(i) for i in flat(ev.frames)]
                    S = frozenset(nm for nm in names if mat[nm] in items)
                    T = [nm for nm in names if ver[nm] in items]
                    rest = [i for i in items if i not in mat.values() and i not in ver.values()]
                    if rest or len(T) > 1 or (T and T[0] not in S):
                        rep.violation("PART.context", f"{site}:{getattr(ev.node, 'lineno', '?')}", "tolerance test scope", "a test is asked under the material implications of the remaining conditionals and, for a tolerance test, the verification of one of them",
                                      extracted=show_items(flat(ev.frames))[:200], required="{material(d) : d remaining} (+ verification(c), c remaining)", function=site)
                        feasible = False
                        break
                    a = dec.get(("sat", ev.qid))
                    if a is None:
                        continue
                    k_ = (S, T[0] if T else None)
                    if k_ in oracle and oracle[k_] != a:
                        feasible = False
                        break
                    oracle[k_] = a
                if not feasible:
                    continue
                # an answer taken from state that outlives the call (module-level or class-level memo) without a single test:
                # sound only if the memo's key determines the conditionals - a key built from the base's keys (or its
                # identity) alone also fits another base, or this one after a conditional was replaced
                def _outlives(d):
                    """does the descriptor mention a container that exists outside this call (module-level state)?"""
                    if isinstance(d, tuple):
                        if d[:1] == ("dict",) and len(d) == 2:
                            o_ = p.state.heap.get(d[1])
                            return getattr(o_, "sym", None) is not None and isinstance(o_.sym, tuple) and o_.sym[:1] == ("global",)
                        if d[:1] == ("global",):
                            return True
                        return any(_outlives(x) for x in d)
                    return False

                memo = [(k, v) for k, v in p.decisions if k[0] == "in" and v is True and _outlives(k[2]) and isinstance(k[1], tuple) and k[1][:1] == ("tuple",)]
                if memo and not oracle and not names:
                    continue  # (the empty base: judged on the larger ones)
                if memo and not oracle and names:
                    keyd = memo[0][0][1]
                    mentions = [nm for nm in names if F.mentions(keyd, {("obj", nm)})]
                    n_paths += 1
                    if len(mentions) < len(names):
                        rep.violation("PART.partition", site, f"{n} conditionals, {mode}: verdict from a memo", "the verdict comes from the tolerance tests of the conditionals the base holds at the time of the call",
                                      extracted=f"taken from state kept between calls under a key that does not contain the conditionals: {F.show_desc(keyd)[:140]}", required="tested, or remembered under a key that determines the conditionals", function=site)
                        continue
                    raise AnalysisError(f"{site}: the verdict is taken from state kept between calls; cannot decide that it belongs to these conditionals")
                n_paths += 1
                # what the answers determine; a test that was never asked may have either answer
                def reference(orc):
                    remaining, layers = list(names), []
                    while True:
                        if not remaining:
                            return layers + ([frozenset()] if weakly else [])
                        F_ = frozenset(remaining)
                        R_ = [c for c in remaining if orc[(F_, c)]]
                        if not R_:
                            if weakly and orc[(F_, None)]:
                                return layers + [F_]
                            return False
                        layers.append(frozenset(R_))
                        remaining = [c for c in remaining if c not in R_]

                def needed(orc):
                    try:
                        reference(orc)
                        return None
                    except KeyError as e:
                        return e.args[0]

                completions = [dict(oracle)]
                wants = set()
                for _ in range(12):
                    nxt = []
                    done = True
                    for orc in completions:
                        mk = needed(orc)
                        if mk is None:
                            nxt.append(orc)
                        else:
                            done = False
                            nxt.append({**orc, mk: True})
                            nxt.append({**orc, mk: False})
                    completions = nxt
                    if done:
                        break
                for orc in completions:
                    r_ = reference(orc)
                    wants.add(r_ if r_ is False else tuple(r_))
                rv = p.outcome[1]
                first = rv.items[0] if isinstance(rv, TupleV) and rv.items else rv
                if isinstance(first, Const) and first.value is False:
                    got = False
                else:
                    o = p.state.heap.get(first.oid) if isinstance(first, Ref) else None
                    if not isinstance(o, HList) or not all(sg[0] == "one" for sg in o.segs):
                        raise AnalysisError(f"{site}: the returned partition is not a concrete list of layers: {view(p.state, first)!r}"[:240])
                    got = []
                    for sg in o.segs:
                        L = p.state.heap.get(sg[1].oid) if isinstance(sg[1], Ref) else None
                        if not isinstance(L, HList) or not all(x[0] == "one" for x in L.segs):
                            raise AnalysisError(f"{site}: a layer of the returned partition is not a concrete list: {view(p.state, sg[1])!r}"[:240])
                        mem = []
                        for x in L.segs:
                            v = x[1]
                            if isinstance(v, ElemV) and isinstance(v.var, tuple) and v.var[:1] == ("obj",):
                                mem.append(v.var[1])
                            elif isinstance(v, Const) and v.value in keys:
                                mem.append(keys[v.value])
                            else:
                                mem.append(repr(v))
                        if len(set(mem)) != len(mem):
                            mem.append("(repeated member)")
                        got.append(frozenset(mem))
                    got = tuple(got)
                asked = ", ".join(f"{'tol(' + t + ')' if t else 'sat'}|{{{','.join(sorted(S_))}}}={'yes' if a else 'no'}" for (S_, t), a in sorted(oracle.items(), key=lambda kv: (-len(kv[0][0]), str(kv[0][1]))))
                show = lambda r: "False" if r is False else str([sorted(L) for L in r])  # noqa: E731
                rep.check(len(wants) == 1 and got in wants, "PART.partition", site, f"{n} conditionals, {mode}: {asked or 'no test'}",
                          "the result is the partition the tolerance tests determine" + ("" if len(wants) == 1 else " (a test the definition needs was never asked)"),
                          extracted=show(got), required=" or ".join(sorted(show(w) for w in wants)) + ("" if len(wants) == 1 else " depending on a test that was not asked"), function=site)
    rep.floor(f"PART.partition evaluations of {qual.rsplit('.', 1)[1]}", n_paths, 30)


def evaluated_duplicates(rep, ex: Explorer, qual: str, role: str):
    """PART.partition [one conditional listed twice]: a base that holds the same conditional object under two keys has two
    entries; when the conditional is tolerated both entries are in the first layer (two keys for the key-based routine, the
    object twice for the object-based one) - nothing is merged by identity or by text."""
    from ..absvals import HDict, HObj, HList
    from ..harness import BB_CLASS

    site = fn_label(ex.prog, qual)
    keys = (0, 13)

    def setup(I):
        c = ElemV(("obj", "c0"), "cond")
        conds = I.alloc(HDict(entries={k: c for k in keys}))
        bb = I.alloc(HObj(BB_CLASS, {"conditionals": conds, "signature": Sym(("signature", "D")), "name": Sym(("bbname", "D"), "str")}))
        return [bb, Const("z3"), Const(False)], {}

    paths = ex.run(qual, setup, key="part-eval-dup", unroll_while=5)
    n = 0
    for p in paths:
        if p.outcome[0] != "return":
            continue
        sats = [v for k, v in p.decisions if k[0] == "sat"]
        if not sats or not all(sats):
            continue  # (judged on the answers "tolerated" only: the other outcome is False, decided by the main evaluation)
        rv = p.outcome[1]
        first = rv.items[0] if isinstance(rv, TupleV) and rv.items else rv
        o = p.state.heap.get(first.oid) if isinstance(first, Ref) else None
        n += 1
        got = None
        if isinstance(o, HList) and all(sg[0] == "one" for sg in o.segs):
            got = []
            for sg in o.segs:
                L = p.state.heap.get(sg[1].oid) if isinstance(sg[1], Ref) else None
                if not isinstance(L, HList) or not all(x[0] == "one" for x in L.segs):
                    raise AnalysisError(f"{site}: a layer of the returned partition is not a concrete list")
                got.append(sorted([(x[1].value if isinstance(x[1], Const) else "c0" if isinstance(x[1], ElemV) else repr(x[1])) for x in L.segs], key=repr))
        want = [sorted(keys, key=repr)] if role == "key" else [["c0", "c0"]]
        rep.check(got == want, "PART.partition", site, "one conditional under two keys, tolerated", "every entry of the base is in the partition, also when two entries hold the same conditional object",
                  extracted=str(got), required=str(want), function=site)
    rep.floor(f"PART.partition duplicate-entry evaluations of {qual.rsplit('.', 1)[1]}", n, 1)


def check_all(rep, ex: Explorer, only=None):
    stats = {}
    for qual, role in FUNCS.items():
        if only and qual not in only:
            continue
        evaluated(rep, ex, qual, role)
        evaluated_duplicates(rep, ex, qual, role)
        evaluated_second_call(rep, ex, qual, role)
        # a routine that hands the work to its sibling (the partition computed once, over keys or over conditionals, and
        # converted): the loop the generic reading looks for lives in the sibling and is read there; what this routine makes
        # of the sibling's result is decided by the evaluation above
        import ast as _ast
        fi_ = ex.prog.function(qual)
        others = {q.rsplit(".", 1)[1] for q in FUNCS if q != qual}
        if any(isinstance(n_, _ast.Call) and isinstance(n_.func, _ast.Name) and n_.func.id in others for n_ in _ast.walk(fi_.node)):
            rep.ok("PART.partition", fn_label(ex.prog, qual), "generic reading", "delegates to the sibling routine; decided by evaluation on bases of 0..3 conditionals and by the sibling's own reading")
            stats[qual] = None
            continue
        # The generic reading (any number of conditionals) matches the shape of the layer loop: two lists filled in one loop,
        # the remaining family advanced, ....  Where it cannot discharge an obligation although the evaluation above has found
        # the function right on every base of 0..3 conditionals in both modes, the loop is written in a shape the generic
        # reading does not know (answers collected first and split afterwards, lists kept in a mapping keyed by the verdict, ...):
        # that is recorded, not reported - for the obligation that is purely about that shape (PART.split: "two lists").  What
        # the remaining family starts with and how it advances (PART.entry / advance / terminal) stands: slips there need not
        # show on three distinct conditionals.  Where the evaluation has found a fault all findings stand.
        from ..report import Report as _Report

        site_ = fn_label(ex.prog, qual)
        eval_bad = any(v_["rule"].startswith("PART.") and v_.get("function") == site_ for v_ in rep.violations + rep.known_hits)
        scratch = _Report(rep.prop, rep.tier, rep.root)
        scratch.only = rep.only
        scratch.known = {"findings": [], "fixed": []}
        try:
            st_ = check_function(scratch, ex, qual, role)
            if scratch.violations and not eval_bad and all(v_["rule"] == "PART.split" for v_ in scratch.violations):
                rep.ok("PART.partition", site_, "generic reading", "the layer loop is not in a shape the generic rules read (" + "; ".join(sorted({v_["rule"] + " " + v_["slot"] for v_ in scratch.violations}))[:160] +
                       "); decided by evaluation on bases of 0..3 conditionals only")
                stats[qual] = None
                continue
            stats[qual] = check_function(rep, ex, qual, role)
        except AnalysisError as e:
            # the generic (any number of conditionals) reading does not apply to this way of writing the loop: the
            # evaluation above has decided the function for bases of up to three conditionals
            rep.ok("PART.partition", fn_label(ex.prog, qual), "generic reading", "the loop is not in a form the generic rules read; decided by evaluation on bases of 0..3 conditionals only", extracted=str(e)[:200])
            stats[qual] = None
    done = [s for s in stats.values() if s]
    if done:
        rep.floor("PART tolerance-test sites", sum(s["queries"] for s in done), len(done))
        rep.floor("PART decision rows", sum(s["rows"] for s in done), 6 * len(done))
    return stats


def check_siblings(rep, ex: Explorer):
    """PART.siblings: both variants (object- and key-based) are held to the same reference by PART.partition; how many
    abstract paths each has is recorded, not demanded (it depends on how each is written)."""
    a = analyse(ex, "inference.consistency_sat.consistency")
    b = analyse(ex, "inference.consistency_sat.consistency_indices")
    rep.ok("PART.siblings", "inference/consistency_sat.py:consistency|consistency_indices", "same reference", "both variants are evaluated against one reference (PART.partition)", extracted=f"{len(a)}/{len(b)} abstract paths")


def evaluated_second_call(rep, ex: Explorer, qual: str, role: str):
    """PART.partition [second call on a base that changed]: the partition of a base is that of the conditionals it holds at the
    time of the call.  The routine is run on a base of one conditional, that conditional is then replaced under its key (same
    key, same size), and the routine is run again on the same base object: the second verdict must rest on a tolerance test of
    the conditional the base holds now - not on anything the first call left behind (on the base object, on the module)."""
    from ..absvals import HDict, HObj
    from ..harness import BB_CLASS

    prog = ex.prog
    site = fn_label(prog, qual)
    fi = prog.function(qual)
    n = 0
    from .. import depth
    # thorough tier: also on a base of two conditionals of which the second is replaced (a memo that only goes stale on larger
    # bases, a key that looks at the first conditional only)
    shapes = [((7, "old"),)] + ([((0, "keep"), (7, "old"))] if depth.thorough() else [])
    for weakly, shape in [(w, sh) for w in (False, True) for sh in shapes]:
        marks = {}

        def setup(I, weakly=weakly, marks=marks, shape=shape):
            conds = I.alloc(HDict(entries={k_: ElemV(("obj", nm_), "cond") for k_, nm_ in shape}))
            bb = I.alloc(HObj(BB_CLASS, {"conditionals": conds, "signature": Sym(("signature", "D")), "name": Sym(("bbname", "D"), "str")}))
            from ..absint import PathEnd
            try:
                I.call_function(fi, [bb, Const("z3"), Const(weakly)], {}, None, force_inline=True)
            except PathEnd as e_:
                # (the first call does not come back on this path - a loop that never ends is reported by the evaluation of
                # the single call; there is no second call to judge)
                raise AnalysisError(f"{site}: the first of two calls in a row does not return ({e_.args[0][0] if e_.args and isinstance(e_.args[0], tuple) else e_})")
            I.deref(conds).entries[7] = ElemV(("obj", "new"), "cond")
            I.log("second.call", None)
            return [bb, Const("z3"), Const(weakly)], {}

        I_ = Interp(prog)
        I_.unroll_while = 5
        try:
            paths = I_.explore(qual, setup)
        except AnalysisError as e:
            raise AnalysisError(f"{site}: two calls in a row on one base cannot be evaluated: {e}"[:300])
        if ex.report is not None:
            ex.report.absorb_stats(I_)
        ver_new = canon_item(("f", verification(("obj", "new"))))
        for p in paths:
            if p.outcome[0] != "return":
                continue
            evs = [ev for ev, Q in iter_events(p.events)]
            cut = next((i for i, ev in enumerate(evs) if ev.kind == "second.call"), None)
            if cut is None:
                raise AnalysisError(f"{site}: marker of the second call not found")
            tests = [ev for ev in evs[cut:] if ev.kind == "query"]
            asked_new = any(ver_new in [canon_item(i) for i in flat(ev.frames)] for ev in tests)
            n += 1
            mode = ("extended" if weakly else "strict") + (", two conditionals" if len(shape) > 1 else "")
            rep.check(asked_new, "PART.partition", site, f"second call after a conditional was replaced ({mode})",
                      "the verdict comes from the tolerance tests of the conditionals the base holds at the time of the call (nothing remembered on the base object or the module stands in for them)",
                      extracted=("tests the conditional now in the base" if asked_new else f"answers without testing the conditional now in the base ({len(tests)} tests in the second call): the first call's result is handed out again"),
                      required="a tolerance test of the new conditional", function=site)
    rep.floor("second calls evaluated", n, 2)
