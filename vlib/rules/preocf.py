"""Ranking objects (inference/preocf.py): C16, C17, C18, C20."""
from __future__ import annotations

import ast

from .. import formula as F
from ..absint import iter_events, Interp
from ..absvals import (Const, Sym, PredV, FormulaV, LinV, Ref, ElemV, TupleV, HObj, HDict, HList, HSolver, HOpaque, PTRUE,
                       desc, show_pred)
from ..front import AnalysisError
from ..harness import (Explorer, make_belief_base, make_epistemic_state, make_query, A, B, QUERY, material, verification,
                       falsification, fn_label, decided, view, KEYS_D, canon_items, canon_item, flat, show_items, each_item,
                       summary_consistency, P_value, PVAR, layer_fam, LEN_P, LAST, K, returned_bool, truth_rows, eval_pred,
                       pred_atoms, value_on_path, pred_on_path)
from ..merge import case_guard
from . import wrappers
from .sysz import not_falsified

PO = "inference.preocf.PreOCF"
CUS = "inference.preocf.CustomPreOCF"
ZP = "inference.preocf.SystemZPreOCF"
CR = "inference.preocf.RandomMinCRepPreOCF"
WORLDS = ("members", ("worlds",))
SIG = ("signature",)
PHI = ("opaque", "PHI")


def rank_world_summary(I, fi, args, kwargs, node):
    I.log("rank_world", node, args=tuple(args[1:]), kwargs=dict(kwargs))
    return Sym(("rank", desc(args[1])), "int")


def _summ(extra=None):
    s = dict(wrappers.SUMMARIES)
    for c in ("PreOCF", "CustomPreOCF", "SystemZPreOCF", "RandomMinCRepPreOCF"):
        s[f"inference.preocf.{c}.rank_world"] = rank_world_summary
    if extra:
        s.update(extra)
    return s


def _obj(I, cls=CUS, extra=None):
    b = I.fresh_var("w")
    ranks = I.alloc(HDict(each=[("each", b, WORLDS, PTRUE, ElemV(b, "key"), Sym(("storedrank", b), "optint"))]))
    attrs = {"ranks": ranks, "signature": ElemV(SIG, "coll", "str"), "conditionals": Const(None), "ranking_system": Const("custom"),
             "_metadata": I.alloc(HDict()), "_state": I.alloc(HDict())}
    if extra:
        attrs.update(extra(I))
    return I.alloc(HObj(cls, attrs))


def world_items(world_var, binder=("var", "_i")):
    """The literals of a world: for every position i, atom signature[i] if bit i of the world is set, else its
    negation (same i on both sides)."""
    rng = ("members", ("range", F.lin_const(0), F.lin_term(("len", SIG))))
    name = ("atom", ("name", ("elem", ("at", SIG, ("lin", F.lin_term(("elem", binder, "pos")))), "str")), "v")
    bit = ("truthy", ("int", ("item", ("elem", world_var, "key"), ("elem", binder, "pos"))))
    return [("each", binder, rng, bit, ("f", name)), ("each", binder, rng, ("not", bit), ("f", ("not", name)))]


# ----------------------------------------------------------------------------------------------
def world_literals(rep, ex: Explorer):
    """WORLD.literals on symbolize_bitvec."""
    qual = f"{PO}.symbolize_bitvec"
    site = fn_label(ex.prog, qual)
    W = ("obj", "world")

    def setup(I):
        return [_obj(I), ElemV(W, "key")], {}

    paths = ex.run(qual, setup, summaries=_summ(), key="symb")
    n = 0
    for p in paths:
        if p.outcome[0] != "return":
            continue
        vw = view(p.state, p.outcome[1])
        items = []
        if isinstance(vw, tuple) and vw[0] == "list":
            for s in vw[1]:
                if s[0] == "each" and isinstance(s[4], FormulaV):
                    items.append(("each", s[1], s[2], s[3], ("f", s[4].f)))
                elif s[0] == "one" and isinstance(s[1], FormulaV):
                    items.append(("f", s[1].f))
        n += 1
        want = world_items(W)
        rep.check(canon_items(items) == canon_items(want), "WORLD.literals", site, "bit/atom agreement", "bit i set ⇒ atom signature[i], else its negation - the same i on both sides, every position once",
                  extracted=show_items(items), required=show_items(want), function=site)
    rep.floor("symbolize_bitvec paths", n, 1)


def _lits_summary_for(ex):
    """symbolize_bitvec summarised for concrete worlds: the literals of world w as one opaque formula (WORLD.literals decides
    what they are)."""
    def lits_summary(I, fi, args, kwargs, node):
        w = args[1] if len(args) > 1 else kwargs.get("bitvec")
        if not (isinstance(w, Const) and isinstance(w.value, str)):
            raise AnalysisError(f"{fn_label(ex.prog, PO + '.symbolize_bitvec')}: literals of a world that is not one of the ranking's worlds ({w!r})")
        return I.alloc(HList([("one", FormulaV(("atom", ("worldlits", w.value), "v"), "pysmt"))]))
    return lits_summary


def _is_worldlits(it):
    return it[0] == "f" and isinstance(it[1], tuple) and it[1][:1] == ("atom",) and isinstance(it[1][1], tuple) and it[1][1][:1] == ("worldlits",)


def memo_audit(rep, ex: Explorer, rule: str, kinds=("text", "local-id")):
    """What the ranking object remembers between calls (and pickles along) is stored under keys that identify what was
    asked: a formula's *text* does not (pysmt abbreviates deep sub-terms: different formulas print alike) and a
    process-local identity (node_id(), id(), hash()) means nothing after the object was loaded in another process.
    Decided on the functions that take a formula: they are evaluated on a small concrete ranking and every store into /
    lookup in a mapping is read off."""
    import itertools

    from ..harness import memo_keys

    worlds = ["0", "1"]
    summ = _summ({f"{PO}.symbolize_bitvec": _lits_summary_for(ex)})
    n = 0
    fns = ("formula_rank", "filter_worlds_by_conditionalization", "compute_conditionalization", "conditionalize_existing_ranks", "conditional_acceptance")
    # (the base class and every subclass that overrides one of them)
    for cls_, fn in [(c_, f_) for c_ in (PO, CUS, ZP, CR) for f_ in fns]:
        qual = f"{cls_}.{fn}"
        if ex.prog.functions.get(qual) is None:
            continue
        site = fn_label(ex.prog, qual)

        def setup(I, fn=fn, cls_=cls_):
            ranks = I.alloc(HDict(entries={w: LinV(F.lin_term(("r", w))) for w in worlds}))
            o = I.alloc(HObj(CUS if cls_ == PO else cls_, {"ranks": ranks, "signature": I.alloc(HList([("one", Const("a"))])), "conditionals": Const(None),
                                   "ranking_system": Const("custom"), "_metadata": I.alloc(HDict()), "_state": I.alloc(HDict())}))
            arg = make_query() if fn == "conditional_acceptance" else FormulaV(PHI, "pysmt")
            return [o, arg], {}

        paths = ex.run(qual, setup, summaries=summ, key=f"memo-audit-{cls_}-{fn}")
        n += 1
        found = {}
        for p in paths:
            for kind, d, node in memo_keys(p):
                if kind in kinds:
                    found.setdefault(kind, (d, node))
        for kind, (d, node) in found.items():
            where = f"{site}:{node.lineno}" if node is not None else site
            if kind == "text":
                rep.violation(rule, where, "memo keyed by text", "what is remembered about a formula is kept under a key that identifies the formula (its text does not: pysmt abbreviates deep sub-terms, two different formulas share a text)",
                              extracted=F.show_desc(d)[:120], required="the formula itself, or no memo", function=site)
            else:
                rep.violation(rule, where, "memo keyed by a process-local id", "what the object keeps between calls is pickled along: a key that is only an identity inside this process names another formula (or none) after loading",
                              extracted=F.show_desc(d)[:120], required="a key that survives pickling, or state that is not pickled", function=site)
        if not found:
            rep.ok(rule, site, "memo keys", "no mapping is keyed by the text of a formula or by a process-local identity")
    rep.floor(f"{rule} functions audited for memo keys", n, 4)


def rank_min(rep, ex: Explorer):
    """RANK.min on formula_rank, decided by evaluation: the worlds of one and two atoms, the rank of a world a symbolic
    integer (rank_world summarised), the outcome of every satisfiability test free.  Every test must be asked over the
    literals of one world and the formula, nothing else (nothing left over from the previous world); every world must be
    tested; and whatever the tests answer the result is the least rank among the worlds whose test said yes - None when
    there is none - whether it is kept as a running minimum, collected and minimised, or compared explicitly (then every
    assignment of small values to the ranks selects its path)."""
    import itertools

    qual = f"{PO}.formula_rank"
    site = fn_label(ex.prog, qual)

    def rank_world(I, fi, args, kwargs, node):
        w = args[1] if len(args) > 1 else kwargs.get("world")
        if not (isinstance(w, Const) and isinstance(w.value, str)):
            raise AnalysisError(f"{site}: rank of something that is not a world of the ranking ({w!r})")
        I.log("rank_world", node, args=tuple(args[1:]), kwargs=dict(kwargs))
        return LinV(F.lin_term(("r", w.value)))

    summ = _summ({f"{PO}.symbolize_bitvec": _lits_summary_for(ex)})
    for c in ("PreOCF", "CustomPreOCF", "SystemZPreOCF", "RandomMinCRepPreOCF"):
        summ[f"inference.preocf.{c}.rank_world"] = rank_world
    n = 0
    for size in (1, 2):
        sig = ["a", "b"][:size]
        worlds = ["".join(t) for t in itertools.product("01", repeat=size)]

        def setup(I, sig=sig, worlds=worlds):
            ranks = I.alloc(HDict(entries={w: Sym(("stored", w), "optint") for w in worlds}))
            o = I.alloc(HObj(CUS, {"ranks": ranks, "signature": I.alloc(HList([("one", Const(x)) for x in sig])), "conditionals": Const(None),
                                   "ranking_system": Const("custom"), "_metadata": I.alloc(HDict()), "_state": I.alloc(HDict())}))
            return [o, FormulaV(PHI, "pysmt")], {}

        paths = ex.run(qual, setup, summaries=summ, key=f"frank-eval-{size}")
        groups = {}
        for p in paths:
            dec = dict(p.decisions)
            answers = {}
            ok_path = True
            for ev, Q in iter_events(p.events):
                if ev.kind != "query":
                    continue
                fr = list(flat(ev.frames))
                ws = [it[1][1][1] for it in fr if _is_worldlits(it)]
                rest = [it for it in fr if not _is_worldlits(it)]
                good = len(ws) == 1 and canon_items(rest) == canon_items([("f", PHI)])
                rep.check(good, "RANK.min", f"{site}:{ev.node.lineno}", "satisfaction test", "a world counts iff world literals ∧ formula is satisfiable, with nothing else in scope (the literals of the previous world are gone)",
                          extracted=show_items(fr)[:220], required="{literals of one world ; the formula}", function=site)
                if not good:
                    ok_path = False
                    break
                a = dec.get(("sat", ev.qid))
                if a is None:
                    continue
                if ws[0] in answers and answers[ws[0]] != a:
                    ok_path = False  # the same test answered differently twice: not an execution
                    break
                answers[ws[0]] = a
            if not ok_path:
                continue
            other = [(k, v) for k, v in p.decisions if k[0] != "sat"]
            foreign = [(k, v) for k, v in other if k[0] not in ("cmp", "nonzero")]
            if foreign and not answers and p.outcome[0] == "return":
                # an answer without looking at a single world, decided by something else (a memo kept between calls, a flag)
                n += 1
                rep.violation("RANK.min", site, f"world enumeration (|Σ|={size})", "the rank of a formula is taken over the worlds of this ranking, every time it is asked",
                              extracted=f"returns {p.outcome[1]!r} without testing a world when {show_pred(foreign[0][0] if foreign[0][1] else ('not', foreign[0][0]))[:120]}"[:260], required="every world tested", function=site)
                continue
            other = [(k, v) for k, v in other if k[0] in ("cmp", "nonzero")]
            groups.setdefault(tuple(sorted(answers.items())), []).append((p, other))
        for key, members in sorted(groups.items()):
            answers = dict(key)
            S = sorted(w for w, a in answers.items() if a)
            slot = f"|Σ|={size}: models {S}"
            missing = [w for w in worlds if w not in answers]
            if missing:
                n += 1
                rep.violation("RANK.min", site, f"world enumeration (|Σ|={size})", "the rank of a formula is taken over all worlds of the ranking", extracted=f"worlds {missing} are never tested (answers {answers})", required="every world tested", function=site)
                continue
            n += 1
            if any(p.outcome[0] != "return" for p, _ in members):
                bad = next(p for p, _ in members if p.outcome[0] != "return")
                rep.violation("RANK.min", site, slot, "the rank of a formula is defined for every formula (None without models)", extracted=f"{bad.outcome[0]} {bad.outcome[1]!r}"[:100], required="a rank or None", function=site)
                continue
            if not S:
                okn = all(isinstance(p.outcome[1], Const) and p.outcome[1].value is None for p, _ in members)
                rep.check(okn, "RANK.min", site, slot, "no world satisfies the formula ⇒ undefined", extracted=repr(members[0][0].outcome[1]), required="None", function=site)
                continue
            want_atoms = {("r", w) for w in S}
            stale = [p for p, other in members if "'stored'" in repr(other) or "'stored'" in repr(desc(p.outcome[1]))]
            if stale:
                rep.violation("RANK.min", site, slot, "the candidates are the ranks rank_world gives (computed on demand), not whatever the cache holds", extracted=f"the cached entry of a world is used: {stale[0].outcome[1]!r}"[:160], required="rank_world(world)", function=site)
                continue
            if len(members) == 1 and not members[0][1]:
                rv = members[0][0].outcome[1]
                got = _min_atoms(rv) if isinstance(rv, LinV) else None
                rep.check(got == want_atoms, "RANK.min", site, slot, "the result is the least rank among the worlds that satisfy the formula", extracted=repr(rv)[:160], required=f"min{sorted(w for w in S)}", function=site)
                continue
            atoms = sorted(want_atoms)
            bad = None
            for vals in itertools.product((0, 1, 2), repeat=len(atoms)):
                env = dict(zip(atoms, vals))
                sel = [p for p, other in members if _decisions_hold(other, env)]
                if len(sel) != 1:
                    raise AnalysisError(f"{site}: {len(sel)} paths for one assignment of the ranks ({slot})")
                rv = sel[0].outcome[1]
                try:
                    val = None if isinstance(rv, Const) and rv.value is None else _lin_eval(rv if isinstance(rv, LinV) else desc(rv), env)
                except AnalysisError:
                    val = repr(rv)
                if val != min(vals):
                    bad = bad or (env, val)
            rep.check(bad is None, "RANK.min", site, slot, "the result is the least rank among the worlds that satisfy the formula",
                      extracted=(f"ranks {dict((k[1], v) for k, v in bad[0].items())} give {bad[1]}" if bad else f"the minimum under every assignment of the ranks ({len(members)} paths)"), required="the least rank", function=site)
    rep.floor("RANK.min evaluations", n, 12)


def accept_decision(rep, ex: Explorer):
    """ACCEPT.decision on conditional_acceptance - of the base class and of every subclass that spells out its own (the
    verdict of a System Z or c-representation object is that subclass's method)."""
    prog = ex.prog
    owners = [PO] + sorted(c for c in prog.classes if c != PO and PO in prog.mro(c) and "conditional_acceptance" in prog.classes[c].methods)
    for owner in owners:
        _accept_decision_of(rep, ex, owner)


def _accept_decision_of(rep, ex: Explorer, owner):
    qual = f"{owner}.conditional_acceptance"
    site = fn_label(ex.prog, qual)

    held = {}

    def frank(I, fi, args, kwargs, node):
        f = args[1]
        I.log("formula_rank", node, formula=f, receiver=args[0])
        return Sym(("frank", F.canon(f.f) if isinstance(f, FormulaV) else desc(f)), "optint")

    def setup(I):
        held["self"] = _obj(I) if owner == PO else _obj(I, cls=owner, extra=lambda I_: {"_z_partition": ElemV(("zpart",), "coll"), "_impacts": ElemV(("impacts",), "coll")})
        return [held["self"], make_query()], {}

    paths = ex.run(qual, setup, summaries=_summ({f"{PO}.formula_rank": frank}), key="accept-" + owner)
    # the two ranks are those of this ranking function: taken on another object (a marginal, a conditionalisation - both are
    # built from the ranks *stored* so far, unranked worlds left out) they are ranks of something else as long as not every
    # world was ranked before
    foreign = None
    for p in paths:
        forced = any(ev.kind == "rank_world" for ev, Q in iter_events(p.events))
        for ev, Q in iter_events(p.events):
            if ev.kind == "formula_rank" and isinstance(ev.data.get("receiver"), Ref) and isinstance(held.get("self"), Ref) and ev.data["receiver"].oid != held["self"].oid:
                if forced:
                    raise AnalysisError(f"{site}: formula ranks are taken on another ranking object after worlds were ranked; cannot decide that it stands for this one")
                foreign = foreign or ev
    if foreign is not None:
        rep.violation("ACCEPT.decision", f"{site}:{foreign.node.lineno}", "whose ranks", "acceptance compares rank(A∧B) and rank(A∧¬B) of this ranking function (an object derived from the stored ranks knows only the worlds ranked so far)",
                      extracted="formula_rank is called on another ranking object built inside the call", required="self.formula_rank", function=site)
        return
    V = ("frank", F.canon(verification(QUERY)))
    N = ("frank", F.canon(falsification(QUERY)))
    n = 0
    for p in paths:
        if p.outcome[0] != "return":
            continue
        for env, val in truth_rows(p):
            vn = env.get(("isnone", V))
            nn = env.get(("isnone", N))
            lt = None
            for k, v in env.items():
                if k[0] == "cmp" and k[1] == "<" and isinstance(k[2], tuple) and k[2][:1] == ("lin",):
                    terms = dict(k[2][1][0])
                    if terms.get(V) == 1 and terms.get(N) == -1:
                        lt = v
                    elif terms.get(V) == -1 and terms.get(N) == 1:
                        lt = ("rev", v)
                elif k[0] == "cmp" and k[1] == "<":
                    if (k[2], k[3]) == (V, N):
                        lt = v
                    elif (k[2], k[3]) == (N, V):
                        lt = ("rev", v)
            unknown = [k for k in env if k not in (("isnone", V), ("isnone", N)) and not (k[0] == "cmp" and k[1] == "<")]
            # a test of an attribute of the conditional asked about (its strength, its text) is a test of the input: the property
            # holds for every conditional, so each of its outcomes is a case of its own and the row is judged as it stands
            of_input = [k for k in unknown if "('obj', 'query')" in repr(k) and "frank" not in repr(k) and "self" not in repr(k)]
            unknown = [k for k in unknown if k not in of_input]
            if unknown:
                raise AnalysisError(f"{site}: acceptance depends on {unknown[0]!r}")
            case_ = "".join(f" [{F.show_desc(k) if hasattr(F, 'show_desc') else k!r}={env[k]}]" for k in of_input)[:80]
            n += 1
            if vn is True:
                want, slot = False, "v undefined"
            elif vn is False and nn is True:
                want, slot = True, "v defined, n undefined"
            elif vn is False and nn is False:
                if lt is None:
                    raise AnalysisError(f"{site}: both ranks defined but not compared")
                if isinstance(lt, tuple):
                    # n < v was tested: accepted iff v < n; with n<v True -> False; n<v False -> v<=n : cannot decide strictness
                    rep.violation("ACCEPT.decision", site, "comparison" + case_, "accepted iff rank(A∧B) < rank(A∧¬B) (strict), for every conditional", extracted="compares rank(A∧¬B) < rank(A∧B)" + case_, required="rank(A∧B) < rank(A∧¬B)", function=site)
                    continue
                want, slot = lt, f"both defined, v<n={lt}"
            elif vn is None and isinstance(val, bool):
                # the answer is given without looking at rank(A∧B): it must be right for both cases; with rank(A∧B)
                # undefined (no world verifies) the conditional is not accepted
                rep.check(val is False, "ACCEPT.decision", site, f"rank(A∧B) not consulted (rank(A∧¬B) {'undefined' if nn else 'defined' if nn is False else 'not consulted'})",
                          "a conditional without verifying world is not accepted, whatever rank(A∧¬B) is", extracted=f"answer {val} without testing rank(A∧B)", required="False when rank(A∧B) is undefined", function=site)
                continue
            else:
                raise AnalysisError(f"{site}: acceptance path without a test of rank(A∧B)")
            rep.check(val == want, "ACCEPT.decision", site, slot + case_, f"answer {val}", extracted=str(val), required=str(want), function=site)
    rep.floor("ACCEPT.decision rows", n, 3)


def _min_atoms(d):
    """The set of atoms a (possibly nested) minimum ranges over; None when the value is not a pure minimum of atoms."""
    if isinstance(d, LinV):
        d = ("lin", d.lin)
    if isinstance(d, tuple) and d[:1] == ("one",) and len(d) == 2:
        return _min_atoms(d[1])
    if isinstance(d, tuple) and d[:1] == ("lin",):
        terms, c = d[1]
        if c != 0 or len(terms) != 1 or terms[0][1] != 1:
            return None
        return _min_atoms(terms[0][0])
    if isinstance(d, tuple) and d[:1] == ("min",):
        out = set()
        for o in d[1]:
            r = _min_atoms(o)
            if r is None:
                return None
            out |= r
        return out
    if isinstance(d, tuple) and d[:1] == ("r",):
        return {d}
    return None


def _lin_eval(d, env):
    """Value of a linear term (possibly over nested min / max) under an assignment of its atoms."""
    if isinstance(d, LinV):
        d = ("lin", d.lin)
    if isinstance(d, tuple) and d[:1] == ("one",) and len(d) == 2:
        return _lin_eval(d[1], env)
    if isinstance(d, tuple) and d[:1] == ("c",) and len(d) == 2:
        return d[1]
    if isinstance(d, tuple) and d[:1] == ("lin",):
        terms, c = d[1]
        return c + sum(k * _lin_eval(t, env) for t, k in terms)
    if isinstance(d, tuple) and d[:1] in (("min",), ("max",)):
        vals = [_lin_eval(o, env) for o in d[1]]
        return min(vals) if d[0] == "min" else max(vals)
    if d in env:
        return env[d]
    raise AnalysisError(f"cannot evaluate {F.show_desc(d)[:80]} under an assignment of the ranks")


def _decisions_hold(decisions, env):
    for k, v in decisions:
        if k[0] == "cmp" and k[1] in ("<", "==") and isinstance(v, bool):
            a, b = _lin_eval(k[2], env), _lin_eval(k[3], env)
            if ((a < b) if k[1] == "<" else (a == b)) != v:
                return False
        elif k[0] == "nonzero" and isinstance(v, bool):
            if (_lin_eval(("lin", k[1]), env) != 0) != v:
                return False
        else:
            raise AnalysisError(f"decision {show_pred(k)[:80]} is not a comparison of ranks")
    return True


def marg_bits(rep, ex: Explorer):
    """MARG.bits on marginalize, decided by evaluating it: concrete signatures of 1..3 (thorough: 4) atoms with all their
    worlds, every subset of eliminated atoms (also none, all, and a name that is not in the signature), the rank of every
    world a *symbolic* integer r(w) - total rankings and rankings with unranked worlds.  The ranks handed to the new
    ranking object must map every reduced world to min{ r(w) : w ranked, w restricted to the kept positions = it } (a
    reduced world without ranked extension absent or None), and the new signature must be the kept atoms in order."""
    import itertools

    from .. import depth as _depth

    qual = f"{PO}.marginalize"
    site = fn_label(ex.prog, qual)
    n = 0
    names = ["a", "b", "c", "d"]
    sizes = (1, 2, 3, 4) if _depth.thorough() else (1, 2, 3)
    for size in sizes:
        sig = names[:size]
        worlds = ["".join(t) for t in itertools.product("01", repeat=size)]
        for pattern in ("total", "partial", "unranked"):
            unranked = set() if pattern == "total" else ({w for k, w in enumerate(worlds) if k % 3 == 1} if pattern == "partial" else set(worlds))
            if pattern == "partial" and not unranked:
                continue
            elims = [list(c) for r in range(size + 1) for c in itertools.combinations(sig, r)]
            elims.append([sig[-1], "zz"])
            if size >= 2:
                elims.append([sig[1], sig[0]])  # not in signature order
            if pattern == "unranked":
                elims = elims[:2]
            for elim in elims:
                got = []

                def setup(I, sig=sig, worlds=worlds, unranked=unranked, elim=elim):
                    ranks = I.alloc(HDict(entries={w: (Const(None) if w in unranked else LinV(F.lin_term(("r", w)))) for w in worlds}))
                    o = I.alloc(HObj(CUS, {"ranks": ranks, "signature": I.alloc(HList([("one", Const(x)) for x in sig])), "conditionals": Const(None),
                                           "ranking_system": Const("custom"), "_metadata": I.alloc(HDict()), "_state": I.alloc(HDict())}))
                    return [o, I.alloc(HList([("one", Const(x)) for x in elim]))], {}

                def init_custom(I, fi, args, kwargs, node, got=got):
                    vals = [a for a in list(args) + list(kwargs.values())]
                    rk = kwargs.get("ranks")
                    if rk is None:
                        rk = next((a for a in vals if isinstance(a, Ref) and isinstance(I.deref(a), HDict) and (I.deref(a).entries or I.deref(a).each or True) and a is not kwargs.get("metadata")), None)
                    sg = kwargs.get("signature")
                    if sg is None:
                        sg = next((a for a in vals if isinstance(a, Ref) and isinstance(I.deref(a), HList)), None)
                    rd = I.deref(rk) if isinstance(rk, Ref) else None
                    res = (dict(rd.entries) if isinstance(rd, HDict) and not rd.each and not rd.sym else None, view(I.state, sg) if sg is not None else None, node.lineno)
                    got.append(res)
                    I.log("init_custom", node, result=res)
                    return Sym(("custom-ocf",))

                paths = ex.run(qual, setup, summaries=_summ({f"{PO}.init_custom": init_custom}), key=f"marg-{size}-{pattern}-{'.'.join(elim)}")
                rets = [p for p in paths if p.outcome[0] == "return"]
                slot = f"|Σ|={size}, {pattern} ranking, eliminate {elim}"
                if len(paths) > 1 and len(rets) == len(paths) == len(got):
                    # the minimum written with explicit comparisons of ranks: one path per outcome of the comparisons.  Every
                    # assignment of small values to the ranks selects its path; that path's result is compared with the minimum
                    atoms = [("r", w) for w in worlds if w not in unranked]
                    if len(atoms) > 8:
                        continue
                    keep = [k for k, x in enumerate(sig) if x not in elim]
                    bad = None
                    n_assign = 0
                    if len(atoms) <= 5:
                        assigns = itertools.product((0, 1, 2), repeat=len(atoms))
                    else:
                        k_ = len(atoms)
                        assigns = itertools.chain(itertools.product((0, 1), repeat=k_), (tuple((j + sh) % k_ for j in range(k_)) for sh in range(k_)),
                                                  (tuple((sh - j) % k_ for j in range(k_)) for sh in range(k_)))
                    for vals in assigns:
                        env = dict(zip(atoms, vals))
                        sel = [i for i, p in enumerate(paths) if _decisions_hold(p.decisions, env)]
                        if len(sel) != 1:
                            raise AnalysisError(f"{site}: {len(sel)} paths for one assignment of the ranks ({slot})")
                        built = [ev.result for ev, Q in iter_events(paths[sel[0]].events) if ev.kind == "init_custom"]
                        if len(built) != 1:
                            raise AnalysisError(f"{site}: {len(built)} ranking objects built on one path ({slot})")
                        ranks = built[0][0]
                        if ranks is None:
                            raise AnalysisError(f"{site}: the ranks handed to the new ranking object are not a concrete mapping ({slot})")
                        want = {}
                        for w in worlds:
                            if w not in unranked:
                                rw = "".join(w[k] for k in keep)
                                want[rw] = min(want.get(rw, 99), env[("r", w)])
                        have = {k: (_lin_eval(v, env) if not (isinstance(v, Const) and v.value is None) else None) for k, v in ranks.items()}
                        have = {k: v for k, v in have.items() if v is not None}
                        n_assign += 1
                        if have != want:
                            bad = (env, have, want)
                            break
                    n += 1
                    rep.check(bad is None, "MARG.bits", site, slot, "every reduced world gets the least rank of its ranked extensions (bit i kept iff signature[i] is not eliminated)",
                              extracted=(f"ranks {dict((k[1], v) for k, v in bad[0].items())} give {bad[1]}" if bad else f"min over the extensions under {n_assign} assignments of the ranks ({len(paths)} paths)"),
                              required=(str(bad[2]) if bad else "min over the extensions of each reduced world"), function=site)
                    continue
                if len(paths) != 1 or len(rets) != 1 or len(got) != 1:
                    if any(p.outcome[0] == "raise" for p in paths) and len(paths) == 1:
                        rep.violation("MARG.bits", site, slot, "marginalising is defined for every ranking and every set of eliminated atoms", extracted=f"raises {paths[0].outcome[1].cls}", required="the marginal ranking", function=site)
                        n += 1
                        continue
                    raise AnalysisError(f"{site}: evaluation on a concrete signature did not give one result ({len(paths)} paths, {len(got)} ranking objects built; {slot})")
                ranks, sgv, line = got[0]
                if ranks is None:
                    raise AnalysisError(f"{site}: the ranks handed to the new ranking object are not a concrete mapping ({slot})")
                keep = [k for k, x in enumerate(sig) if x not in elim]
                want = {}
                for w in worlds:
                    if w in unranked:
                        continue
                    want.setdefault("".join(w[k] for k in keep), set()).add(("r", w))
                bad = []
                for rw in sorted(set(want) | {k for k in ranks if isinstance(k, str)} | {repr(k) for k in ranks if not isinstance(k, str)}):
                    v = ranks.get(rw)
                    exp = want.get(rw)
                    if exp is None:
                        if not (v is None or (isinstance(v, Const) and v.value is None)):
                            bad.append(f"{rw!r} -> {v!r} (no ranked extension)")
                        continue
                    atoms = _min_atoms(v) if v is not None else None
                    if atoms != exp:
                        bad.append(f"{rw!r} -> {v!r}, required min{sorted(x[1] for x in exp)}")
                n += 1
                rep.check(not bad, "MARG.bits", f"{site}:{line}", slot, "every reduced world gets the least rank of its ranked extensions (bit i kept iff signature[i] is not eliminated)",
                          extracted="; ".join(bad)[:300] or "min over the extensions", required="min over the extensions of each reduced world", function=site)
                wsig = ("list", tuple(("one", Const(sig[k])) for k in keep))
                rep.check(sgv == wsig, "MARG.bits", f"{site}:{line}", slot + " / signature", "the new signature is the old one without the eliminated atoms, in the same order",
                          extracted=repr(sgv)[:160], required=str([sig[k] for k in keep]), function=site)
    rep.floor("MARG.bits evaluations", n, 20)


def cond_filter(rep, ex: Explorer):
    """COND.filter on filter_worlds_by_conditionalization / compute_conditionalization / conditionalize_existing_ranks."""
    n = 0
    for fn in ("filter_worlds_by_conditionalization", "compute_conditionalization", "conditionalize_existing_ranks"):
        qual = f"{PO}.{fn}"
        site = fn_label(ex.prog, qual)

        def setup(I):
            return [_obj(I), FormulaV(PHI, "pysmt")], {}

        paths = ex.run(qual, setup, summaries=_summ(), key="cond-" + fn)
        for p in paths:
            if p.outcome[0] != "return":
                continue
            qs = {}
            for ev, Q in iter_events(p.events):
                if ev.kind == "query" and Q:
                    qs[ev.qid] = (ev, Q[-1][0].evar)
            for qid, (ev, wv) in qs.items():
                got = canon_items(flat(ev.frames))
                want = canon_items(world_items(wv) + [("f", PHI)])
                rep.check(got == want, "COND.filter", f"{site}:{ev.node.lineno}", "satisfaction test", "a world is kept iff world literals ∧ condition is satisfiable",
                          extracted=show_items(flat(ev.frames)), required=show_items(world_items(wv) + [("f", PHI)]), function=site)
            n += 0
    # ---- the results, by evaluation on concrete signatures: all worlds of 1..2 (thorough: 3) atoms, the stored rank of a
    # world a symbolic integer, the literals of a world one opaque formula (WORLD.literals decides what they are), and the
    # outcome of every satisfiability test free.  Whatever the tests answer, the result holds exactly the worlds whose test
    # (world ∧ condition, nothing else) said yes, each with its own rank.
    import itertools

    from .. import depth as _depth

    def lits_summary(I, fi, args, kwargs, node):
        w = args[1] if len(args) > 1 else kwargs.get("bitvec")
        if not (isinstance(w, Const) and isinstance(w.value, str)):
            raise AnalysisError(f"{fn_label(ex.prog, PO + '.symbolize_bitvec')}: literals of a world that is not one of the ranking's worlds ({w!r})")
        return I.alloc(HList([("one", FormulaV(("atom", ("worldlits", w.value), "v"), "pysmt"))]))

    summ = _summ({f"{PO}.symbolize_bitvec": lits_summary})
    for fn in ("filter_worlds_by_conditionalization", "compute_conditionalization", "conditionalize_existing_ranks"):
        qual = f"{PO}.{fn}"
        site = fn_label(ex.prog, qual)
        for size in ((1, 2, 3) if _depth.thorough() else (1, 2)):
            sig = ["a", "b", "c"][:size]
            worlds = ["".join(t) for t in itertools.product("01", repeat=size)]
            for pattern in ("total", "partial"):
                unranked = set() if pattern == "total" else {w for k, w in enumerate(worlds) if k % 2 == 1}

                def setup(I, sig=sig, worlds=worlds, unranked=unranked):
                    ranks = I.alloc(HDict(entries={w: (Const(None) if w in unranked else LinV(F.lin_term(("r", w)))) for w in worlds}))
                    o = I.alloc(HObj(CUS, {"ranks": ranks, "signature": I.alloc(HList([("one", Const(x)) for x in sig])), "conditionals": Const(None),
                                           "ranking_system": Const("custom"), "_metadata": I.alloc(HDict()), "_state": I.alloc(HDict())}))
                    return [o, FormulaV(PHI, "pysmt")], {}

                paths = ex.run(qual, setup, summaries=summ, key=f"condv-{fn}-{size}-{pattern}")
                seen_sets = set()
                for p in paths:
                    if p.outcome[0] != "return":
                        raise AnalysisError(f"{site}: evaluation on a concrete ranking ends in {p.outcome[1]!r}")
                    dec = dict(p.decisions)
                    answers = {}
                    consistent = True
                    for ev, Q in iter_events(p.events):
                        if ev.kind != "query":
                            continue
                        fr = [it for it in flat(ev.frames)]
                        ws = [it[1][1][1] for it in fr if it[0] == "f" and isinstance(it[1], tuple) and it[1][:1] == ("atom",) and isinstance(it[1][1], tuple) and it[1][1][:1] == ("worldlits",)]
                        rest = [it for it in fr if not (it[0] == "f" and isinstance(it[1], tuple) and it[1][:1] == ("atom",) and isinstance(it[1][1], tuple) and it[1][1][:1] == ("worldlits",))]
                        if len(ws) != 1 or canon_items(rest) != canon_items([("f", PHI)]):
                            continue  # not a test of one world against the condition: judged by the rule above
                        a = dec.get(("sat", ev.qid))
                        if a is None:
                            continue
                        if ws[0] in answers and answers[ws[0]] != a:
                            consistent = False
                        answers[ws[0]] = a
                    if not consistent:
                        continue  # the same test answered differently twice: not an execution
                    kept = sorted(w for w, a in answers.items() if a)
                    slot = f"|Σ|={size}, {pattern} ranking, tests say yes for {kept}"
                    if (tuple(kept), tuple(sorted(answers))) in seen_sets:
                        pass
                    seen_sets.add((tuple(kept), tuple(sorted(answers))))
                    rv = p.outcome[1]
                    o = p.state.heap.get(rv.oid) if isinstance(rv, Ref) else None
                    n += 1
                    if fn == "filter_worlds_by_conditionalization":
                        got = None
                        if isinstance(o, HList) and all(sg[0] == "one" and isinstance(sg[1], Const) for sg in o.segs):
                            got = [sg[1].value for sg in o.segs]
                        if got is None:
                            raise AnalysisError(f"{site}: the returned worlds are not concrete ({view(p.state, rv)!r})")
                        okk = sorted(got) == kept
                        # a world that was never tested cannot be decided to be kept or not
                        rep.check(okk, "COND.filter", site, "kept worlds", "exactly the worlds satisfying the condition are returned", extracted=f"{slot}: returned {got}", required=f"{kept}", function=site)
                    else:
                        if not (isinstance(o, HDict) and not o.each and not o.sym):
                            raise AnalysisError(f"{site}: the returned mapping is not concrete ({view(p.state, rv)!r})")
                        bad = []
                        for w in sorted(set(kept) | {k for k in o.entries if isinstance(k, str)}):
                            v = o.entries.get(w)
                            if w not in kept:
                                bad.append(f"{w} -> {v!r} (not kept)")
                                continue
                            if fn == "compute_conditionalization":
                                okv = isinstance(v, Sym) and v.label == ("rank", ("c", w))
                                req = f"rank_world({w})"
                            else:
                                okv = (isinstance(v, Const) and v.value is None) if w in unranked else (isinstance(v, LinV) and v.lin == F.lin_term(("r", w)))
                                req = f"the stored rank of {w}"
                            if not okv:
                                if isinstance(v, Sym) and isinstance(v.label, tuple) and v.label[:1] in (("mcall",), ("call",), ("ocall",), ("attr",)):
                                    raise AnalysisError(f"{site}: the value stored for world {w} comes from a call the analysis has no model of ({v!r})")
                                bad.append(f"{w} -> {v!r}, required {req}")
                        rep.check(not bad, "COND.filter", site, "ranks of the kept worlds", "each kept world is mapped to its own rank, and only kept worlds appear", extracted=f"{slot}: " + ("; ".join(bad)[:240] or "own ranks"), required="{w: rank(w) for kept w}", function=site)
                if len(seen_sets) < 2 ** len(worlds):
                    rep.violation("COND.filter", site, f"tests per world (|Σ|={size})", "every world of the ranking is tested against the condition", extracted=f"{len(seen_sets)} combinations of answers", required=f"{2 ** len(worlds)}", function=site)
    rep.floor("COND.filter results", n, 60)


def _concrete(state, v, depth=0):
    """A concrete Python value for a fully concrete abstract value (lists, sets as frozensets, tuples, constants);
    raises AnalysisError otherwise."""
    if isinstance(v, Const):
        return v.value
    if isinstance(v, TupleV):
        return tuple(_concrete(state, x, depth + 1) for x in v.items)
    if isinstance(v, Ref) and depth < 6:
        o = state.heap.get(v.oid)
        if isinstance(o, HList) and all(sg[0] == "one" for sg in o.segs):
            vals = [_concrete(state, sg[1], depth + 1) for sg in o.segs]
            return frozenset(vals) if o.is_set else vals
        if isinstance(o, HDict) and not o.each and not o.sym:
            return {k: _concrete(state, x, depth + 1) for k, x in o.entries.items()}
    raise AnalysisError(f"not a concrete value: {v!r}")


def tpo_order(rep, ex: Explorer):
    """TPO.order on ranks2tpo / tpo2ranks, decided by evaluation.  ranks2tpo only compares ranks with each other, so the
    rankings of a fixed set of worlds fall into finitely many order types: every assignment of {unranked, 0, 2, 5} to the
    2 and 4 worlds of one and two atoms (thorough: a fixed sample over the 8 worlds of three atoms as well) is evaluated and
    the returned layers compared with the groups of equally ranked worlds in ascending order.  tpo2ranks is evaluated on
    concrete layerings (also with an empty layer and none at all) with an uninterpreted numbering function."""
    import itertools

    from .. import depth as _depth

    prog = ex.prog
    qual = "inference.preocf.ranks2tpo"
    site = fn_label(prog, qual)
    n = 0
    vals = (None, 0, 2, 5)
    cases = []
    for size in (1, 2):
        worlds = ["".join(t) for t in itertools.product("01", repeat=size)]
        for asg in itertools.product(vals, repeat=len(worlds)):
            cases.append(dict(zip(worlds, asg)))
    if _depth.thorough():
        worlds = ["".join(t) for t in itertools.product("01", repeat=3)]
        x = 12345
        for _ in range(150):
            asg = []
            for _w in worlds:
                x = (1103515245 * x + 12345) % (2 ** 31)
                asg.append((None, 0, 1, 2, 5, 7)[(x >> 8) % 6])
            cases.append(dict(zip(worlds, asg)))
    bad = None
    for ci, asg in enumerate(cases):
        def setup(I, asg=asg):
            return [I.alloc(HDict(entries={w: Const(v) for w, v in asg.items()}))], {}

        paths = ex.run(qual, setup, summaries=_summ(), key=f"r2t-{ci}")
        if len(paths) != 1:
            raise AnalysisError(f"{site}: {len(paths)} paths on a concrete ranking {asg}")
        p = paths[0]
        want = [frozenset(w for w, r in asg.items() if r == v) for v in sorted({r for r in asg.values() if r is not None})]
        n += 1
        if p.outcome[0] != "return":
            bad = bad or (asg, f"{p.outcome[0]} {p.outcome[1]!r}", want)
            continue
        got = _concrete(p.state, p.outcome[1])
        if not isinstance(got, list):
            raise AnalysisError(f"{site}: the result is not a list of layers: {got!r}")
        layers = []
        dup = False
        for L in got:
            if isinstance(L, (list, tuple)):
                dup = dup or len(set(L)) != len(L)
            layers.append(frozenset(L))
        if layers != want or dup:
            bad = bad or (asg, [sorted(L) for L in layers], want)
    rep.check(bad is None, "TPO.order", site, "layers", "the layers are the groups of equally ranked worlds in ascending order of rank; worlds without a rank are in no layer",
              extracted=(f"ranks {bad[0]} give {bad[1]}" if bad else f"as required on {n} rankings (all order types of 2 and 4 worlds)"), required=(str([sorted(L) for L in bad[2]]) if bad else "groups by rank, ascending"), function=site)
    rep.floor("ranks2tpo evaluations", n, 200)
    # tpo2ranks: rank_function applied to the layer number, in order
    qual = "inference.preocf.tpo2ranks"
    site = fn_label(prog, qual)
    tpos = [[], [["0"]], [["0", "1"]], [["0"], ["1"]], [["00"], ["01", "10"], ["11"]], [["00"], [], ["11", "01"]], [[], ["1"]], [["10"], ["00"], ["11"], ["01"]]]
    m = 0
    for ti, tpo in enumerate(tpos):
        for as_set in (True, False):
            def setup_t(I, tpo=tpo, as_set=as_set):
                layers = [I.alloc(HList([("one", Const(w)) for w in L], is_set=as_set)) for L in tpo]
                return [I.alloc(HList([("one", L) for L in layers])), Sym("rankfn")], {}

            paths = ex.run(qual, setup_t, summaries=_summ(), key=f"t2r-{ti}-{as_set}")
            slot = f"layers {tpo}" + ("" if as_set else " (as lists)")
            if len(paths) != 1:
                raise AnalysisError(f"{site}: {len(paths)} paths on a concrete total preorder {tpo}")
            p = paths[0]
            m += 1
            if p.outcome[0] != "return":
                rep.violation("TPO.order", site, slot, "every total preorder is converted", extracted=f"{p.outcome[0]} {p.outcome[1]!r}"[:80], required="return", function=site)
                continue
            d = p.state.heap.get(p.outcome[1].oid) if isinstance(p.outcome[1], Ref) else None
            if isinstance(p.outcome[1], Const):
                rep.violation("TPO.order", site, slot, "the result is a mapping from worlds to ranks for every total preorder (an empty one included)", extracted=repr(p.outcome[1]), required="a mapping", function=site)
                continue
            if not (isinstance(d, HDict) and not d.each and not d.sym):
                raise AnalysisError(f"{site}: result is not a mapping the analysis can read: {p.outcome[1]!r}")
            want = {w: ("call", "rankfn", (("c", i),)) for i, L in enumerate(tpo) for w in L}
            got = {k: (v.label if isinstance(v, Sym) else repr(v)) for k, v in d.entries.items()}
            rep.check(got == want, "TPO.order", site, slot, "every world of every layer gets rank_function(position of its layer), layers numbered from 0 in order; nothing else is in the result",
                      extracted=str({k: F.show_desc(v) if isinstance(v, tuple) else v for k, v in got.items()})[:260], required="{world: rank_function(i) for i, layer in enumerate(tpo) for world in layer}", function=site)
    rep.floor("tpo2ranks evaluations", m, 12)


def all_ranks(rep, ex: Explorer):
    """RANK.all on compute_all_ranks ("lazily, forced or all at once"), decided by evaluation on concrete rank tables in
    every state of lazy computation (each world of one and two atoms already ranked or not yet): compute_all_ranks returns
    one entry per world of the table - also for the worlds ranked earlier - whose value is what rank_world reports for
    that very world."""
    import itertools

    prog = ex.prog
    qual = f"{PO}.compute_all_ranks"
    if qual not in prog.functions:
        raise AnalysisError("PreOCF.compute_all_ranks not found")
    site = fn_label(prog, qual)
    n = 0
    bad = None
    for size in (1, 2):
        worlds = ["".join(t) for t in itertools.product("01", repeat=size)]
        for asg in itertools.product((None, 0, 3), repeat=len(worlds)):
            table = dict(zip(worlds, asg))

            def setup(I, table=table):
                ranks = I.alloc(HDict(entries={w: Const(v) for w, v in table.items()}))
                o = I.alloc(HObj(CUS, {"ranks": ranks, "signature": ElemV(SIG, "coll", "str"), "conditionals": Const(None),
                                        "ranking_system": Const("custom"), "_metadata": I.alloc(HDict()), "_state": I.alloc(HDict())}))
                return [o], {}

            paths = ex.run(qual, setup, summaries=_summ(), key=f"allranks-{size}-{asg}")
            n += 1
            if len(paths) != 1:
                raise AnalysisError(f"{site}: {len(paths)} paths on a concrete rank table {table}")
            p = paths[0]
            if p.outcome[0] != "return":
                bad = bad or (table, f"{p.outcome[0]} {p.outcome[1]!r}"[:100])
                continue
            d = p.state.heap.get(p.outcome[1].oid) if isinstance(p.outcome[1], Ref) else None
            if not (isinstance(d, HDict) and not d.each and not d.sym):
                raise AnalysisError(f"{site}: the result is not a mapping the analysis can read: {p.outcome[1]!r}")
            got = {k: (v.label if isinstance(v, Sym) else repr(v)) for k, v in d.entries.items()}
            want = {w: ("rank", ("c", w)) for w in worlds}
            if got != want:
                bad = bad or (table, str({k: F.show_desc(v) if isinstance(v, tuple) else v for k, v in got.items()})[:200])
    rep.check(bad is None, "RANK.all", site, "entries", "compute_all_ranks returns, for every world of the table (ranked before or not), what rank_world reports for that world",
              extracted=(f"table {bad[0]} gives {bad[1]}" if bad else f"as required on {n} tables (every state of lazy computation over 2 and 4 worlds)"),
              required="{w: rank_world(w) for every world w}", function=site)
    rep.floor("compute_all_ranks evaluations", n, 80)



# ----------------------------------------------------------------------------------------------
# C16: System Z ranking object
# ----------------------------------------------------------------------------------------------
HEAD = ("sym", "H")
W = ("obj", "world")


def zrank_recursion(rep, ex: Explorer, cls: str):
    """ZRANK.recursion on <cls>._rec_z_rank and z_part2ocf: start at len(P)-1 with the world's literals; layer k adds
    ∀c∈P[k]: ¬falsification(c) persistently; SAT ⇒ (k=0 ? 0 : Rec(k-1)); UNSAT ⇒ k+1."""
    qual = f"{cls}._rec_z_rank"
    site = fn_label(ex.prog, qual)

    def setup(I):
        s = _obj(I, cls, lambda I: {"_z_partition": P_value("cond")})
        solver = I.alloc(HSolver("pysmt", frames=[[HEAD]]))
        return [s, solver, LinV(K)], {}

    paths = ex.run(qual, setup, summaries=_summ(), key=f"zrec-{cls}")
    from .sysz import loop_form, _index_arg
    Kx, heads, loop_id, idx_name = loop_form(paths, HEAD)  # recursion on k-1, or a loop that decrements the index
    kterm = Kx[0][0][0]
    layer = each_item(layer_fam(Kx), not_falsified)
    base = canon_items(heads + [layer])
    n = 0
    for p in paths:
        back = p.outcome[0] == "loopback" and loop_id is not None and p.outcome[1] == loop_id
        if p.outcome[0] != "return" and not back:
            continue
        qs = [ev for ev, Q in iter_events(p.events) if ev.kind == "query" and not Q]
        if len(qs) != 1:
            rep.violation("ZRANK.recursion", site, "test", "one satisfiability test per layer", extracted=f"{len(qs)}", required="1", function=site)
            continue
        q = qs[0]
        rep.check(canon_items(flat(q.frames)) == base, "ZRANK.recursion", f"{site}:{q.node.lineno}", "layer test scope", "the world is tested against the non-falsification of layers ≥ k",
                  extracted=show_items(flat(q.frames)), required=show_items(heads + [layer]), function=site)
        sat = decided(p, ("sat", q.qid))
        kfacts = [(k, v) for k, v in p.decisions if k[0] == "cmp" and isinstance(k[2], tuple) and k[2][:1] == ("lin",) and all(t == kterm for t, _ in k[2][1][0])]
        rv = p.outcome[1] if not back else None
        recs = [ev for ev, Q in iter_events(p.events) if ev.kind == "recurse"]
        from .. import depth as _depth
        for kv in _depth.card_range():
            okk = True
            for key, val in kfacts:
                lin = key[2][1]
                x = sum(c * kv for t, c in lin[0]) + lin[1]
                if ((x == 0) if key[1] == "==" else (x < 0)) != val:
                    okk = False
            if not okk:
                continue
            n += 1
            if back:
                # the jump back to the loop head is the continuation with the carried index and solver
                snapd = p.outcome[2]
                n_idx = snapd.get(idx_name)
                ok_rec = n_idx is not None and n_idx[0] == "val" and isinstance(n_idx[1], LinV) and n_idx[1].lin == F.lin_add(Kx, F.lin_const(-1))
                got = "Rec(k-1)" if ok_rec else f"continues with {n_idx[1]!r}" if n_idx else "continues"
                want = "k+1" if sat is False else ("0" if kv == 0 else "Rec(k-1)")
                if ok_rec:
                    ss = [v for nm, v in snapd.items() if v[0] == "solver"]
                    if not ss:
                        raise AnalysisError(f"{site}: the solver of the layer test is not an object the analysis follows")
                    ok_s = len(ss) == 1 and canon_items(flat(ss[0][3])) == base
                    rep.check(ok_s, "ZRANK.recursion", site, "scope at recursion", "the layer constraints persist into the next lower layer (same solver)",
                              extracted=show_items(flat(ss[0][3])) if ss else "no solver", required=show_items(heads + [layer]), function=site)
            elif sat is False:
                want = "k+1"
                got = "k+1" if isinstance(rv, LinV) and rv.lin == F.lin_add(Kx, F.lin_const(1)) else repr(rv)
            elif kv == 0:
                want = "0"
                got = "0" if (isinstance(rv, Const) and rv.value == 0) or (isinstance(rv, LinV) and rv.lin == F.lin_const(0)) else repr(rv)
            else:
                want = "Rec(k-1)"
                ok_rec = isinstance(rv, Sym) and rv.label[:1] == ("rec",) and len(recs) == 1 and _index_arg(recs[0]) == F.lin_add(Kx, F.lin_const(-1))
                got = "Rec(k-1)" if ok_rec else repr(rv)
                if ok_rec:
                    ss = [s for s in recs[0].snap if s[0] == "solver"]
                    if not ss:
                        raise AnalysisError(f"{site}: the solver of the layer test is not an object the analysis follows")
                    ok_s = len(ss) == 1 and canon_items(flat(ss[0][3])) == base
                    rep.check(ok_s, "ZRANK.recursion", f"{site}:{recs[0].node.lineno}", "scope at recursion", "the layer constraints persist into the next lower layer (same solver)",
                              extracted=show_items(flat(ss[0][3])) if ss else "no solver", required=show_items(heads + [layer]), function=site)
            rep.check(got == want, "ZRANK.recursion", site, f"sat={sat} k{'=0' if kv == 0 else '>0'}", f"rank outcome {got}", extracted=got, required=want, function=site)
    rep.floor(f"ZRANK.recursion rows of {cls.rsplit('.', 1)[1]}", n, 3)
    # start
    qual2 = f"{cls}.z_part2ocf"
    site2 = fn_label(ex.prog, qual2)

    def setup2(I):
        # the recorded mode of the partition is unknown: neither mode has a case of its own
        # (what the metadata store holds is the caller's business - it is handed in, aliased, and overwritten by load_metadata:
        # unknown content, so that a start index that listens to it shows)
        s = _obj(I, cls, lambda I: {"_z_partition": P_value("cond"), "_state": I.alloc(HDict(entries={"z_partition_extended": Sym("extended-mode", "bool")})),
                                    "_metadata": I.alloc(HDict(sym=("unknown", "metadata")))})
        return [s, ElemV(W, "key")], {}

    from ..harness import reccall_summary

    summ = _summ()
    for c in (PO, ZP):
        summ[f"{c}._rec_z_rank"] = reccall_summary
    paths = ex.run(qual2, setup2, summaries=summ, key=f"zstart-{cls}")
    m = 0
    for p in paths:
        if p.outcome[0] != "return":
            continue
        rcs = [ev for ev, Q in iter_events(p.events) if ev.kind == "reccall"]
        if not rcs:
            # a rank given without walking the layers: there is no such case (even a partition that is the infinity layer
            # alone separates the worlds that falsify one of its conditionals from those that do not)
            why = "; ".join(show_pred(k if v else ("not", k))[:80] for k, v in p.decisions) or "unconditionally"
            rep.violation("ZRANK.recursion", site2, "rank without the layers", "the rank of a world is what the descent through the layers yields, for every partition",
                          extracted=f"returns {p.outcome[1]!r} without the recursion when {why}"[:220], required="the recursion's result", function=site2)
            continue
        m += 1
        rc = rcs[0]
        rv2 = p.outcome[1]
        rep.check(isinstance(rv2, Sym) and rv2.label[:1] == ("rec0",), "ZRANK.recursion", site2, "rank is the recursion's result", "the rank of a world is what the descent through the layers yields", extracted=repr(rv2)[:80], required="the recursion's result", function=site2)
        idx = [a.lin for a in rc.args if isinstance(a, LinV)]
        rep.check(bool(idx) and idx[0] == LAST, "ZRANK.recursion", f"{site2}:{rc.node.lineno}", "start index", "the rank recursion starts at the highest layer", extracted=F.show_lin(idx[0]) if idx else "?", required="len(P)-1", function=site2)
        ss = [s for s in rc.snap if s[0] == "solver"]
        if not ss:
            raise AnalysisError(f"{site2}:{rc.node.lineno}: the solver handed to the recursion is not an object the analysis follows (kept on the object or in state from an earlier call?)")
        ok = len(ss) == 1 and canon_items(flat(ss[0][3])) == canon_items(world_items(W))
        rep.check(ok, "ZRANK.recursion", f"{site2}:{rc.node.lineno}", "start scope", "the recursion starts from exactly the world's literals", extracted=show_items(flat(ss[0][3])) if ss else "no solver", required=show_items(world_items(W)), function=site2)
        news = [ev for ev, Q in iter_events(p.events) if ev.kind == "solver.new"]
        writes = [ev for ev, Q in iter_events(p.events) if ev.kind in ("attr.set", "dict.set", "list.append") and not Q]
        rep.check(len(news) == 1 and not writes, "ZRANK.pure", site2, "effects", "ranking a world uses a solver of its own and writes nothing", extracted=f"{len(news)} solver(s) created, {len(writes)} write(s)", required="1, 0", function=site2)
    rep.floor(f"z_part2ocf paths of {cls.rsplit('.', 1)[1]}", m, 1)
    # any other way into the recursion (a batch method, a helper): it starts at the highest layer from exactly the literals of
    # one world, like the entry above - otherwise the ranks it produces are not the ranks rank_world produces
    import ast as _ast

    for c in [x for x in ex.prog.classes if x == cls or cls in ex.prog.mro(x) or x in ex.prog.mro(cls)]:
        for name, fi in sorted(ex.prog.classes[c].methods.items()):
            if name in ("_rec_z_rank", "z_part2ocf"):
                continue
            if not any(isinstance(n_, _ast.Call) and isinstance(n_.func, _ast.Attribute) and n_.func.attr == "_rec_z_rank" for n_ in _ast.walk(fi.node)):
                continue
            site3 = fn_label(ex.prog, fi.qualname)
            a_ = fi.node.args
            extra = [Sym(("arg", x.arg)) for x in (a_.posonlyargs + a_.args)[1:]]

            def setup3(I, extra=extra):
                s_ = _obj(I, cls, lambda I: {"_z_partition": P_value("cond"), "_state": I.alloc(HDict(entries={"z_partition_extended": Sym("extended-mode", "bool")}))})
                return [s_] + list(extra), {}

            paths3 = ex.run(fi.qualname, setup3, summaries=summ, key=f"zentry-{fi.qualname}")
            k3 = 0
            seen3 = set()
            for p in paths3:
                for ev, Q in iter_events(p.events):
                    if ev.kind != "reccall":
                        continue
                    k3 += 1
                    idx = [a.lin for a in ev.args if isinstance(a, LinV)]
                    ss = [s_ for s_ in ev.snap if s_[0] == "solver"]
                    if not ss:
                        raise AnalysisError(f"{site3}:{ev.node.lineno}: the solver handed to the recursion is not an object the analysis follows")
                    items = flat(ss[0][3])
                    cands = set()

                    def find(t):
                        if isinstance(t, tuple):
                            if len(t) == 3 and t[0] == "elem" and t[2] == "key":
                                cands.add(t[1])
                            for x in t:
                                find(x)

                    find(tuple(items))
                    ok_scope = any(canon_items(items) == canon_items(world_items(v_)) for v_ in cands)
                    ok_idx = bool(idx) and idx[0] == LAST
                    key3 = (ev.node.lineno, ok_scope, ok_idx)
                    if key3 in seen3:
                        continue
                    seen3.add(key3)
                    rep.check(ok_idx, "ZRANK.recursion", f"{site3}:{ev.node.lineno}", "start index (other entry)", "every entry into the rank recursion starts at the highest layer", extracted=F.show_lin(idx[0]) if idx else "?", required="len(P)-1", function=site3)
                    rep.check(ok_scope, "ZRANK.recursion", f"{site3}:{ev.node.lineno}", "start scope (other entry)", "every entry into the rank recursion starts from exactly the literals of one world", extracted=show_items(items)[:300], required="the literals of the world", function=site3)
            if k3 == 0:
                raise AnalysisError(f"{site3}: calls the rank recursion, but no path of the analysis reaches the call")


def rank_cache(rep, ex: Explorer, cls: str, compute: str, rule="ZRANK.cache"):
    """<rule>: rank_world computes iff forced or unset, stores under the world's own entry and returns the stored
    value; nothing else is written (ZRANK.pure: order of lazy computation cannot matter)."""
    qual = f"{cls}.rank_world"
    site = fn_label(ex.prog, qual)

    def comp(I, fi, args, kwargs, node):
        I.log("compute", node, args=tuple(args[1:]))
        return Sym(("computed", desc(args[1])), "int")

    def setup(I):
        s = _obj(I, cls, lambda I: {"_z_partition": P_value("cond"), "_impacts": Sym("impacts")})
        return [s, ElemV(W, "key")], {"force_calculation": Sym("force", "bool")}

    summ = dict(wrappers.SUMMARIES)
    summ[f"{cls}.{compute}"] = comp
    for c_ in ex.prog.mro(cls):
        if c_ in ex.prog.classes and compute in ex.prog.classes[c_].methods:
            summ[f"{c_}.{compute}"] = comp  # (the computation inherited instead of copied into the subclass)
    paths = ex.run(qual, setup, summaries=summ, key=f"cache-{cls}")
    n = 0
    stored = ("storedrank", W)
    for p in paths:
        force = decided(p, ("truthy", "force"))
        unset = decided(p, ("isnone", stored))
        comps = [ev for ev, Q in iter_events(p.events) if ev.kind == "compute"]
        sets = [ev for ev, Q in iter_events(p.events) if ev.kind == "dict.set"]
        other = [ev for ev, Q in iter_events(p.events) if ev.kind in ("attr.set", "list.append")]
        should = (force is True) or (unset is True)
        if force is None and unset is None:
            raise AnalysisError(f"{site}: neither the force flag nor the cache entry is consulted")
        n += 1
        slot = f"force={force} unset={unset}"
        rep.check((len(comps) == 1) == should, rule, site, slot + " compute", "the rank is computed iff forced or not yet known", extracted=f"{len(comps)} computation(s)", required="1" if should else "0", function=site)
        if should and comps:
            ok = len(sets) == 1 and isinstance(sets[0].key, ElemV) and sets[0].key.var == W and isinstance(sets[0].value, Sym) and sets[0].value.label == ("computed", ("elem", W, "key"))
            rep.check(ok, rule, site, slot + " store", "the computed rank is stored under the world's own entry", extracted=repr([(e.key, e.value) for e in sets])[:200], required="ranks[world] = computed", function=site)
            okw = isinstance(comps[0].args[0], ElemV) and comps[0].args[0].var == W
            rep.check(okw, rule, site, slot + " argument", "the rank is computed for the requested world", extracted=repr(comps[0].args), required="world", function=site)
        else:
            rep.check(not sets, rule, site, slot + " store", "a known rank is not overwritten", extracted=f"{len(sets)} store(s)", required="0", function=site)
        rep.check(not other, "ZRANK.pure", site, slot + " other effects", "nothing but the world's own cache entry is written", extracted=f"{len(other)}", required="0", function=site)
        if p.outcome[0] == "return":
            rv = p.outcome[1]
            want = ("computed", ("elem", W, "key")) if should else stored
            ok = isinstance(rv, Sym) and rv.label == want
            rep.check(ok, rule, site, slot + " result", "the returned rank is the stored one", extracted=repr(rv), required=F.show_desc(want), function=site)
    rep.floor(f"{rule} paths of {cls.rsplit('.', 1)[1]}", n, 2)


def zrank_init(rep, ex: Explorer, cls=ZP):
    """FACT.shape, the partition mode, ZRANK.refuse on SystemZPreOCF.__init__ (and the sibling builder
    build_fact_conditionals)."""
    qual = f"{cls}.__init__"
    site = fn_label(ex.prog, qual)
    FACTS = ("members", ("facts",))

    def parse_formula(I, fi, args, kwargs, node):
        I.log("parse_formula", node, arg=args[0])
        return FormulaV(("opaque", ("parsed", desc(args[0]))), "pysmt")

    def diag(I, fi, args, kwargs, node):
        I.log("diagnostics", node, args=tuple(args), kwargs=dict(kwargs))
        return Sym(("diag",))

    summ = dict(wrappers.SUMMARIES)
    summ["parser.Wrappers.parse_formula"] = parse_formula
    summ["inference.consistency_diagnostics.consistency_diagnostics"] = diag
    summ["inference.consistency_diagnostics.format_diagnostics_verbose"] = lambda I, fi, a, k, n: Sym(("fmt",), "str")
    n_facts = n_plain = 0
    for ext in (Const(None), Const(True), Const(False)):
        for with_facts in (True, False):
            held = {}

            def setup(I, ext=ext, with_facts=with_facts, held=held):
                bb = make_belief_base(I)
                held["bb"] = bb
                s = I.alloc(HObj(cls, {}))
                facts = ElemV(("facts",), "coll", "factentry") if with_facts else Const(None)
                return [s, bb, ElemV(SIG, "coll", "str")], {"facts": facts, "extended": ext}

            paths = ex.run(qual, setup, summaries=summ, key=f"zinit-{ext.value}-{with_facts}")
            want_mode = ext.value if ext.value is not None else with_facts
            for p in paths:
                fe = decided(p, ("empty", ("facts",)))
                if with_facts and fe is True:
                    continue  # an empty fact list is the no-facts branch (covered by with_facts=False)
                cons = [ev for ev, Q in iter_events(p.events) if ev.kind == "summary.consistency"]
                if not cons:
                    continue  # rejected input (unknown variables, wrong type): raised before any partition
                c = cons[-1]
                # FACT.signature: the base that is partitioned (and against which the facts were validated on the way) is a base
                # over the signature the ranking is built for - the one handed in, not the belief base's own
                cb_ = p.state.heap.get(c.bb.oid) if isinstance(getattr(c, "bb", None), Ref) else None
                sg_ = cb_.attrs.get("signature") if isinstance(cb_, HObj) else None
                if with_facts and sg_ is not None:
                    d_ = desc(sg_)
                    own_sig = d_ == desc(ElemV(SIG, "coll", "str"))
                    base_sig = isinstance(d_, tuple) and "signature" in repr(d_) and "'D'" in repr(d_)
                    if isinstance(sg_, Ref):
                        # (a copy of it: a list with one entry per member of the signature handed in, in that order)
                        vw_ = view(p.state, sg_)
                        own_sig = isinstance(vw_, tuple) and vw_[0] == "list" and len(vw_[1]) == 1 and vw_[1][0][0] == "each" and vw_[1][0][2] == ("members", SIG) \
                            and vw_[1][0][3] == PTRUE and isinstance(vw_[1][0][4], ElemV) and vw_[1][0][4].var == vw_[1][0][1]
                    if own_sig or base_sig:
                        rep.check(own_sig, "FACT.shape", f"{site}:{c.node.lineno}", f"signature of the ranked base (extended={ext.value})",
                                  "with an explicit signature, base ∪ facts is built (and the facts are validated) over that signature, not over the belief base's own",
                                  extracted=F.show_desc(d_)[:120] if isinstance(d_, tuple) else repr(d_)[:120], required="the signature passed to the constructor", function=site)
                pf = decided(p, ("partfalse", ("part", c.pid)))
                c_weakly = value_on_path(p, c.weakly)
                mode_ok = isinstance(c_weakly, Const) and bool(c_weakly.value) == bool(want_mode)
                rep.check(mode_ok, "FACT.shape" if with_facts else "ZRANK.recursion", f"{site}:{c.node.lineno}", f"partition mode (extended={ext.value}, facts={with_facts})",
                          "extended mode as requested; when unspecified: extended with facts, strict without", extracted=repr(c_weakly), required=str(bool(want_mode)), function=site)
                # the caller's belief base is input only: later rankings of the same base see it unchanged
                bbo = p.state.heap.get(held["bb"].oid) if isinstance(held.get("bb"), Ref) else None
                cd0 = bbo.attrs.get("conditionals") if isinstance(bbo, HObj) else None
                d0 = p.state.heap.get(cd0.oid) if isinstance(cd0, Ref) else None
                if isinstance(d0, HDict):
                    untouched = not d0.entries and len(d0.each) == 1 and d0.each[0][2] == KEYS_D
                    rep.check(untouched, "FACT.shape" if with_facts else "ZRANK.recursion", site, f"caller's base untouched (extended={ext.value}, facts={with_facts})",
                              "constructing the ranking leaves the conditionals of the caller's belief base as they were",
                              extracted=f"{len(d0.entries)} literal entries, {len(d0.each)} group(s)", required="the base's own conditionals only", function=site)
                # the diagnostics (carried by a refusal, kept in the metadata): computed for the caller's base, in the same
                # mode, with the facts that were given, from the partition just computed
                dg = [ev for ev, Q in iter_events(p.events) if ev.kind == "diagnostics"]
                if dg and with_facts:  # (without facts nothing is refused: the diagnostics are bookkeeping only)
                    dparams = [a.arg for a in ex.prog.function("inference.consistency_diagnostics.consistency_diagnostics").node.args.args]
                    for dv in dg[:1]:
                        b_ = {dparams[i]: v for i, v in enumerate(dv.args) if i < len(dparams)}
                        b_.update(dv.kwargs)
                        b_ = {k_: value_on_path(p, v_) for k_, v_ in b_.items()}
                        bbv = b_.get("belief_base")
                        bo = p.state.heap.get(bbv.oid) if isinstance(bbv, Ref) else None
                        cd_ = p.state.heap.get(bo.attrs["conditionals"].oid) if isinstance(bo, HObj) and isinstance(bo.attrs.get("conditionals"), Ref) else None
                        own = isinstance(cd_, HDict) and not cd_.entries and len(cd_.each) == 1 and cd_.each[0][2] == KEYS_D
                        pol = b_.get("on_inconsistent")
                        rep.check(pol is None or (isinstance(pol, Const) and pol.value in ("warn", "silent")), "ZRANK.refuse", f"{site}:{dv.node.lineno}", f"diagnostics policy (extended={ext.value})",
                                  "the diagnostics are computed in full and saved before the refusal: contradictory facts must not make the diagnostics themselves raise (the refusal would lose them)",
                                  extracted=f"on_inconsistent={pol!r}", required="'warn' or 'silent'", function=site)
                        okd = own and b_.get("extended") == Const(bool(want_mode)) and b_.get("uses_facts") == Const(bool(with_facts)) \
                            and (b_.get("facts") == ElemV(("facts",), "coll", "factentry") if with_facts else b_.get("facts") in (None, Const(None)))
                        pre = b_.get("precomputed")
                        pd = p.state.heap.get(pre.oid) if isinstance(pre, Ref) else None
                        okp = True
                        if isinstance(pd, HDict):
                            wantkey = ("combined_" if with_facts else "base_") + ("extended" if want_mode else "standard")
                            for k_, v_ in pd.entries.items():
                                first = v_.items[0] if isinstance(v_, TupleV) and v_.items else None
                                okp = okp and k_ == wantkey and isinstance(first, ElemV) and first.var == ("part", c.pid)
                        rep.check(okd and okp, "ZRANK.refuse" if with_facts else "ZRANK.recursion", f"{site}:{dv.node.lineno}", f"diagnostics arguments (extended={ext.value}, facts={with_facts})",
                                  "the diagnostics are those of the caller's base in this mode with these facts, fed with the partition just computed under its own name",
                                  extracted=f"own base={own}, extended={b_.get('extended')!r}, uses_facts={b_.get('uses_facts')!r}, facts={b_.get('facts')!r}, precomputed keys={list(pd.entries) if isinstance(pd, HDict) else None}"[:220],
                                  required=f"base, extended={bool(want_mode)}, uses_facts={bool(with_facts)}", function=site)
                if not (isinstance(c.bbdesc, tuple) and len(c.bbdesc) >= 3):
                    raise AnalysisError(f"{site}: the base handed to the partition test is not a belief base the analysis can read: {c.bbdesc!r}"[:200])
                ents, each = c.bbdesc[1], c.bbdesc[2]
                base_each = [e for e in each if e[0] == KEYS_D]
                fact_each = [e for e in each if e[0] != KEYS_D]
                rep.check(len(base_each) == 1 and not ents, "FACT.shape" if with_facts else "ZRANK.recursion", f"{site}:{c.node.lineno}", "base kept", "the ranked base contains every conditional of the belief base",
                          extracted=f"{len(base_each)} group(s), {len(ents)} literal entries", required="the base", function=site)
                if with_facts:
                    n_facts += 1
                    okf = bool(fact_each)
                    for e in fact_each:
                        fam, g, keyd, cd = e
                        shape = isinstance(cd, tuple) and cd[0] == "cond" and cd[2] == F.canon(F.FALSE)
                        # antecedent ≡ ¬φ for φ the entry itself or its parse
                        ante_ok = False
                        if shape:
                            leaves, tb = cd[1][1], cd[1][2]
                            ante_ok = len(leaves) == 1 and leaves[0][0] == "opaque" and tb == (True, False)
                        okf &= shape and ante_ok and fam == FACTS
                    rep.check(okf, "FACT.shape", f"{site}:{c.node.lineno}", "fact conditionals", "a fact φ becomes the conditional (Bottom | ¬φ)",
                              extracted="; ".join(str(e[3])[:120] for e in fact_each) or "none", required="A ≡ ¬φ, B ≡ ⊥ for every fact", function=site)
                    # FRESH keys: start above the maximum key, +1 per fact, stored under the running value
                    fresh = _fresh_counter(p, FACTS)
                    rep.check(fresh is True, "FACT.shape", site, "fact keys", "fact conditionals are keyed max(base keys)+1, +2, ... (fresh keys)", extracted=str(fresh), required="fresh", function=site)
                    # refusal with diagnostics
                    saved = [ev for ev, Q in iter_events(p.events) if ev.kind == "dict.set" and isinstance(ev.key, Const) and ev.key.value == "consistency_diagnostics"]
                    if pf is True:
                        ok = p.outcome[0] == "raise" and p.outcome[1].cls == "ValueError" and bool(saved)
                        rep.check(ok, "ZRANK.refuse", site, f"unsatisfiable combination (extended={ext.value})", "an inconsistent combination of base and facts is refused with an error after the diagnostics were saved",
                                  extracted=f"{p.outcome[0]}{' ' + p.outcome[1].cls if p.outcome[0] == 'raise' else ''}, diagnostics saved={bool(saved)}", required="raise ValueError, diagnostics saved", function=site)
                    elif pf is None:
                        rep.violation("ZRANK.refuse", site, f"unsatisfiable combination (extended={ext.value})", "the verdict of the partition test of base ∪ facts is never consulted: an inconsistent combination is not refused",
                                      extracted="no test of the partition verdict", required="partition is False ⇒ raise", function=site)
                    elif pf is False:
                        setp = [ev for ev, Q in iter_events(p.events) if ev.kind == "attr.set" and ev.attr == "_z_partition"]
                        ok = p.outcome[0] == "return" and len(setp) == 1 and isinstance(setp[0].value, ElemV) and setp[0].value.var == ("part", c.pid)
                        rep.check(ok, "FACT.shape", site, f"partition used (extended={ext.value})", "the ranking uses the partition of the augmented base", extracted=repr(setp[0].value) if setp else "none", required="partition of base ∪ facts", function=site)
                else:
                    n_plain += 1
                    setp = [ev for ev, Q in iter_events(p.events) if ev.kind == "attr.set" and ev.attr == "_z_partition"]
                    ok = len(setp) == 1 and isinstance(setp[0].value, ElemV) and setp[0].value.var == ("part", c.pid)
                    rep.check(ok, "ZRANK.recursion", site, f"partition used (extended={ext.value})", "the ranking uses the partition of the base", extracted=repr(setp[0].value) if setp else "none", required="partition of the base", function=site)
    rep.floor("SystemZPreOCF construction paths with facts", n_facts, 3)
    rep.floor("SystemZPreOCF construction paths without facts", n_plain, 3)


def factory_forwarding(rep, ex: Explorer, which=("init_system_z", "init_random_min_c_rep", "init_custom")):
    """FACTORY.forward: the PreOCF.init_* factories hand every one of their parameters to the constructor parameter of
    the same name and return the constructed object (the documented entry points observe the constructors through them)."""
    targets = {"init_system_z": ZP, "init_random_min_c_rep": CR, "init_custom": CUS}
    n = 0
    for name in which:
        qual = f"{PO}.{name}"
        site = fn_label(ex.prog, qual)
        fi = ex.prog.functions.get(qual)
        if fi is None:
            raise AnalysisError(f"factory {qual} not found")
        tcls = targets[name]
        init = ex.prog.lookup_method(tcls, "__init__")
        if init is None:
            raise AnalysisError(f"{tcls}.__init__ not found")
        a = fi.node.args
        pos = [x.arg for x in a.posonlyargs + a.args][1:]
        kwo = [x.arg for x in a.kwonlyargs]
        ia = init.node.args
        ipos = [x.arg for x in ia.posonlyargs + ia.args][1:]
        ikw = [x.arg for x in ia.kwonlyargs]
        seen = []

        def construct(I, fi_, args, kwargs, node, seen=seen):
            bound = {}
            for i, v in enumerate(args):
                if i < len(ipos):
                    bound[ipos[i]] = v
            for k, v in kwargs.items():
                bound[k] = v
            seen.append(bound)
            I.log("factory.construct", node, bound=tuple(sorted((k, repr(v)) for k, v in bound.items())))
            return Sym(("constructed", tcls))

        def setup(I, pos=pos, kwo=kwo):
            return [Const(None)] + [Sym(("arg", x)) for x in pos], {x: Sym(("arg", x)) for x in kwo}

        paths = ex.run(qual, setup, summaries={tcls: construct}, key=f"factory-{name}")
        for p in paths:
            cons = [ev for ev, Q in iter_events(p.events) if ev.kind == "factory.construct"]
            ok = p.outcome[0] == "return" and len(cons) == 1 and p.outcome[1] == Sym(("constructed", tcls))
            rep.check(ok, "FACTORY.forward", site, "constructs and returns", f"the factory returns the object constructed by {tcls.rsplit('.', 1)[-1]}",
                      extracted=f"{p.outcome[0]} {p.outcome[1]!r}"[:100], required="the constructed object", function=site)
            if len(cons) != 1:
                continue
            bound = dict(cons[0].bound)
            for x in pos + kwo:
                if x not in ipos + ikw:
                    continue
                n += 1
                rep.check(bound.get(x) == repr(Sym(("arg", x))), "FACTORY.forward", f"{site}:{cons[0].node.lineno}", f"parameter {x}", "every parameter of the factory reaches the constructor parameter of the same name",
                          extracted=str(bound.get(x, "not passed (constructor default)")), required=f"the factory's {x}", function=site)
    rep.floor("factory parameters forwarded", n, 3 * len(which))
    return {"factory_params": n}


def _fresh_counter(p, fam):
    """Is the key of every entry stored in the loop over ``fam`` a counter that starts at max(keys)+1 (default 0) and
    grows by one per element?"""
    for ev, Q in iter_events(p.events):
        if ev.kind == "loop.vars" and not Q and ev.fam == fam:
            for (kind, name), (init, cs, newv) in ev.vars.items():
                if kind != "var":
                    continue
                if isinstance(init, LinV) and len(init.lin[0]) == 1 and isinstance(init.lin[0][0][0], tuple) and init.lin[0][0][0][0] == "max":
                    t = init.lin[0][0][0]
                    from ..harness import agg_over_keys
                    over_keys = agg_over_keys(t)
                    dflt = [x for x in t if isinstance(x, tuple) and x and x[0] == "default"]
                    start_ok = over_keys and init.lin[1] >= 1 and init.lin[0][0][1] == 1 and (not dflt or dflt[0][1] == ("c", 0))
                    carried = ("carried", ev.loop, name)
                    atpos = F.lin_add(F.lin_term(("pos", ev.evar, fam)), init.lin)  # the engine's reading of a counter stepped once per element
                    step_ok = bool(cs) and (all(isinstance(v, LinV) and v.lin == F.lin_add(F.lin_term(carried), F.lin_const(1)) for g, v in cs)
                                            or all(isinstance(v, LinV) and v.lin == F.lin_add(atpos, F.lin_const(1)) for g, v in cs))
                    # the key used for the store: the running value
                    key_ok = False
                    for ev2, Q2 in iter_events(p.events):
                        if ev2.kind == "dict.set" and Q2 and Q2[-1][0].id == ev.loop and ((isinstance(ev2.key, Sym) and ev2.key.label == carried) or (isinstance(ev2.key, LinV) and ev2.key.lin == atpos)):
                            key_ok = True
                    if start_ok and step_ok and key_ok:
                        return True
                    return f"start ok={start_ok}, step ok={step_ok}, key ok={key_ok}"
    # no running variable: the key may be computed from the position directly (enumerate(facts, start=max(keys)+1))
    for ev, Q in iter_events(p.events):
        if ev.kind == "dict.set" and Q and Q[-1][0].fam == fam and isinstance(ev.key, LinV):
            evar = Q[-1][0].evar
            terms = dict(ev.key.lin[0])
            pos = terms.pop(("pos", evar, fam), None)
            mx = [(t, c) for t, c in terms.items() if isinstance(t, tuple) and t and t[0] == "max"]
            if pos == 1 and len(mx) == 1 and len(terms) == 1 and mx[0][1] == 1:
                t = mx[0][0]
                dflt = [x for x in t if isinstance(x, tuple) and x and x[0] == "default"]
                from ..harness import agg_over_keys
                if agg_over_keys(t) and ev.key.lin[1] >= 1 and (not dflt or dflt[0][1] == ("c", 0)):
                    return True
                return f"key {ev.key!r} is not above the highest key of the base"
    return "no running key found"


def fact_builder_sibling(rep, ex: Explorer):
    """FACT.shape on the sibling builder consistency_diagnostics.build_fact_conditionals / augment_belief_base_with_facts."""
    qual = "inference.consistency_diagnostics.build_fact_conditionals"
    site = fn_label(ex.prog, qual)
    FACTS = ("members", ("facts",))

    def parse_fact(I, fi, args, kwargs, node):
        return FormulaV(("opaque", ("parsed", desc(args[0]))), "pysmt")

    summ = dict(wrappers.SUMMARIES)
    summ["inference.consistency_diagnostics._parse_fact"] = parse_fact
    summ["inference.consistency_diagnostics._validate_fact_vars"] = lambda I, fi, a, k, n: Const(None)

    def setup(I):
        return [ElemV(SIG, "coll", "str"), ElemV(("facts",), "coll", "factentry")], {"start_index": LinV(F.lin_term("start"))}

    paths = ex.run(qual, setup, summaries=summ, key="factbuilder")
    n = 0
    for p in paths:
        if p.outcome[0] != "return":
            continue
        rv = p.outcome[1]
        d = p.state.heap.get(rv.oid) if isinstance(rv, Ref) else None
        ok = False
        det = "?"
        if isinstance(d, HDict) and d.each:
            ok = True
            for e in d.each:
                _, b, fam, g, kt, vt = e
                from ..harness import cond_parts_state

                parts = cond_parts_state(p.state, vt)
                shape = parts is not None and F.canon(parts[1]) == F.canon(F.FALSE) and parts[0][0] == "not" and parts[0][1][0] == "opaque"
                ok &= shape and fam == FACTS
                det = f"(B:{F.show(parts[1])} | A:{F.show(parts[0])})" if parts else repr(vt)
                if shape and fam == FACTS and g != PTRUE:
                    # a fact that is left out of the augmented base: (Bottom|¬φ) is a constraint of its own even when φ is valid
                    # ((Bottom|Bottom) is never tolerated: the combination is inconsistent / its infinity layer grows)
                    ok = False
                    det = f"only the facts with {show_pred(g)[:120]} get a conditional"
        n += 1
        rep.check(ok, "FACT.shape", site, "fact conditionals", "a fact φ becomes the conditional (Bottom | ¬φ)", extracted=det, required="A ≡ ¬φ, B ≡ ⊥", function=site)
        # running key starts at start_index+1
        okk = False
        for ev, Q in iter_events(p.events):
            if ev.kind == "loop.vars" and not Q and ev.fam == FACTS:
                for (kind, name), (init, cs, newv) in ev.vars.items():
                    if kind == "var" and isinstance(init, LinV) and init.lin == F.lin_add(F.lin_term("start"), F.lin_const(1)):
                        carried = ("carried", ev.loop, name)
                        atpos = F.lin_add(F.lin_term(("pos", ev.evar, FACTS)), init.lin)
                        okk = bool(cs) and (all(isinstance(v, LinV) and v.lin == F.lin_add(F.lin_term(carried), F.lin_const(1)) for g, v in cs)
                                            or all(isinstance(v, LinV) and v.lin == F.lin_add(atpos, F.lin_const(1)) for g, v in cs))
                        # and the running value is the key of the entry stored for that fact
                        stored = [ev2 for ev2, Q2 in iter_events(p.events) if ev2.kind == "dict.set" and Q2 and Q2[-1][0].id == ev.loop]
                        okk = okk and bool(stored) and all((isinstance(e2.key, Sym) and e2.key.label == carried) or (isinstance(e2.key, LinV) and e2.key.lin == atpos) for e2 in stored)
        if not okk and isinstance(d, HDict) and d.each and not d.entries:
            # read off the result: the entry of the fact at position i is stored under start_index + 1 + i
            okk = all(isinstance(e[4], LinV) and e[4].lin == F.lin_add(F.lin_term(("pos", e[1], FACTS)), F.lin_add(F.lin_term("start"), F.lin_const(1))) and e[2] == FACTS for e in d.each)
        rep.check(okk, "FACT.shape", site, "fact keys", "keys start_index+1, +2, ...", extracted=str(okk) if okk else (", ".join(repr(e[4]) for e in d.each)[:160] if isinstance(d, HDict) else "?"), required="running key from start_index+1", function=site)
    rep.floor("build_fact_conditionals paths", n, 1)
    # augment: the builder is called with start index = highest key of the base (0 for an empty base); the result holds
    # the base's conditionals and the fact conditionals; the base handed in is left as it was
    qual2 = "inference.consistency_diagnostics.augment_belief_base_with_facts"
    site2 = fn_label(ex.prog, qual2)
    held = {}

    def bfc(I, fi, args, kwargs, node):
        I.log("facts.build", node, args=tuple(args), kwargs=dict(kwargs))
        b = I.fresh_var("f")
        return I.alloc(HDict(each=[("each", b, FACTS, PTRUE, Sym(("factkey", b)), Sym(("factcond", b)))]))

    def setup2(I):
        bb = make_belief_base(I)
        held["bb"] = bb
        return [bb, ElemV(("facts",), "coll", "factentry")], {}

    summ2 = dict(wrappers.SUMMARIES)
    summ2["inference.consistency_diagnostics.build_fact_conditionals"] = bfc
    paths = ex.run(qual2, setup2, summaries=summ2, key="augment")
    m = 0
    for p in paths:
        if p.outcome[0] != "return" or decided(p, ("empty", ("facts",))) is not False:
            continue
        m += 1
        calls = [ev for ev, Q in iter_events(p.events) if ev.kind == "facts.build"]
        if len(calls) != 1:
            rep.violation("FACT.shape", site2, "builder", "the fact conditionals come from one call of the shared builder", extracted=f"{len(calls)} calls", required="1", function=site2)
            continue
        fparams = [a.arg for a in ex.prog.function(qual).node.args.args]
        bound = {fparams[i]: v for i, v in enumerate(calls[0].args) if i < len(fparams)}
        bound.update(calls[0].kwargs)
        st = bound.get("start_index")
        ok = False
        if isinstance(st, LinV) and len(st.lin[0]) == 1 and st.lin[1] == 0 and st.lin[0][0][1] == 1 and isinstance(st.lin[0][0][0], tuple) and st.lin[0][0][0][0] == "max":
            t = st.lin[0][0][0]
            dflt = [x for x in t if isinstance(x, tuple) and x and x[0] == "default"]
            from ..harness import agg_over_keys
            ok = agg_over_keys(t) and (not dflt or dflt[0][1] == ("c", 0))
        elif st is not None and not isinstance(st, (Const, LinV)):
            raise AnalysisError(f"{site2}: start index in a form the analysis does not read: {st!r}")
        rep.check(ok, "FACT.shape", f"{site2}:{calls[0].node.lineno}", "start index", "facts are keyed above the highest key of the base", extracted=repr(st)[:120], required="max(keys of the base, default 0)", function=site2)
        rv = p.outcome[1]
        o = p.state.heap.get(rv.oid) if isinstance(rv, Ref) else None
        c = o.attrs.get("conditionals") if isinstance(o, HObj) else None
        d = p.state.heap.get(c.oid) if isinstance(c, Ref) else None
        okr = isinstance(d, HDict) and not d.entries and sorted(e[2] for e in d.each) == sorted([KEYS_D, FACTS])
        rep.check(okr, "FACT.shape", site2, "augmented base", "the augmented base holds the conditionals of the base and the fact conditionals", extracted=f"groups over {[F.show_desc(e[2]) for e in d.each]}" if isinstance(d, HDict) else repr(rv), required="base ∪ facts", function=site2)
        bbo = p.state.heap.get(held["bb"].oid)
        d0 = p.state.heap.get(bbo.attrs["conditionals"].oid)
        rep.check(isinstance(d0, HDict) and not d0.entries and len(d0.each) == 1 and d0.each[0][2] == KEYS_D, "FACT.shape", site2, "caller's base untouched", "augmenting builds a new base; the one handed in keeps its own conditionals only",
                  extracted=f"{len(d0.each)} group(s)", required="1", function=site2)
    rep.floor("augment_belief_base_with_facts paths with facts", m, 1)


# ----------------------------------------------------------------------------------------------
# C17: c-representation ranking object
# ----------------------------------------------------------------------------------------------
IMPACTS = ("impacts",)


def crep_rank(rep, ex: Explorer, cls: str):
    """CREP.rank and KEY.no-positional on <cls>.c_vec2ocf, decided by evaluation: bases of 0..3 conditionals under keys
    that are neither consecutive nor in order, the impact vector positional (one symbolic impact per position), the world
    one concrete world, the outcome of every satisfiability test free.  Every test must be asked over the literals of the
    world and the falsification of one conditional, nothing else; every conditional must be tested; and whatever the
    tests answer the result is the sum of the impacts at the *positions* of the conditionals whose test said yes."""
    import itertools

    qual = f"{cls}.c_vec2ocf"
    site = fn_label(ex.prog, qual)
    summ = _summ({f"{PO}.symbolize_bitvec": _lits_summary_for(ex), f"{cls}.symbolize_bitvec": _lits_summary_for(ex)})
    n = 0
    for keys in ((), (5,), (7, 2), (9, 4, 6)):
        names = [f"c{k}" for k in range(len(keys))]

        def setup(I, keys=keys, names=names):
            conds = I.alloc(HDict(entries={k: ElemV(("obj", nm), "cond") for k, nm in zip(keys, names)}))
            imp = I.alloc(HList([("one", LinV(F.lin_term(("impact", i)))) for i in range(len(keys))]))
            o = I.alloc(HObj(cls, {"ranks": I.alloc(HDict()), "signature": I.alloc(HList([("one", Const("a")), ("one", Const("b"))])), "conditionals": conds,
                                   "ranking_system": Const("random_min_c_rep"), "_impacts": imp, "_metadata": I.alloc(HDict()), "_state": I.alloc(HDict())}))
            return [o, Const("10")], {}

        paths = ex.run(qual, setup, summaries=summ, key=f"cvec-eval-{cls}-{len(keys)}")
        fal = {nm: canon_item(("f", falsification(("obj", nm)))) for nm in names}
        combos = set()
        for p in paths:
            dec = dict(p.decisions)
            answers = {}
            feasible = True
            for ev, Q in iter_events(p.events):
                if ev.kind != "query":
                    continue
                fr = list(flat(ev.frames))
                ws = [it[1][1][1] for it in fr if _is_worldlits(it)]
                rest = [canon_item(it) for it in fr if not _is_worldlits(it)]
                who = [nm for nm in names if rest == [fal[nm]]]
                good = ws == ["10"] and len(who) == 1
                rep.check(good, "CREP.rank", f"{site}:{ev.node.lineno}", "falsification test", "a conditional counts iff world ∧ A∧¬B is satisfiable, with nothing else in scope",
                          extracted=show_items(fr)[:220], required="{literals of the world ; c.A∧¬c.B}", function=site)
                if not good:
                    feasible = False
                    break
                a_ = dec.get(("sat", ev.qid))
                if a_ is None:
                    continue
                if who[0] in answers and answers[who[0]] != a_:
                    feasible = False
                    break
                answers[who[0]] = a_
            if not feasible:
                continue
            other = [k for k, v in p.decisions if k[0] != "sat"]
            if other:
                raise AnalysisError(f"{site}: the rank depends on {show_pred(other[0])[:100]}")
            n += 1
            falsified = [nm for nm in names if answers.get(nm)]
            slot = f"keys {list(keys)}: falsified {[keys[names.index(nm)] for nm in falsified]}"
            missing = [nm for nm in names if nm not in answers]
            if missing:
                rep.violation("CREP.rank", site, f"conditionals (keys {list(keys)})", "the rank sums over all conditionals of the base", extracted=f"never tested: keys {[keys[names.index(nm)] for nm in missing]}", required="every conditional tested", function=site)
                continue
            combos.add(tuple(sorted(answers.items())))
            if p.outcome[0] != "return":
                idx_err = p.outcome[0] == "raise" and getattr(p.outcome[1], "cls", "") in ("IndexError", "KeyError")
                rep.violation("KEY.no-positional" if idx_err else "CREP.rank", site, slot, "every world has a rank: the positional impact vector is indexed by the position of the conditional (a function of the key runs out of the vector)" if idx_err else "every world has a rank",
                              extracted=f"{p.outcome[0]} {p.outcome[1]!r}"[:100], required="the sum", function=site)
                continue
            rv = p.outcome[1]
            lv = LinV(F.lin_const(rv.value)) if isinstance(rv, Const) and isinstance(rv.value, int) and not isinstance(rv.value, bool) else rv
            want = F.lin_const(0)
            for nm in falsified:
                want = F.lin_add(want, F.lin_term(("impact", names.index(nm))))
            ok = isinstance(lv, LinV) and lv.lin == want
            by_key = isinstance(lv, LinV) and not ok
            rep.check(ok, "CREP.rank" if not by_key or len(keys) < 2 else "KEY.no-positional", site, slot, "the rank is the sum of the impacts of the falsified conditionals; the impact vector is positional (order of the conditionals), never indexed by a function of the key",
                      extracted=repr(rv)[:160], required=F.show_lin(want), function=site)
        if len(combos) < 2 ** len(keys):
            rep.violation("CREP.rank", site, f"cases (keys {list(keys)})", "every conditional is tested whatever the other tests answer", extracted=f"{len(combos)} combinations of answers", required=str(2 ** len(keys)), function=site)
    rep.floor(f"CREP.rank evaluations of {cls.rsplit('.', 1)[1]}", n, 10)


def crep_init(rep, ex: Explorer, cls=CR):
    """C17.D3: CHECK.three-way at the constructor, every η minimised, impact vector read per conditional key in the
    order of the conditionals (the order c_vec2ocf indexes by position)."""
    qual = f"{cls}.__init__"
    site = fn_label(ex.prog, qual)

    def cinf_new(I, fi, args, kwargs, node):
        I.log("cinf.new", node, args=tuple(args))
        base = I.alloc(HList([("sym", "BASECSP")]))
        return I.alloc(HObj("inference.c_inference.CInference", {"base_csp": base, "epistemic_state": args[0] if args else Const(None)}))

    def pre(I, fi, args, kwargs, node):
        I.log("cinf.preprocess", node, args=tuple(args[1:]))
        return Const(None)

    summ = dict(wrappers.SUMMARIES)
    summ["inference.c_inference.CInference"] = cinf_new
    summ["inference.inference.Inference.preprocess_belief_base"] = pre

    def setup(I):
        bb = make_belief_base(I)
        return [I.alloc(HObj(cls, {})), bb, ElemV(SIG, "coll", "str")], {}

    paths = ex.run(qual, setup, summaries=summ, key="crepinit")
    n = 0
    for p in paths:
        chk = None
        for k, v in p.decisions:
            if k[0] == "check":
                chk = v
        models = [ev for ev, Q in iter_events(p.events) if ev.kind == "solver.model"]
        n += 1
        # CREP.system: the constraint system the impacts are a solution of is compiled from the base as it is now, in this call
        news = [ev for ev, Q in iter_events(p.events) if ev.kind == "cinf.new"]
        for ev, Q in iter_events(p.events):
            if ev.kind != "attr.set" or ev.attr != "_csp":
                continue
            val = ev.value
            if isinstance(val, Const) and val.value is None:
                continue
            o_ = p.state.heap.get(val.oid) if isinstance(val, Ref) else None
            fresh = isinstance(o_, HList) and any(sg == ("sym", "BASECSP") for sg in o_.segs) and bool(news)
            if fresh:
                rep.ok("CREP.system", f"{site}:{ev.node.lineno}", "constraint system", "the constraint system is the one c-inference compiles from this base in this call")
                break  # (what follows converts that system; its wiring into the optimiser is CHECK.three-way / CREP.rank)
            lab = val.label if isinstance(val, Sym) else None
            by_object = isinstance(lab, tuple) and lab[:1] == ("dictitem",) and len(lab) >= 3 and isinstance(lab[2], tuple) and lab[2][:1] == ("ref",)
            if by_object:
                rep.violation("CREP.system", f"{site}:{ev.node.lineno}", "constraint system remembered per base object", "the impacts solve the constraint system of the base as it is now; a system remembered under the base *object* does not follow a change of its conditionals",
                              extracted=F.show_desc(lab)[:120], required="compiled from the current conditionals", function=site)
                break
            # (any other form - a converted copy, a local - is not judged here: only a system found under the base object is)
        if chk == "sat":
            rep.check(len(models) >= 1 and p.outcome[0] == "return", "CHECK.three-way", site, "sat", "a model is read after the check answered sat", extracted=f"{len(models)} read(s), {p.outcome[0]}", required="model read", function=site)
            # objectives: every η_key minimised
            objs = [ev for ev, Q in iter_events(p.events) if ev.kind == "solver.objective"]
            okm = False
            for ev, Q in iter_events(p.events):
                if ev.kind == "solver.objective" and Q:
                    lp = Q[-1][0]
                    t = ev.term
                    if lp.fam == KEYS_D and ev.how == "minimize" and isinstance(t, LinV) and len(t.lin[0]) == 1:
                        nm = t.lin[0][0][0]
                        okm = nm[0] == "isym" and nm[1][0] == "name" and nm[1][1][0] == "eta_" and nm[1][1][1] == ("elem", lp.evar, "key")
            rep.check(okm, "CREP.rank", site, "objectives", "every impact variable η_key of the base is minimised (Pareto)", extracted="η named by key of every conditional" if okm else "other", required="minimize(eta_<key>) for every conditional", function=site)
            # impacts: list over the conditionals in order, value of eta_<key>
            for ev, Q in iter_events(p.events):
                if ev.kind == "attr.set" and ev.attr == "_impacts":
                    vw = view(p.state, ev.value)
                    ok = False
                    if isinstance(vw, tuple) and vw[0] == "list" and len(vw[1]) == 1 and vw[1][0][0] == "each":
                        _, b, fam, g, val = vw[1][0]
                        ok = fam == KEYS_D and g == PTRUE and ("eta_", ("elem", b, "key")) in _flatten(desc(val) if not isinstance(val, tuple) else val)
                    rep.check(ok, "KEY.no-positional", f"{site}:{ev.node.lineno}", "impact vector", "the impact vector lists the value of η_<key> for every conditional, in the order of the conditionals",
                              extracted=repr(vw)[:200], required="[value(eta_<key>) for key in conditionals]", function=site)
        elif chk in ("unsat", "unknown"):
            rep.check(not models and p.outcome[0] == "raise", "CHECK.three-way", site, chk, "no model is read unless the check answered sat; the constructor fails instead", extracted=f"{len(models)} read(s), {p.outcome[0]}", required="raise, no model()", function=site)
    rep.floor("RandomMinCRepPreOCF construction paths", n, 3)


def _flatten(x, acc=None):
    if acc is None:
        acc = set()
    if isinstance(x, tuple):
        acc.add(x)
        for i in x:
            _flatten(i, acc)
    return acc


# ----------------------------------------------------------------------------------------------
# C20: persistence
# ----------------------------------------------------------------------------------------------
def save_restore(rep, ex: Explorer):
    """SAVE.restore: every attribute detached before the dump is restored on every exit of save_ocf (also when opening
    the file or pickling fails)."""
    qual = f"{PO}.save_ocf"
    site = fn_label(ex.prog, qual)
    n = 0
    for have in (("_optimizer", "_csp"), ("_csp",), ()):
        def setup(I, have=have):
            s = _obj(I, CR, lambda I: {a: Sym(("orig", a)) for a in have})
            return [s, Const("/tmp/x.ocf")], {}

        paths = ex.run(qual, setup, summaries=_summ(), key=f"save-{'-'.join(have)}")
        for p in paths:
            n += 1
            obj = None
            for oid, o in p.state.heap.items():
                if isinstance(o, HObj) and o.cls == CR:
                    obj = o
            dumps = [ev for ev, Q in iter_events(p.events) if ev.kind == "persist.dump"]
            bad = []
            for a in ("_optimizer", "_csp"):
                cur = obj.attrs.get(a, "absent") if obj else "?"
                want = Sym(("orig", a)) if a in have else "absent"
                if a not in have and isinstance(cur, Const) and cur.value is None:
                    # attribute that did not exist must not be invented... tolerated: None placeholder is what load_ocf sets too
                    continue
                if cur != want:
                    bad.append(f"{a}={cur!r}")
            how = "failure" if p.outcome[0] == "raise" else "success"
            rep.check(not bad, "SAVE.restore", site, f"exit by {how} ({'+'.join(have) or 'no solver state'})", "the in-memory object has its solver state back on every exit of save_ocf",
                      extracted=", ".join(bad) or "restored", required="attributes as before the call", function=site)
            # what is pickled has the solver state detached (a z3 optimiser is a handle into the solver's memory and cannot be
            # pickled; the constraint list refers to solver terms): every such attribute the object has is None at the dump
            for d in dumps:
                at = d.data.get("attrs")
                if at is None:
                    continue
                kept = [a for a in have if not (isinstance(at.get(a), Const) and at.get(a).value is None)]
                rep.check(not kept, "SAVE.restore", f"{site}:{d.node.lineno}", f"detached at the dump ({'+'.join(have) or 'no solver state'})", "the object is pickled without its solver state (which cannot be pickled): every such attribute is detached before the dump",
                          extracted=f"still attached: {kept}" if kept else "detached", required="None for " + ", ".join(have) if have else "nothing to detach", function=site)
    rep.floor("save_ocf exits", n, 4)


def impacts_keys(rep, ex: Explorer):
    """IMPACTS.keys, decided by evaluating the writer and then the reader on what the writer produced: (1) the mapping
    export_impacts dumps, handed to import_impacts of the same object as the file's content, is accepted on every path and
    its impact vector becomes the object's; (2) a file whose size entry differs from the number of conditionals is refused
    before it replaces the current impacts."""
    prog = ex.prog
    exp, imp = f"{CR}.export_impacts", f"{CR}.import_impacts"
    site_e, site_i = fn_label(prog, exp), fn_label(prog, imp)

    def obj(I, impacts):
        bb = make_belief_base(I)
        conds = I.deref(bb).attrs["conditionals"]
        return _obj(I, CR, lambda I: {"conditionals": conds, "_impacts": impacts, "ranking_system": Const("random_min_c_rep")})

    written = None
    for fmt, name in (("json", "m.json"), ("pickle", "m.pkl")):
        def setup_s(I, fmt=fmt, name=name):
            return [obj(I, Sym("impacts")), Const(name)], {"fmt": Const(fmt)}

        for p in ex.run(exp, setup_s, summaries=_summ(), key=f"impkeys-exp-{fmt}"):
            for ev, Q in iter_events(p.events):
                if ev.kind == "persist.dump":
                    d = p.state.heap.get(ev.obj.oid) if isinstance(ev.obj, Ref) else None
                    if not isinstance(d, HDict) or d.each or d.sym:
                        raise AnalysisError(f"{site_e}: the exported object is not a mapping with literal keys: {ev.obj!r}")
                    cur = {k: desc(v) for k, v in d.entries.items()}
                    if written is not None and {k: desc(v) for k, v in written.items()} != cur:
                        rep.violation("IMPACTS.keys", site_e, "one layout", "both formats export the same mapping", extracted=f"{sorted(cur)} vs {sorted(written)}", required="equal", function=site_e)
                    written = dict(d.entries)
    # the vector of a base without conditionals is the empty list: a vector like any other (only a missing one is refused)
    def setup_empty(I):
        o_ = _obj(I, CR, lambda I: {"conditionals": I.alloc(HDict()), "_impacts": I.alloc(HList([])), "ranking_system": Const("random_min_c_rep")})
        return [o_, Const("m.json")], {"fmt": Const("json")}

    for p in ex.run(exp, setup_empty, summaries=_summ(), key="impkeys-exp-empty"):
        dumped = any(ev.kind == "persist.dump" for ev, Q in iter_events(p.events))
        if p.outcome[0] == "raise" and getattr(p.outcome[1], "cls", "") in ("OSError", "TypeError", "PicklingError", "Exception") and dumped:
            continue  # the file system / the serialiser failing is not the exporter refusing
        if p.outcome[0] == "raise" and getattr(p.outcome[1], "cls", "") == "OSError":
            continue
        rep.check(p.outcome[0] == "return" and dumped, "IMPACTS.keys", site_e, "empty vector exported", "the empty impact vector (a base without conditionals) is exported like any other",
                  extracted=f"{p.outcome[0]} {p.outcome[1]!r}"[:80] + ("" if dumped else ", nothing written"), required="written", function=site_e)
    if not written:
        raise AnalysisError(f"{site_e}: no dump observed")
    rep.check("impacts" in written and written["impacts"] == Sym("impacts"), "IMPACTS.keys", site_e, "vector exported", "the exported mapping carries the object's impact vector", extracted=f"keys {sorted(written)}; impacts = {written.get('impacts')!r}",
              required="the impacts of the object", function=site_e)

    def reader_paths(content, key):
        held = {}

        def load(interp, args, kwargs, node):
            interp.log("persist.load", node, how="json.loads", src=args[0] if args else None, lid=0)
            interp.log("persist.loaded", node, how="json.loads", lid=0)
            return interp.alloc(HDict(entries=dict(content)))

        def setup_l(I):
            s_ = obj(I, Sym("old-impacts"))
            held["s"] = s_
            return [s_, Const("m.json")], {}

        paths = ex.run(imp, setup_l, summaries=_summ(), key=key, models={"json.loads": load, "pickle.loads": load, "json.load": load, "pickle.load": load})
        out = []
        for p in paths:
            exists = [v for k, v in p.decisions if k[0] == "exists-file"]
            if exists and exists[0] is False:
                continue
            o = p.state.heap.get(held["s"].oid)
            out.append((p, o.attrs.get("_impacts") if isinstance(o, HObj) else None))
        return out

    # (1) round trip on the same object
    n = 0
    for p, now in reader_paths(written, "impkeys-roundtrip"):
        n += 1
        ok = p.outcome[0] == "return" and now == Sym("impacts")
        rep.check(ok, "IMPACTS.keys", site_i, "round trip", "what export_impacts wrote is accepted by import_impacts of the same object, and the vector read is the one written",
                  extracted=f"{p.outcome[0]}{' ' + p.outcome[1].cls + ' ' + str(getattr(p.outcome[1], 'origin', '') or '')[:60] if p.outcome[0] == 'raise' else ''}; impacts now {now!r}", required="return; impacts = the exported vector", function=site_i)
    rep.floor("import paths on an exported file", n, 1)
    # (2) a file of another base: the size entry is compared before anything is replaced
    other = {k: Sym(("file", k)) for k in written}
    compared = False
    m = 0
    for p, now in reader_paths(other, "impkeys-mismatch"):
        size = [(k, v) for k, v in p.decisions if k[0] == "cmp" and F.mentions(k, {("file", "conditionals_count")})]
        if not size:
            continue
        compared = True
        (k, v), = size[:1]
        equal = v if k[1] == "==" else (not v if k[1] == "!=" else None)
        if equal is None or not F.mentions(k, {("len", ("keys", "D"))}):
            raise AnalysisError(f"{site_i}: size test in a form the analysis does not read: {show_pred(k)}")
        m += 1
        if equal:
            rep.check(p.outcome[0] == "return" and now == Sym(("file", "impacts")), "IMPACTS.keys", site_i, "matching size accepted", "a vector of the right size is imported", extracted=f"{p.outcome[0]}; impacts now {now!r}", required="the file's vector", function=site_i)
        else:
            rep.check(p.outcome[0] == "raise" and now == Sym("old-impacts"), "IMPACTS.keys", site_i, "size check first", "a vector of the wrong size is rejected before it replaces the current impacts",
                      extracted=f"{p.outcome[0]}; impacts now {now!r}", required="raise; impacts unchanged", function=site_i)
    if not compared:
        rep.violation("IMPACTS.keys", site_i, "size check first", "the size entry of the file is compared with the number of conditionals", extracted="never compared", required="conditionals_count == len(conditionals)", function=site_i)
    rep.floor("impact keys", len(written), 3)


def impacts_accept(rep, ex: Explorer):
    """IMPACTS.accept on load_impacts: exactly the vectors that are not lists of non-negative integers of the right
    length are rejected (an impact 0 is legitimate: a redundant conditional), and an accepted vector becomes the impacts."""
    qual = f"{CR}.load_impacts"
    site = fn_label(ex.prog, qual)
    IMP = ("members", ("impactsarg",))

    def setup(I):
        bb = make_belief_base(I)
        conds = I.deref(bb).attrs["conditionals"]
        s = _obj(I, CR, lambda I: {"conditionals": conds, "_impacts": ElemV(("old",), "coll", "int")})
        b = I.fresh_var("x")
        lst = I.alloc(HList([("each", b, IMP, PTRUE, Sym(("impval", b), "int"))]))
        return [s, lst], {}

    paths = ex.run(qual, setup, summaries=_summ(), key="loadimp")

    def classify(key, val):
        k = key[0]
        # quantifier duality: ∃x ¬P(x) is the negation of ∀x P(x) (and the other way round)
        if k in ("forall", "exists") and len(key) == 5 and isinstance(key[4], tuple) and key[4][:1] == ("not",) and len(key[4]) == 2:
            return classify(("exists" if k == "forall" else "forall",) + tuple(key[1:4]) + (key[4][1],), not val)
        if k == "forall" and key[2] == IMP and key[4][:2] == ("cmp", ">=") and key[4][2] == ("lin", (((("impval", key[1]), 1),), 0)) and key[4][3] == ("c", 0):
            return "a negative value" if val is False else None
        if k == "exists" and key[2] == IMP and key[4][:1] == ("isinstance",) and "int" in repr(key[4]):
            return None if val is True else "other:" + show_pred(key)[:120]
        if k == "forall" and key[2] == IMP and key[4][:1] == ("isinstance",) and "int" in repr(key[4]):
            return "not all integers" if val is False else None
        if k == "cmp" and key[1] == "==" and isinstance(key[2], tuple) and key[2][0] == "lin":
            terms = dict(key[2][1][0])
            if set(terms) == {("len", ("impactsarg",)), ("len", ("keys", "D"))} and sum(terms.values()) == 0 and key[2][1][1] == 0:
                return "wrong length" if val is False else None
        if k == "exists" and key[2] == IMP and key[4][:2] == ("cmp", "<"):
            lin = key[4][2]
            b = key[1]
            if lin == ("lin", (((("impval", b), 1),), 0)) and key[4][3] == ("c", 0):
                return "a negative value" if val is True else None
            return "other:" + show_pred(key)[:120] if val is True else None
        return "other:" + show_pred(key)[:120]

    def classify_exit(p, loop_id, choice):
        """A search loop over the vector that leaves at the first offending element says ∃ element: <its guard>; running
        to completion says no element is offending."""
        if choice == "complete":
            return None
        for ev, Q in iter_events(p.events):
            if ev.kind == "loop" and ev.id == loop_id and ev.fam == IMP:
                case = (ev.data.get("exits") or [])[choice]
                b = ev.evar
                out = []
                for k, v in case.guard:
                    if k[:1] == ("isinstance",) and "int" in repr(k) and v is False:
                        out.append("not all integers")
                    elif k[0] == "cmp" and k[1] == "<" and k[2] == ("lin", (((("impval", b), 1),), 0)) and k[3] == ("c", 0) and v is True:
                        out.append("a negative value")
                    elif k[:1] == ("isinstance",) and "int" in repr(k) and v is True:
                        continue
                    elif k[0] == "cmp" and k[1] == "<" and k[2] == ("lin", (((("impval", b), 1),), 0)) and k[3] == ("c", 0) and v is False:
                        continue
                    else:
                        out.append("other:" + show_pred(k)[:100])
                return out[0] if len(out) == 1 else ("other:" + "; ".join(out) if out else "other:unconditional exit")
        return f"other:loopexit({loop_id})"

    n = 0
    for p in paths:
        why = [classify_exit(p, k[1], v) if k[0] == "loopexit" else classify(k, v) for k, v in p.decisions]
        why = [w for w in why if w]
        if p.outcome[0] == "raise":
            n += 1
            last = why[-1] if why else "unconditional"
            ok = last in ("not all integers", "wrong length", "a negative value") and len(why) == 1
            rep.check(ok, "IMPACTS.accept", site, f"rejection: {last[:60]}", "a vector is rejected only for a non-integer entry, a wrong length or a negative entry",
                      extracted=f"raises {p.outcome[1].cls} when {'; '.join(why) or 'always'}", required="non-integer / wrong length / negative", function=site)
        elif p.outcome[0] == "return":
            n += 1
            rep.check(not why, "IMPACTS.accept", site, "acceptance", "every list of non-negative integers of the right length is accepted", extracted="; ".join(why) or "accepted", required="accepted", function=site)
            sets = [ev for ev, Q in iter_events(p.events) if ev.kind == "attr.set" and ev.attr == "_impacts"]
            okv = len(sets) == 1 and view(p.state, sets[0].value) == ("list", (("each", sets[0].value and view(p.state, sets[0].value)[1][0][1], IMP, PTRUE, view(p.state, sets[0].value)[1][0][4]),)) if sets and isinstance(view(p.state, sets[0].value), tuple) and view(p.state, sets[0].value)[1] else False
            rep.check(bool(sets) and okv, "IMPACTS.accept", site, "assignment", "the accepted vector becomes the impact vector", extracted=f"{len(sets)} assignment(s)", required="_impacts = the given values", function=site)
    rep.floor("load_impacts paths", n, 2)


def _content(state, v, depth=0):
    """Content of a value up to object identity and binder names (dicts and lists by what they hold)."""
    if isinstance(v, Ref) and depth < 4:
        o = state.heap.get(v.oid)
        if isinstance(o, HDict):
            ents = tuple(sorted((repr(k), _content(state, x, depth + 1)) for k, x in o.entries.items()))
            each = tuple(sorted(repr(F.subst_any((e[2], e[3], desc(e[4]), _content(state, e[5], depth + 1)), {e[1]: ("var", "_b")})) for e in o.each))
            return ("dict", ents, each, o.sym)
        if isinstance(o, HList):
            segs = []
            for sg in o.segs:
                if sg[0] == "one":
                    segs.append(("one", _content(state, sg[1], depth + 1)))
                elif sg[0] == "each":
                    segs.append(F.subst_any(("each", sg[2], sg[3], _content(state, sg[4], depth + 1)), {sg[1]: ("var", "_b")}))
                else:
                    segs.append(sg)
            return ("set" if o.is_set else "list", tuple(segs))
        return ("ref", v.oid)
    return desc(v)


def pickled_state(rep, ex: Explorer):
    """STATE.pickled on PreOCF.__getstate__ / __setstate__: the state handed to pickle holds every attribute of the object
    with its full content (ranks of every world, computed or not; impacts; metadata; signature) - only the solver handles
    that save_ocf detaches may be missing - and restoring a state puts every entry of it back."""
    DETACHED = {"_optimizer", "_csp"}
    # --- __getstate__
    qual = f"{PO}.__getstate__"
    site = fn_label(ex.prog, qual)
    held = {}

    def setup(I):
        b = I.fresh_var("w")
        ranks = I.alloc(HDict(each=[("each", b, WORLDS, PTRUE, ElemV(b, "key"), Sym(("storedrank", b), "optint"))]))
        imp = I.alloc(HList([("sym", "IMPACTS")]))
        meta = I.alloc(HDict(sym="METADATA"))
        attrs = {"ranks": ranks, "signature": Sym("SIG"), "_metadata": meta, "_impacts": imp, "conditionals": Sym("CONDS"), "_z_partition": Sym("ZPART"),
                 "_optimizer": Sym("OPT"), "_csp": Sym("CSP")}
        s_ = I.alloc(HObj(ZP, dict(attrs)))
        held["s"], held["attrs"] = s_, attrs
        return [s_], {}

    paths = ex.run(qual, setup, summaries=_summ(), key="getstate")
    n = 0
    for p in paths:
        if p.outcome[0] != "return":
            rep.violation("STATE.pickled", site, "outcome", "the state of every ranking object can be taken", extracted=f"{p.outcome[0]} {p.outcome[1]!r}"[:80], required="return", function=site)
            continue
        rv = p.outcome[1]
        d = p.state.heap.get(rv.oid) if isinstance(rv, Ref) else None
        if isinstance(d, HObj) and isinstance(rv, Ref) and rv.oid == held["s"].oid:
            d = HDict(entries=dict(d.attrs))  # the object's own attribute dictionary (no copy): the same content
        if not isinstance(d, HDict):
            raise AnalysisError(f"{site}: the returned state is not a mapping the analysis can read: {rv!r}")
        for name, orig in held["attrs"].items():
            if name in DETACHED and name not in d.entries:
                continue
            n += 1
            if name not in d.entries:
                rep.violation("STATE.pickled", site, f"attribute {name}", "the pickled state holds every attribute of the object", extracted="missing", required=name, function=site)
                continue
            same = _content(p.state, d.entries[name]) == _content(p.state, orig)
            rep.check(same, "STATE.pickled", site, f"attribute {name}", "the pickled state holds every attribute with its full content (all worlds, ranked or not)",
                      extracted=str(_content(p.state, d.entries[name]))[:160], required=str(_content(p.state, orig))[:160], function=site)
        # taking the state leaves the object as it was
        obj = p.state.heap.get(held["s"].oid)
        unchanged = isinstance(obj, HObj) and all(_content(p.state, obj.attrs.get(k)) == _content(p.state, v) for k, v in held["attrs"].items())
        rep.check(unchanged, "STATE.pickled", site, "object untouched", "taking the state does not change the object", extracted="changed" if not unchanged else "unchanged", required="unchanged", function=site)
    # --- __setstate__
    qual2 = f"{PO}.__setstate__"
    site2 = fn_label(ex.prog, qual2)

    def setup2(I):
        st = I.alloc(HDict(entries={"ranks": Sym("RANKS"), "signature": Sym("SIG"), "_impacts": Sym("IMP"), "_metadata": Sym("META")}))
        s_ = I.alloc(HObj(ZP, {}))
        held["s2"] = s_
        return [s_, st], {}

    paths = ex.run(qual2, setup2, summaries=_summ(), key="setstate")
    for p in paths:
        if p.outcome[0] != "return":
            rep.violation("STATE.pickled", site2, "outcome", "every state can be restored", extracted=f"{p.outcome[0]} {p.outcome[1]!r}"[:80], required="return", function=site2)
            continue
        obj = p.state.heap.get(held["s2"].oid)
        for name, want in (("ranks", Sym("RANKS")), ("signature", Sym("SIG")), ("_impacts", Sym("IMP")), ("_metadata", Sym("META"))):
            n += 1
            got = obj.attrs.get(name) if isinstance(obj, HObj) else None
            rep.check(got == want, "STATE.pickled", site2, f"attribute {name}", "restoring a state puts every entry of it back on the object", extracted=repr(got), required=repr(want), function=site2)
    # --- the same on a concrete state whose rank table is partial (a custom ranking given for some worlds only, a marginal of a
    # partly ranked object): what comes back is that table - no world added, none dropped, no rank changed
    def setup3(I):
        ranks = I.alloc(HDict(entries={"10": Const(1), "11": Const(2)}))
        st = I.alloc(HDict(entries={"ranks": ranks, "signature": I.new_list([Const("a"), Const("b")]), "conditionals": Const(None), "ranking_system": Const("custom"),
                                    "_metadata": I.alloc(HDict()), "_state": I.alloc(HDict())}))
        s_ = I.alloc(HObj(CUS, {}))
        held["s3"] = s_
        return [s_, st], {}

    for p in ex.run(qual2, setup3, summaries=_summ(), key="setstate-concrete"):
        if p.outcome[0] != "return":
            rep.violation("STATE.pickled", site2, "outcome (partial rank table)", "every state can be restored", extracted=f"{p.outcome[0]} {p.outcome[1]!r}"[:80], required="return", function=site2)
            continue
        obj = p.state.heap.get(held["s3"].oid)
        rk = obj.attrs.get("ranks") if isinstance(obj, HObj) else None
        d_ = p.state.heap.get(rk.oid) if isinstance(rk, Ref) else None
        if not (isinstance(d_, HDict) and not d_.each and not d_.sym):
            raise AnalysisError(f"{site2}: the rank table of a restored object is not a mapping the analysis can read")
        got = {k: (v.value if isinstance(v, Const) else repr(v)) for k, v in d_.entries.items()}
        n += 1
        rep.check(got == {"10": 1, "11": 2}, "STATE.pickled", site2, "partial rank table", "restoring a state gives back the rank table that was saved: no world added, dropped or re-ranked (an added unranked world makes a custom ranking unusable)",
                  extracted=repr(got)[:120], required="{'10': 1, '11': 2}", function=site2)
    # --- a subclass that overrides either method changes what is pickled for its objects: decided by a round trip on a small
    # concrete object of that class (state taken by the most derived __getstate__, put on a fresh object by the most derived
    # __setstate__): every attribute comes back with the same content.  The partition holds a conditional that is not among
    # `conditionals` (a fact conditional of the augmented base) beside those that are.
    CONDC = "inference.conditional.Conditional"
    for cls_ in (ZP, CR, CUS):
        own = [m for m in ("__getstate__", "__setstate__") if cls_ in ex.prog.classes and m in ex.prog.classes[cls_].methods]
        if not own:
            continue
        gq = ex.prog.lookup_method(cls_, "__getstate__")
        sq = ex.prog.lookup_method(cls_, "__setstate__")
        if gq is None or sq is None:
            raise AnalysisError(f"{cls_}: overrides {own} but the other half of the pair cannot be found")
        sitec = fn_label(ex.prog, f"{cls_}.{own[0]}")
        rt = {}

        def cond(I, name):
            return I.alloc(HObj(CONDC, {"textRepresentation": Const(name), "index": Const(None), "weak": Const(False)}))

        def mk(I):
            c1, c2, cf = cond(I, "c1"), cond(I, "c2"), cond(I, "fact")
            conds = I.alloc(HDict(entries={1: c1, 2: c2}))
            part = I.alloc(HList([("one", I.alloc(HList([("one", c1)]))), ("one", I.alloc(HList([("one", c2), ("one", cf)])))]))
            ranks = I.alloc(HDict(entries={"0": Const(None), "1": Const(2)}))
            return {"ranks": ranks, "signature": I.alloc(HList([("one", Const("a"))])), "_metadata": I.alloc(HDict()), "_state": I.alloc(HDict()), "_impacts": I.alloc(HList([("one", Const(1)), ("one", Const(0))])),
                    "conditionals": conds, "_z_partition": part, "ranking_system": Const("system-z"), "_optimizer": Const(None), "_csp": Const(None)}

        def _py(state, v, self_oid, depth=0):
            """a concrete abstract value as a Python structure (conditionals by their text; None when it is not concrete)"""
            if isinstance(v, Ref) and depth < 6:
                o = state.heap.get(v.oid)
                if isinstance(o, HObj) and v.oid == self_oid:
                    return {k: _py(state, x, self_oid, depth + 1) for k, x in o.attrs.items()}
                if isinstance(o, HObj) and o.cls == CONDC and isinstance(o.attrs.get("textRepresentation"), Const):
                    return ("condobj", o.attrs["textRepresentation"].value)
                if isinstance(o, HDict) and not o.each and not o.sym:
                    return {k: _py(state, x, self_oid, depth + 1) for k, x in o.entries.items()}
                if isinstance(o, HList) and all(sg[0] == "one" for sg in o.segs):
                    return [_py(state, sg[1], self_oid, depth + 1) for sg in o.segs]
                return None
            return v

        def setup_g(I):
            attrs = mk(I)
            s_ = I.alloc(HObj(cls_, dict(attrs)))
            rt["s"], rt["attrs"] = s_, attrs
            return [s_], {}

        gp = [p for p in ex.run(gq.qualname, setup_g, summaries=_summ(), key=f"rt-get-{cls_}")]
        if len(gp) != 1 or gp[0].outcome[0] != "return":
            raise AnalysisError(f"{sitec}: the state of a small concrete object is not taken on a single returning path ({len(gp)} paths)")
        before = {k: _py(gp[0].state, v, -1) for k, v in rt["attrs"].items()}
        st_content = _py(gp[0].state, gp[0].outcome[1], rt["s"].oid)
        if not isinstance(st_content, dict):
            raise AnalysisError(f"{sitec}: the state taken from a small concrete object is not a concrete mapping: {st_content!r}"[:200])

        def setup_s(I):
            memo = {}

            def rebuild(c):
                if isinstance(c, dict):
                    return I.alloc(HDict(entries={k: rebuild(v) for k, v in c.items()}))
                if isinstance(c, list):
                    return I.alloc(HList([("one", rebuild(v)) for v in c]))
                if isinstance(c, tuple) and c[:1] == ("condobj",):
                    if c[1] not in memo:
                        memo[c[1]] = cond(I, c[1])
                    return memo[c[1]]
                if c is None:
                    raise AnalysisError(f"{sitec}: the state taken from a small concrete object holds something the analysis cannot rebuild")
                return c

            s_ = I.alloc(HObj(cls_, {}))
            rt["s2"] = s_
            return [s_, rebuild(st_content)], {}

        sp = [p for p in ex.run(sq.qualname, setup_s, summaries=_summ(), key=f"rt-set-{cls_}")]
        if len(sp) != 1:
            raise AnalysisError(f"{sitec}: restoring the state of a small concrete object takes {len(sp)} paths")
        if sp[0].outcome[0] != "return":
            rep.violation("STATE.pickled", sitec, "round trip", "a state taken from an object can be put back", extracted=f"{sp[0].outcome[0]} {sp[0].outcome[1]!r}"[:100], required="return", function=sitec)
            continue
        obj = sp[0].state.heap.get(rt["s2"].oid)
        for name, want in before.items():
            if name in DETACHED:
                continue
            got = _py(sp[0].state, obj.attrs.get(name), -1) if isinstance(obj, HObj) and name in obj.attrs else "missing"
            n += 1
            rep.check(got == want, "STATE.pickled", sitec, f"round trip of {name}", "an object restored from its own pickled state has every attribute with the content it had (also a partition that holds conditionals which are not among `conditionals`: the fact conditionals)",
                      extracted=str(got)[:160], required=str(want)[:160], function=sitec)
    rep.floor("pickled attributes compared", n, 8)
    return {"pickled_attrs": n}


def impacts_factories(rep, ex: Explorer):
    """IMPACTS.factory on init_with_impacts / init_with_impacts_list: the object rebuilt from exported impacts ranges over
    the worlds of the signature it records (the one given, else the base's), carries the base's conditionals, takes its
    impacts from the file / list handed in, and is what the factory returns."""
    from ..absvals import ClassV

    n = 0
    for fname, loader, what in (("init_with_impacts", "import_impacts", Sym("IMPACTS-SOURCE")), ("init_with_impacts_list", "load_impacts", Sym("IMPACTS-SOURCE"))):
        qual = f"{CR}.{fname}"
        site = fn_label(ex.prog, qual)

        def wd(I, fi, args, kwargs, node):
            sig = kwargs.get("signature", args[-1] if args else None)
            I.log("fac.worlds", node, sig=sig)
            return Sym(("worlds-of", desc(sig)))

        def init(I, fi, args, kwargs, node):
            ifi = ex.prog.functions.get(f"{PO}.__init__")
            params = [a.arg for a in ifi.node.args.args]
            b = {params[i]: v for i, v in enumerate(args) if i < len(params)}
            b.update(kwargs)
            I.log("fac.init", node, bound=b)
            return Const(None)

        summ = {f"{PO}.create_bitvec_world_dict": wd, f"{PO}.__init__": init}
        for sigarg in (Sym("SIGARG"), Const(None)):
            held = {}

            def setup(I, sigarg=sigarg, held=held):
                bb = make_belief_base(I)
                held["bb"] = bb
                return [ClassV(CR), bb, what, sigarg, Sym("META")], {}

            paths = ex.run(qual, setup, summaries=summ, key=f"fac-{fname}-{sigarg!r}")
            for p in paths:
                if p.outcome[0] != "return":
                    rep.violation("IMPACTS.factory", site, "outcome", "the factory builds an object for every base and signature", extracted=f"{p.outcome[0]} {p.outcome[1]!r}"[:100], required="return", function=site)
                    continue
                given = decided(p, ("isnone", "SIGARG")) is False if isinstance(sigarg, Sym) else False
                eff = Sym("SIGARG") if given else Sym(("signature", "D"))
                evs = [ev for ev, Q in iter_events(p.events)]
                ws = [e for e in evs if e.kind == "fac.worlds"]
                ins = [e for e in evs if e.kind == "fac.init"]
                lds = [e for e in evs if e.kind == "call.method" and e.data.get("method") == loader]
                n += 1
                okw = len(ws) == 1 and ws[0].sig == eff
                rep.check(okw, "IMPACTS.factory", site, f"worlds ({'signature given' if given else 'signature of the base'})", "the rebuilt object ranges over the worlds of the signature it records",
                          extracted=repr(ws[0].sig) if ws else "no world table", required=repr(eff), function=site)
                if len(ins) != 1:
                    rep.violation("IMPACTS.factory", site, "initialisation", "the common attributes are initialised once", extracted=f"{len(ins)} calls", required="1", function=site)
                    continue
                b = ins[0].bound
                bbo = p.state.heap.get(held["bb"].oid)
                oki = b.get("ranks") == Sym(("worlds-of", desc(eff))) and b.get("signature") == eff and b.get("conditionals") == bbo.attrs.get("conditionals") and b.get("metadata") == Sym("META")
                rep.check(oki, "IMPACTS.factory", site, f"attributes ({'signature given' if given else 'signature of the base'})", "ranks over that signature, the signature itself, the base's conditionals and the metadata reach the object in their own roles",
                          extracted=", ".join(f"{k}={v!r}"[:50] for k, v in b.items() if k != "self")[:220], required="(worlds of sig, sig, base conditionals, .., metadata)", function=site)
                okl = len(lds) == 1 and lds[0].args[:1] == (what,) and lds[0].obj == b.get("self") and p.outcome[1] == b.get("self")
                rep.check(okl, "IMPACTS.factory", site, "impacts loaded and object returned", "the impacts come from the source handed in, are loaded into the object just initialised, and that object is returned",
                          extracted=f"{len(lds)} load(s) {lds[0].args[:1] if lds else ''}; returns {p.outcome[1]!r}"[:160], required="load(source) on the new object; return it", function=site)
    rep.floor("impact factory paths", n, 4)
    return {"impact_factory_paths": n}


def _always_raises(body):
    return bool(body) and isinstance(body[-1], ast.Raise)


SUFFIXES = ("m.json", "m.JSON", "m.pkl", "m.pickle", "m.dat", "m")


def format_agree(rep, ex: Explorer):
    """FORMAT.agree: for every (suffix class, fmt) the format written by save_metadata / export_impacts is one the
    corresponding loader accepts for that file name."""
    pairs = ((f"{PO}.save_metadata", f"{PO}.load_metadata", "metadata"), (f"{CR}.export_impacts", f"{CR}.import_impacts", "impacts"))
    n = 0
    for saver, loader, what in pairs:
        site_s, site_l = fn_label(ex.prog, saver), fn_label(ex.prog, loader)
        for name in SUFFIXES:
            # which formats does the loader accept for this name?
            def setup_l(I, name=name):
                bb = make_belief_base(I)
                conds = I.deref(bb).attrs["conditionals"]
                s = _obj(I, CR, lambda I: {"conditionals": conds, "_impacts": Sym("impacts"), "ranking_system": Const("random_min_c_rep")})
                return [s, Const(name)], {}

            lpaths = ex.run(loader, setup_l, summaries=_summ(), key=f"load-{what}-{name}")
            accepts = set()
            unreliable = {}
            for p in lpaths:
                attempts = [(ev.kind, ev.how) for ev, Q in iter_events(p.events) if ev.kind in ("persist.load", "persist.loaded")]
                if p.outcome[0] == "return" and any(k == "persist.loaded" for k, h in attempts):
                    used = any((ev.kind == "attr.set" and ev.attr == "_impacts") or (ev.kind in ("call.method", "dict.update", "elem.mutate") and ev.data.get("method", "update") == "update")
                               or ev.kind == "dict.update" for ev, Q in iter_events(p.events))
                    rep.check(used, "FORMAT.agree", site_l, f"{what}: name {name!r}: loaded data used", "what was read from the file becomes the object's data", extracted="stored" if used else "read and dropped", required="stored", function=site_l)
                ok_loaded = [h for k, h in attempts if k == "persist.loaded"]
                tried = [h for k, h in attempts if k == "persist.load"]
                if ok_loaded:
                    # accepted format: the attempt that succeeded, provided every earlier attempt was of another format
                    fmt_ok = "json" if ok_loaded[-1].startswith("json") else "pickle"
                    earlier = tried[:-1]
                    if all(("json" if h.startswith("json") else "pickle") != fmt_ok for h in earlier):
                        accepts.add(fmt_ok)
                # a failure mode of reading the file as one format that leaves the loader before the other format was tried:
                # the other format is not reliably accepted under this name
                if p.outcome[0] == "raise" and isinstance(getattr(p.outcome[1], "origin", None), tuple) and p.outcome[1].origin and str(p.outcome[1].origin[0]).split(".")[0] in ("json", "pickle"):
                    tried_fmts = {("json" if h.startswith("json") else "pickle") for h in tried}
                    for other in {"json", "pickle"} - tried_fmts:
                        unreliable.setdefault(other, f"{p.outcome[1].cls} of {p.outcome[1].origin[0]} is not handled")
                # the file read as text before a pickle is looked for in it: binary data does not decode
                if p.outcome[0] == "raise" and getattr(p.outcome[1], "cls", "") == "UnicodeDecodeError" and isinstance(getattr(p.outcome[1], "origin", None), tuple) \
                        and str(p.outcome[1].origin[0]).endswith("read_text"):
                    unreliable.setdefault("pickle", "the file is read as text first: a pickle does not decode (UnicodeDecodeError)")
            fallback = {f: why for f, why in unreliable.items() if f in accepts}
            accepts -= set(fallback)
            for fmt in ("json", "pickle"):
                def setup_s(I, name=name, fmt=fmt):
                    bb = make_belief_base(I)
                    conds = I.deref(bb).attrs["conditionals"]
                    s = _obj(I, CR, lambda I: {"conditionals": conds, "_impacts": Sym("impacts"), "ranking_system": Const("random_min_c_rep")})
                    return [s, Const(name)], {"fmt": Const(fmt)}

                spaths = ex.run(saver, setup_s, summaries=_summ(), key=f"save-{what}-{name}-{fmt}")
                wrote = set()
                silent_return = False
                for p in spaths:
                    dumped = False
                    for ev, Q in iter_events(p.events):
                        if ev.kind == "persist.dump":
                            wrote.add("json" if ev.how.startswith("json") else "pickle")
                            dumped = True
                    if p.outcome[0] == "return" and not dumped:
                        silent_return = True
                if silent_return:
                    rep.violation("FORMAT.agree", site_s, f"{what}: name {name!r}, fmt={fmt}: nothing written", "a save that returns normally has written the data", extracted="returns without a dump", required="one dump", function=site_s)
                if not wrote:
                    continue
                n += 1
                ok = wrote <= accepts
                rep.check(ok, "FORMAT.agree", site_s, f"{what}: name {name!r}, fmt={fmt}", f"writes {sorted(wrote)}; the loader accepts {sorted(accepts)} for that name",
                          extracted=f"saved as {sorted(wrote)}, loader reads {sorted(accepts)}" + "".join(f"; {f} only sometimes: {why}" for f, why in fallback.items()), required="saved format ∈ formats the loader accepts", function=site_l)
    rep.floor("FORMAT.agree table rows", n, 16)


def load_rebuild(rep, ex: Explorer):
    """STATE.pickled [what load leaves unset]: `load_ocf` sets the attributes that cannot be pickled to None.  A loaded object
    goes on ranking worlds, so no method that can run after a load may dereference such an attribute (`self.X.m()`,
    `self.X[...]`, `self.X(...)`) unless the method itself assigns it or tests it first.  Methods that only the constructor
    reaches are exempt (a loaded object is not constructed).  Decided on the class hierarchy of the ranking objects."""
    import ast as _ast

    prog = ex.prog
    lo = prog.functions.get(f"{PO}.load_ocf")
    if lo is None:
        raise AnalysisError("PreOCF.load_ocf not found")
    site_l = fn_label(prog, f"{PO}.load_ocf")
    # --- the attributes load sets to None
    lists = {}
    none_attrs = set()
    for n in _ast.walk(lo.node):
        if isinstance(n, _ast.Assign) and len(n.targets) == 1 and isinstance(n.targets[0], _ast.Name) and isinstance(n.value, (_ast.List, _ast.Tuple)) \
                and all(isinstance(e, _ast.Constant) and isinstance(e.value, str) for e in n.value.elts):
            lists[n.targets[0].id] = [e.value for e in n.value.elts]
    def strings_of(e, depth=0):
        """the attribute names an expression enumerates (a superset when a comprehension filters them)"""
        if depth > 5:
            return None
        if isinstance(e, (_ast.List, _ast.Tuple, _ast.Set)) and all(isinstance(x, _ast.Constant) and isinstance(x.value, str) for x in e.elts):
            return [x.value for x in e.elts]
        if isinstance(e, _ast.Name):
            if e.id in lists:
                return lists[e.id]
            for m in _ast.walk(lo.node):
                if isinstance(m, _ast.Assign) and any(isinstance(t, _ast.Name) and t.id == e.id for t in m.targets):
                    r = strings_of(m.value, depth + 1)
                    if r is not None:
                        return r
            g = prog.modules[lo.module].globals_.get(e.id)
            return strings_of(g, depth + 1) if g is not None else None
        if isinstance(e, _ast.Attribute):
            ca = prog.lookup_class_attr(PO, e.attr)
            return strings_of(ca[1], depth + 1) if ca is not None else None
        if isinstance(e, (_ast.ListComp, _ast.GeneratorExp, _ast.SetComp)) and len(e.generators) == 1 and isinstance(e.elt, _ast.Name) \
                and isinstance(e.generators[0].target, _ast.Name) and e.generators[0].target.id == e.elt.id:
            return strings_of(e.generators[0].iter, depth + 1)
        if isinstance(e, _ast.Call) and isinstance(e.func, _ast.Name) and e.func.id in ("list", "tuple", "set", "frozenset", "sorted") and len(e.args) == 1:
            return strings_of(e.args[0], depth + 1)
        return None

    for n in _ast.walk(lo.node):
        if isinstance(n, _ast.For) and isinstance(n.target, _ast.Name):
            src = n.iter
            names = strings_of(src)
            for c in _ast.walk(n):
                if isinstance(c, _ast.Call) and isinstance(c.func, _ast.Name) and c.func.id == "setattr" and len(c.args) == 3 and isinstance(c.args[2], _ast.Constant) and c.args[2].value is None \
                        and isinstance(c.args[1], _ast.Name) and c.args[1].id == n.target.id:
                    if names is None:
                        raise AnalysisError(f"{site_l}: attributes are set to None over a list the analysis cannot read")
                    none_attrs.update(names)
        if isinstance(n, _ast.Assign) and isinstance(n.value, _ast.Constant) and n.value.value is None:
            for t in n.targets:
                if isinstance(t, _ast.Attribute) and isinstance(t.value, _ast.Name) and t.value.id != "self":
                    none_attrs.add(t.attr)
    rep.floor("attributes load_ocf leaves unset", len(none_attrs), 1)
    # --- methods of the hierarchy, who calls whom through self
    classes = [c for c in prog.classes if c == PO or PO in prog.mro(c)]
    methods = {}
    for c in classes:
        for name, fi in prog.classes[c].methods.items():
            methods.setdefault(name, []).append(fi)
    callers = {}
    for name, fis in methods.items():
        for fi in fis:
            for n in _ast.walk(fi.node):
                if isinstance(n, _ast.Call) and isinstance(n.func, _ast.Attribute) and isinstance(n.func.value, _ast.Name) and n.func.value.id in ("self", "cls") and n.func.attr in methods:
                    callers.setdefault(n.func.attr, set()).add(name)
                if isinstance(n, _ast.Attribute) and isinstance(n.value, _ast.Name) and n.value.id == "self" and n.attr in methods and not isinstance(n.ctx, _ast.Store):
                    callers.setdefault(n.attr, set()).add(name)  # (a bound method handed on: self.rank_world as a callback)
    only_init = set()
    changed = True
    while changed:
        changed = False
        for name in methods:
            if name in only_init or name == "__init__" or not name.startswith("_") or name.startswith("__"):
                continue
            cs = callers.get(name, set())
            if cs and all(c == "__init__" or c in only_init for c in cs):
                only_init.add(name)
                changed = True
    n_methods = 0
    for name, fis in sorted(methods.items()):
        if name in ("__init__", "load_ocf", "save_ocf", "__getstate__", "__setstate__") or name in only_init:
            continue
        for fi in fis:
            n_methods += 1
            site = fn_label(prog, fi.qualname)
            assigned, tested, derefs = set(), set(), []
            for n in _ast.walk(fi.node):
                if isinstance(n, _ast.Attribute) and isinstance(n.value, _ast.Name) and n.value.id == "self" and n.attr in none_attrs:
                    if isinstance(n.ctx, _ast.Store):
                        assigned.add(n.attr)
                if isinstance(n, _ast.Compare) and isinstance(n.left, _ast.Attribute) and isinstance(n.left.value, _ast.Name) and n.left.value.id == "self" and n.left.attr in none_attrs:
                    tested.add(n.left.attr)
                if isinstance(n, (_ast.If, _ast.While, _ast.IfExp, _ast.Assert)):
                    t = n.test
                    if isinstance(t, _ast.UnaryOp) and isinstance(t.op, _ast.Not):
                        t = t.operand
                    for x in ([t] if not isinstance(t, _ast.BoolOp) else t.values):
                        if isinstance(x, _ast.Attribute) and isinstance(x.value, _ast.Name) and x.value.id == "self" and x.attr in none_attrs:
                            tested.add(x.attr)
                if isinstance(n, _ast.Call) and isinstance(n.func, _ast.Name) and n.func.id in ("getattr", "hasattr") and len(n.args) >= 2 and isinstance(n.args[1], _ast.Constant) and n.args[1].value in none_attrs:
                    tested.add(n.args[1].value)
                inner = None
                if isinstance(n, _ast.Assign) and isinstance(n.value, _ast.Attribute) and isinstance(n.value.value, _ast.Name) and n.value.value.id == "self" and n.value.attr in none_attrs \
                        and all(isinstance(t, _ast.Name) for t in n.targets):
                    # bound to a local first: what is done with the local is done with the attribute
                    local = n.targets[0].id
                    used = [m for m in _ast.walk(fi.node) if (isinstance(m, _ast.Attribute) and isinstance(m.value, _ast.Name) and m.value.id == local) or
                            (isinstance(m, _ast.Subscript) and isinstance(m.value, _ast.Name) and m.value.id == local) or
                            (isinstance(m, _ast.Call) and isinstance(m.func, _ast.Name) and m.func.id == local)]
                    guarded = any(isinstance(m, _ast.Compare) and isinstance(m.left, _ast.Name) and m.left.id == local for m in _ast.walk(fi.node))
                    if used and not guarded:
                        derefs.append((n.value.attr, used[0].lineno))
                if isinstance(n, _ast.Attribute) and isinstance(n.value, _ast.Attribute):
                    inner = n.value
                elif isinstance(n, _ast.Subscript) and isinstance(n.value, _ast.Attribute):
                    inner = n.value
                elif isinstance(n, _ast.Call) and isinstance(n.func, _ast.Attribute) and isinstance(n.func.value, _ast.Name) and n.func.value.id == "self" and n.func.attr in none_attrs:
                    inner = n.func
                if inner is not None and isinstance(inner.value, _ast.Name) and inner.value.id == "self" and inner.attr in none_attrs:
                    derefs.append((inner.attr, n.lineno))
            # (a helper of the object that rebuilds the attribute counts for the method that calls it)
            for n in _ast.walk(fi.node):
                if isinstance(n, _ast.Call) and isinstance(n.func, _ast.Attribute) and isinstance(n.func.value, _ast.Name) and n.func.value.id == "self" and n.func.attr in methods:
                    for hf in methods[n.func.attr]:
                        for m in _ast.walk(hf.node):
                            if isinstance(m, _ast.Attribute) and isinstance(m.value, _ast.Name) and m.value.id == "self" and m.attr in none_attrs and isinstance(m.ctx, _ast.Store):
                                assigned.add(m.attr)
            for a, line in derefs:
                ok = a in assigned or a in tested
                rep.check(ok, "STATE.pickled", f"{site}:{line}", f"self.{a} after a load", "an attribute that load_ocf leaves as None is rebuilt or tested before it is used by anything a loaded object can run",
                          extracted=f"self.{a} is dereferenced; the method neither assigns nor tests it, and it is reachable without the constructor" if not ok else "assigned or tested in the method", required="rebuild on demand (or a None test)", function=site)
    rep.floor("methods of the ranking classes looked at for unset attributes", n_methods, 20)


def save_no_mutation(rep, ex: Explorer):
    """SAVE.unchanged on the writers other than save_ocf (save_metadata, export_impacts, save_impacts): "a save that fails
    part-way leaves the in-memory object unchanged".  Opening the target and serialising into it can fail, so nothing
    reachable from `self` may be written before the last such operation: no assignment / augmented assignment / deletion
    whose target starts at `self`, and no mutating method (`update`, `setdefault`, `append`, `pop`, `clear`, ...) called on
    an attribute of `self`, in a statement that comes before a file-opening or dumping call in the function's order of
    statements.  (save_ocf detaches and restores on purpose: SAVE.restore decides that one.)"""
    import ast as _ast

    prog = ex.prog
    MUT = {"update", "setdefault", "append", "extend", "insert", "pop", "popitem", "clear", "remove", "discard", "add", "sort", "reverse", "__setitem__", "__delitem__"}
    n = 0

    def rooted_at_self(e):
        while isinstance(e, (_ast.Attribute, _ast.Subscript)):
            e = e.value
        return isinstance(e, _ast.Name) and e.id == "self"

    def is_io(c):
        if not isinstance(c, _ast.Call):
            return False
        f = c.func
        nm = f.attr if isinstance(f, _ast.Attribute) else (f.id if isinstance(f, _ast.Name) else "")
        return nm in ("open", "dump", "dumps", "write_text", "write_bytes", "mkdir", "savetxt", "save")

    for cls in (PO, CUS, ZP, CR):
        for name in ("save_metadata", "export_impacts", "save_impacts"):
            fi = prog.functions.get(f"{cls}.{name}")
            if fi is None:
                continue
            site = fn_label(prog, f"{cls}.{name}")
            n += 1
            nodes = [x for x in _ast.walk(fi.node) if hasattr(x, "lineno")]
            io_lines = [c.lineno for c in nodes if is_io(c)]
            if not io_lines:
                # the writer delegates (save_impacts -> export_impacts): nothing can fail here before the callee runs
                rep.ok("SAVE.unchanged", site, "writes before the file operation", "no file operation in this function (it delegates)")
                continue
            last_io = max(io_lines)
            bad = None
            for x in nodes:
                if x.lineno > last_io:
                    continue
                tgts = []
                if isinstance(x, _ast.Assign):
                    tgts = x.targets
                elif isinstance(x, (_ast.AugAssign, _ast.AnnAssign)):
                    tgts = [x.target]
                elif isinstance(x, _ast.Delete):
                    tgts = x.targets
                for t in tgts:
                    for tt in (t.elts if isinstance(t, (_ast.Tuple, _ast.List)) else [t]):
                        if isinstance(tt, (_ast.Attribute, _ast.Subscript)) and rooted_at_self(tt) and bad is None:
                            bad = x
                if isinstance(x, _ast.Call) and isinstance(x.func, _ast.Attribute) and x.func.attr in MUT and isinstance(x.func.value, (_ast.Attribute, _ast.Subscript)) and rooted_at_self(x.func.value) and bad is None:
                    bad = x
            rep.check(bad is None, "SAVE.unchanged", site if bad is None else f"{site}:{bad.lineno}", "writes before the file operation",
                      "nothing reachable from self is written before the target was opened and written (either can fail, and a failed save leaves the object unchanged)",
                      extracted=(f"`{_ast.unparse(bad)[:90]}` at line {bad.lineno}, file operation at line {last_io}" if bad is not None else "no write to self before the file operations"),
                      required="no write to self", function=site)
    rep.floor("writers looked at for SAVE.unchanged", n, 2)


def custom_init(rep, ex: Explorer):
    """CUSTOM.init (by evaluation): the custom ranking object is what the caller described - its rank table is the mapping
    passed, its signature the list passed with it (the positions of the world strings are positions of *that* list; a base
    passed along supplies the signature only when none is given), its conditionals those of the base (none without one).
    Evaluated on the four combinations of base / signature given or not."""
    prog = ex.prog
    qual = f"{CUS}.__init__"
    if qual not in prog.functions:
        raise AnalysisError(f"{qual} not found")
    site = fn_label(prog, qual)
    n = 0
    for with_base in (False, True):
        for with_sig in (False, True):
            if not with_base and not with_sig:
                continue

            def setup(I, with_base=with_base, with_sig=with_sig):
                me = I.alloc(HObj(CUS, {}))
                base = Const(None)
                if with_base:
                    base = I.alloc(HObj("inference.belief_base.BeliefBase", {"signature": I.new_list([Const("a"), Const("b")]), "conditionals": Sym("BASE_CONDS"), "name": Const("kb")}))
                sig = I.new_list([Const("c"), Const("a"), Const("b")]) if with_sig else Const(None)
                I._custom_me = me
                return [me, Sym("RANKS"), base, sig, Const(None)], {}

            I_ = Interp(prog)
            paths = I_.explore(qual, setup)
            if ex.report is not None:
                ex.report.absorb_stats(I_)
            slot = f"base {'given' if with_base else 'absent'}, signature {'given' if with_sig else 'absent'}"
            if len(paths) != 1 or paths[0].outcome[0] != "return":
                raise AnalysisError(f"{site}: {len(paths)} paths / {[p.outcome[0] for p in paths]} on concrete arguments ({slot})")
            p = paths[0]
            me = next((o for o in p.state.heap.values() if isinstance(o, HObj) and o.cls == CUS), None)
            if me is None:
                raise AnalysisError(f"{site}: constructed object not found ({slot})")
            n += 1
            sg = me.attrs.get("signature")
            vw = view(p.state, sg) if sg is not None else None
            got = [x[1].value for x in vw[1] if x[0] == "one" and isinstance(x[1], Const)] if isinstance(vw, tuple) and vw[0] == "list" else repr(vw)
            want = ["c", "a", "b"] if with_sig else ["a", "b"]
            rep.check(got == want, "CUSTOM.init", site, f"signature ({slot})", "the signature of a custom ranking is the one passed with its ranks (the bits of the world strings are positions in it); the base's only when none is passed",
                      extracted=repr(got)[:80], required=repr(want), function=site)
            rk = me.attrs.get("ranks")
            rep.check(isinstance(rk, Sym) and rk.label == "RANKS", "CUSTOM.init", site, f"ranks ({slot})", "the rank table is the mapping passed", extracted=repr(rk)[:80], required="the ranks argument", function=site)
            cd = me.attrs.get("conditionals")
            okc = (isinstance(cd, Sym) and cd.label == "BASE_CONDS") if with_base else (isinstance(cd, Const) and cd.value is None)
            rep.check(okc, "CUSTOM.init", site, f"conditionals ({slot})", "the conditionals are those of the base passed (none without a base)", extracted=repr(cd)[:80], required="belief_base.conditionals" if with_base else "None", function=site)
    rep.floor("custom constructions evaluated", n, 3)


def impacts_observe(rep, ex: Explorer):
    """IMPACTS.observe (by evaluation): `save_impacts` - the documented way to look at the impact vector of a c-representation -
    returns the vector the object holds: same numbers, same order, a list of its own or the list itself, and leaves the object
    as it was; without a vector it raises."""
    prog = ex.prog
    qual = f"{CR}.save_impacts"
    if prog.lookup_method(CR, "save_impacts") is None:
        raise AnalysisError(f"{qual} not found")
    fi = prog.lookup_method(CR, "save_impacts")
    site = fn_label(prog, fi.qualname)
    n = 0
    for vec in ([3, 0, 5], [0], [], [2, 2, 1, 0]):
        held = {}

        def setup(I, vec=vec, held=held):
            imp = I.new_list([Const(x) for x in vec])
            me = I.alloc(HObj(CR, {"_impacts": imp, "ranks": I.alloc(HDict()), "signature": I.new_list([Const("a")]), "_metadata": I.alloc(HDict()), "_state": I.alloc(HDict())}))
            held["me"], held["imp"] = me, imp
            return [me], {}

        I_ = Interp(prog)
        paths = I_.explore(fi.qualname, setup)
        if ex.report is not None:
            ex.report.absorb_stats(I_)
        slot = f"impacts {vec}"
        if len(paths) != 1:
            raise AnalysisError(f"{site}: {len(paths)} paths on a concrete object ({slot})")
        p = paths[0]
        n += 1
        if p.outcome[0] != "return":
            rep.violation("IMPACTS.observe", site, slot, "the impact vector of an object that has one is handed out", extracted=f"{p.outcome[0]} {p.outcome[1]!r}"[:100], required=repr(vec), function=site)
            continue
        vw = view(p.state, p.outcome[1])
        got = [x[1].value for x in vw[1] if x[0] == "one" and isinstance(x[1], Const)] if isinstance(vw, tuple) and vw[0] in ("list", "tuple") else repr(vw)
        rep.check(got == vec, "IMPACTS.observe", site, slot, "save_impacts returns the impact vector the object holds: same numbers in the same order", extracted=repr(got)[:100], required=repr(vec), function=site)
        me = p.state.heap.get(held["me"].oid)
        cur = view(p.state, me.attrs.get("_impacts")) if isinstance(me, HObj) else None
        kept = [x[1].value for x in cur[1] if x[0] == "one" and isinstance(x[1], Const)] if isinstance(cur, tuple) and cur[0] == "list" else repr(cur)
        rep.check(kept == vec, "IMPACTS.observe", site, slot + " (object afterwards)", "looking at the impacts does not change them", extracted=repr(kept)[:100], required=repr(vec), function=site)

    def setup_none(I):
        return [I.alloc(HObj(CR, {"_impacts": Const(None), "ranks": I.alloc(HDict()), "signature": I.new_list([Const("a")]), "_metadata": I.alloc(HDict()), "_state": I.alloc(HDict())}))], {}

    I_ = Interp(prog)
    for p in I_.explore(fi.qualname, setup_none):
        n += 1
        rep.check(p.outcome[0] == "raise", "IMPACTS.observe", site, "no vector", "an object without impacts has none to hand out: an error, not a made-up vector", extracted=f"{p.outcome[0]} {p.outcome[1]!r}"[:100], required="raise", function=site)
    rep.floor("save_impacts evaluations", n, 5)


def factory_dispatch(rep, ex: Explorer):
    """FACTORY.dispatch (by evaluation): `create_preocf(name, ...)` constructs the class the name stands for with the caller's
    arguments in their places, and rejects a name it does not know."""
    prog = ex.prog
    qual = "inference.preocf.create_preocf"
    if qual not in prog.functions:
        return
    site = fn_label(prog, qual)
    want = {"system-z": ZP, "random_min_c_rep": CR, "custom": CUS}
    n = 0
    for name in list(want) + ["no-such-system", "System-Z"]:
        seen = []

        def mk(cls_):
            def construct(I, fi_, args, kwargs, node, cls_=cls_, seen=seen):
                seen.append((cls_, tuple(repr(a) for a in args), tuple(sorted((k, repr(v)) for k, v in kwargs.items()))))
                return Sym(("constructed", cls_))
            return construct

        def setup(I, name=name):
            return [Const(name), Sym("ARG1"), Sym("ARG2")], {"metadata": Sym("KW")}

        I_ = Interp(prog, summaries={c: mk(c) for c in want.values()})
        paths = I_.explore(qual, setup)
        if ex.report is not None:
            ex.report.absorb_stats(I_)
        if len(paths) != 1:
            raise AnalysisError(f"{site}: {len(paths)} paths for the concrete name {name!r}")
        p = paths[0]
        n += 1
        if name in want:
            ok = p.outcome[0] == "return" and p.outcome[1] == Sym(("constructed", want[name])) and len(seen) == 1 \
                and seen[0][1] == (repr(Sym("ARG1")), repr(Sym("ARG2"))) and seen[0][2] == (("metadata", repr(Sym("KW"))),)
            rep.check(ok, "FACTORY.dispatch", site, f"name {name!r}", "the factory constructs the class the name stands for, with the caller's arguments", extracted=f"{p.outcome[0]} {p.outcome[1]!r}; constructed {seen}"[:200], required=f"{want[name].rsplit('.', 1)[1]}(ARG1, ARG2, metadata=KW)", function=site)
        else:
            rep.check(p.outcome[0] == "raise", "FACTORY.dispatch", site, f"name {name!r}", "an unknown name is rejected (no silent default)", extracted=f"{p.outcome[0]} {p.outcome[1]!r}"[:120], required="raise", function=site)
    rep.floor("create_preocf evaluations", n, 5)
