"""C01 (p-entailment) and EXT.pinf (C07.D4) on PEntailment._inference."""
from __future__ import annotations

from .. import formula as F
from ..absint import iter_events
from ..absvals import Const, Sym, PredV, Ref, ElemV, HObj, PTRUE, show_pred
from ..front import AnalysisError
from ..harness import (Explorer, make_belief_base, make_epistemic_state, make_query, A, B, QUERY, material, canon_items,
                       flat, each_item, show_items, fn_label, decided, truth_rows, KEYS_D, returned_bool)
from . import wrappers


def _setup(cls):
    def setup(I):
        bb = make_belief_base(I)
        es = make_epistemic_state(I, bb, "p-entailment")
        s = I.alloc(HObj(cls, {"epistemic_state": es}))
        return [s, make_query(), Sym("weakly", "bool"), Sym("deadline")], {}

    return setup


def check(rep, ex: Explorer, cls: str, strict=True, extended=True, keys=False, floors=True):
    qual = f"{cls}._inference"
    site = fn_label(ex.prog, qual)
    paths = ex.run(qual, _setup(cls), summaries=wrappers.SUMMARIES, key="pent")
    n_strict = n_ext = 0
    # a path that answers without looking at the mode flag (e.g. one partition test in the mode handed in, "no partition"
    # answered before the modes part ways) is a path of both modes
    pw = []
    for p_ in paths:
        w_ = decided(p_, ("truthy", "weakly"))
        pw.extend([(p_, w_)] if w_ is not None else [(p_, False), (p_, True)])
    for p, W in pw:
        if (W and not extended) or (not W and not strict):
            continue
        cons = [ev for ev, Q in iter_events(p.events) if ev.kind == "summary.consistency"]
        mode = "extended" if W else "strict"
        if len(cons) != 1:
            rep.violation("C01.negation", site, f"{mode}: partition test", "the answer is not derived from one tolerance-partition test of base ∪ {(¬B|A)}",
                          extracted=f"{len(cons)} partition computation(s)", required="1", function=site)
            continue
        c = cons[0]
        # ---- C01.negation
        ents, each = c.bbdesc[1], c.bbdesc[2]
        base_ok = len(each) == 1 and each[0][0] == KEYS_D and each[0][1] == PTRUE and each[0][3] == ("cond", F.canon(A(("var", "x"))), F.canon(B(("var", "x")))) or \
            (len(each) == 1 and each[0][0] == KEYS_D and each[0][1] == PTRUE and each[0][3][0] == "cond" and
             each[0][3][1][1] == (("atom", each[0][2][1], "A"),) and each[0][3][2][1] == (("atom", each[0][2][1], "B"),) and each[0][3][1][2] == (False, True) and each[0][3][2][2] == (False, True))
        rep.check(base_ok, "C01.negation", site, f"{mode}: base kept", "the tested base contains every conditional of the belief base unchanged",
                  extracted=f"{len(each)} guarded group(s)", required="all conditionals of the base", function=site)
        want = ("cond", F.canon(A(QUERY)), F.canon(("not", B(QUERY))))
        # facts the path decided about a side of the query being one of the constants: both the extracted and the
        # required conditional are read under them (a special case for a constant side must still add (¬B|A))
        fixed = {}
        isc = {k[2][1]: v for k, v in p.decisions if k[:2] == ("fnode", "is_bool_constant") and isinstance(k[2], tuple) and k[2][:1] == ("f",)}
        cvs = {k[2][1]: v for k, v in p.decisions if k[:2] == ("fnode", "constant_value") and isinstance(k[2], tuple) and k[2][:1] == ("f",)}
        for atom, yes in isc.items():
            if yes and atom in cvs:
                fixed[atom] = cvs[atom]
        if any(yes and atom not in cvs for atom, yes in isc.items()):
            raise AnalysisError(f"{site}: a side of the query is treated as a constant whose value the path never looks at")

        def under(cd):
            return ("cond", F.canon_restrict(cd[1], fixed), F.canon_restrict(cd[2], fixed)) if fixed and isinstance(cd, tuple) and cd[:1] == ("cond",) else cd

        ok = len(ents) == 1 and under(ents[0][1]) == under(want)
        got = "; ".join(f"key {k}: {_show_cond(v)}" for k, v in ents) or "none"
        rep.check(ok, "C01.negation", site, f"{mode}: negated query", "exactly the conditional (¬B|A) is added to the base",
                  extracted=got, required="antecedent ≡ A, consequent ≡ ¬B", function=site)
        if keys:
            # KEY.no-reserved (C12.D1): the query must not be stored under a literal key that the base may use
            for k, v in ents:
                lit = not k.startswith("('d'")
                if lit and decided(p, ("empty", ("keys", "D"))) is True:
                    rep.ok("KEY.no-reserved", site, "negated-query key (empty base)", "any key is free in an empty base", extracted=f"literal key {k} on the path where the base has no conditionals")
                    continue
                fresh = (not lit) and _fresh_key(k)
                if not lit and not fresh:
                    cx = _colliding_key(k)
                    if cx:
                        rep.violation("KEY.no-reserved", site, "negated-query key", "the negated query is stored under a key that cannot collide with a key of the base (a collision overwrites a conditional of the base)",
                                      extracted=f"key {cx[0]}: collides for a base {cx[1]}", required="a key provably outside the base's keys", function=site)
                        continue
                    raise AnalysisError(f"{site}: cannot tell whether the key {k[:120]} of the negated query is outside the base's keys")
                rep.check(not lit, "KEY.no-reserved", site, "negated-query key", "the negated query is stored under a key that cannot collide with a key of the base",
                          extracted=f"literal key {k}" if lit else "below the minimum / above the maximum of the base's keys", required="a key provably outside the base's keys", function=site)
        # ---- C01.mode-arg
        # the mode flag itself is as good as the constant: on this path its truth value is W
        cw = c.weakly
        if isinstance(cw, PredV):
            from ..harness import value_on_path
            cw = value_on_path(p, cw)  # (`weakly=not strict` with `strict = not weakly`: the path has decided it)
            if isinstance(cw, PredV):
                # the flag handed on as a truth value the path never looked at: under the case considered here it is W
                def _under(q):
                    if q == ("truthy", "weakly"):
                        return W
                    if isinstance(q, tuple) and q and q[0] == "not":
                        v_ = _under(q[1])
                        return None if v_ is None else not v_
                    return None
                b_ = _under(cw.p)
                if b_ is not None:
                    cw = Const(b_)
        ok = (isinstance(cw, Const) and cw.value is W) or (isinstance(cw, Sym) and cw.label == "weakly")
        rep.check(ok, "C01.mode-arg", site, f"{mode}: partition mode", f"the partition of the extended base is computed in {mode} mode",
                  extracted=repr(c.weakly), required=str(W), function=site)
        pf = ("partfalse", ("part", c.pid))
        rows = truth_rows(p)
        if not rows:
            rep.violation("C01.polarity" if not W else "EXT.pinf", site, f"{mode}: answer", "no Boolean answer on this path", extracted=repr(p.outcome[:2]), required="Boolean", function=site)
            continue
        if not W:
            n_strict += 1
            for env, val in rows:
                if pf not in env:
                    raise AnalysisError(f"{site}: strict answer does not depend on the partition verdict")
                # (whether the base is empty may be looked at - e.g. to choose a key -; the row check below still demands
                # the same answer for the same partition verdict on either side of it)
                extra = [k for k in env if k not in (pf, ("truthy", "weakly"), ("empty", ("keys", "D"))) and not (k[0] == "fnode" and k[1] in ("is_bool_constant", "constant_value"))]
                if extra:
                    raise AnalysisError(f"{site}: strict answer depends on {extra[0]!r}")
                rep.check(val == env[pf], "C01.polarity", site, f"strict: no partition={env[pf]}", "True exactly when base ∪ {(¬B|A)} admits no tolerance partition",
                          extracted=f"answer {val}", required=str(env[pf]), function=site)
        else:
            n_ext += 1
            qevs = [ev for ev, Q in iter_events(p.events) if ev.kind == "query"]
            used = [ev for ev, Q in iter_events(p.events) if ev.kind == "use.as-list" and isinstance(ev.value, ElemV) and ev.value.var == ("part", c.pid)]
            if decided(p, pf) is None and used:
                rep.violation("EXT.pinf", f"{site}:{used[0].node.lineno}", "extended: no partition", "no extended partition of base ∪ {(¬B|A)} ⇒ True; the verdict False of the partition test is indexed like a list (TypeError) instead",
                              extracted="partition[...] without testing for False", required="True when the test yields no partition", function=site)
                continue
            for env, val in rows:
                if pf not in env:
                    raise AnalysisError(f"{site}: extended answer does not depend on the partition verdict")
                if env[pf]:
                    rep.check(val is True, "EXT.pinf", site, "extended: no partition", "no extended partition of base ∪ {(¬B|A)} ⇒ True", extracted=f"answer {val}", required="True", function=site)
                    continue
                sats = [k for k in env if k[0] == "sat"]
                if len(sats) != 1 or len(qevs) != 1:
                    rep.violation("EXT.pinf", site, "extended: vacuity test", "the extended answer is not one satisfiability test against the infinity layer",
                                  extracted=f"{len(qevs)} test(s)", required="1", function=site)
                    continue
                q = qevs[0]
                last = ("members", ("at", ("part", c.pid), ("lin", F.lin_add(F.lin_term(("len", ("part", c.pid))), F.lin_const(-1)))))
                want_items = [each_item(last, material), ("f", A(QUERY))]
                okq = canon_items(flat(q.frames)) == canon_items(want_items)
                rep.check(okq, "EXT.pinf", f"{site}:{q.node.lineno}", "extended: vacuity scope", "A is tested against the material counterparts of the last (infinity) layer",
                          extracted=show_items(flat(q.frames)), required=show_items(want_items), function=site)
                rep.check(val == (not env[sats[0]]), "EXT.pinf", site, f"extended: test {'sat' if env[sats[0]] else 'unsat'}", "answer = UNSAT(infinity layer ∪ {A})",
                          extracted=f"answer {val}", required=str(not env[sats[0]]), function=site)
    if strict:
        rep.floor("strict p-entailment paths", n_strict, 1)
    if extended:
        rep.floor("extended p-entailment paths", n_ext, 2 if floors else 1)


def _show_cond(d):
    if isinstance(d, tuple) and d and d[0] == "cond":
        from ..harness import show_canon

        return f"(B:{show_canon(d[2])} | A:{show_canon(d[1])})"
    return repr(d)


def _colliding_key(krepr: str):
    """A key expression that provably can collide: len(keys)+c / len(keys)-c (the base may be keyed by any integers)."""
    import ast as _ast

    try:
        d = _ast.literal_eval(krepr)
    except Exception:
        return None
    if not (isinstance(d, tuple) and d[0] == "d" and isinstance(d[1], tuple)):
        return None
    from ..harness import agg_over_keys
    if d[1][0] in ("min", "max") and agg_over_keys(d[1]):
        # the extreme key itself (offset 0): always a key of the base
        return (f"{d[1][0]}(keys)", "whatever its keys are: that key belongs to a conditional of the base")
    if d[1][0] != "lin":
        return None
    terms, const = d[1][1]
    if len(terms) == 1 and terms[0][1] == 1 and isinstance(terms[0][0], tuple) and terms[0][0][0] == "len" and "('keys', 'D')" in repr(terms[0][0]):
        return (f"len(conditionals){const:+d}", f"of n conditionals one of which is keyed n{const:+d}")
    if len(terms) == 1 and terms[0][1] == 1 and isinstance(terms[0][0], tuple) and terms[0][0][0] in ("min", "max") and agg_over_keys(terms[0][0]):
        side = terms[0][0][0]
        if (side == "min" and const >= 0) or (side == "max" and const <= 0):
            return (f"{side}(keys){const:+d}", f"keyed by consecutive integers with more than {abs(const)} conditionals")
    return None


def _fresh_key(krepr: str) -> bool:
    """A key expression of the form min(keys of the base) - c or max(keys of the base) + c with c >= 1 (recognised on
    the descriptor the engine stored the entry under)."""
    import ast as _ast

    try:
        d = _ast.literal_eval(krepr)
    except Exception:
        return False
    if not (isinstance(d, tuple) and d[0] == "d"):
        return False
    x = d[1]
    if not (isinstance(x, tuple) and x[0] == "lin"):
        return False
    terms, const = x[1]
    if len(terms) != 1:
        return False
    (t, c), = terms
    if c != 1 or not (isinstance(t, tuple) and t and t[0] in ("min", "max")):
        return False
    from ..harness import agg_over_keys
    if not agg_over_keys(t):
        return False
    return (t[0] == "min" and const <= -1) or (t[0] == "max" and const >= 1)
